import NibabelModel.Model.C20
import NibabelModel.Lemmas.C20_Load
import NibabelModel.Lemmas.C20_Trunc
import NibabelModel.Lemmas.C20_Perm
import NibabelModel.Lemmas.C20_Lax
import NibabelModel.Lemmas.C20_Count
import NibabelModel.Lemmas.C20_Sites
import NibabelModel.Lemmas.C20_GenFuncs
import NibabelModel.Lemmas.C20_GenMethods
import NibabelModel.Lemmas.C20_Chain
/-! Props/C20 — property theorems for C20 (PAR/REC volumes are assembled by slice labels, not by
    record order).  Helper lemmas: Lemmas/C20_Sort, C20_Vol, C20_Strict, C20_Load, C20_Sites (call-site
    refinement), C20_GenFuncs (translated `vol_numbers`, tables read off the source).
    Sections 1-5 speak about the one-list specification `load`; section 6 proves that the call-site
    model `loadSites` (what the driver runs against the real loader) computes exactly `load`, section 7
    gives the scale factors their numeric meaning under the guard SS ≠ 0 ∧ RS ≠ 0, section 8 ties
    `vol_numbers`, the sort keys and the label keys to the current source text. -/
namespace Nb.C20

/-! ### concrete data used by the non-vacuity examples and the counterexample -/

/-- V4.2 header of a 2-slice, 2-dynamic recording -/
def exCfg : Cfg := ⟨.v42, false, 2, 1, 2, 1, 1⟩

/-- record (slice, dynamic) with its own scale factors and payload -/
def exRec (sl dy : Int) (ri rs ss : Int) (pl : Nat) : Rec :=
  { slice := sl, echo := 1, dyn := dy, phase := 1, itype := 0, seq := 2, bval := 1, grad := 1, label := 1,
    ri := ri, rs := rs, ss := ss, payload := pl }

def exFull : List Rec := [exRec 1 1 3 2 5 11, exRec 2 1 (-1) 4 3 12, exRec 1 2 7 6 2 21, exRec 2 2 0 3 3 22]
def exFullShuffled : List Rec := [exRec 2 2 0 3 3 22, exRec 1 1 3 2 5 11, exRec 1 2 7 6 2 21, exRec 2 1 (-1) 4 3 12]
/-- the recording stopped after the first slice of the second volume -/
def exTrunc : List Rec := [exRec 1 1 3 2 5 11, exRec 2 1 (-1) 4 3 12, exRec 1 2 7 6 2 21]

/-! ### 1. strict sorting does not depend on the record order -/

/-- **strict_sort_perm_invariant.**  For every record list with pairwise distinct strict sort keys
    and every permutation of it (the REC slabs travel with their records: the payload is a field of
    the record), `get_sorted_slice_indices` under strict sorting selects the same records in the same
    order — including the trimming to `prod(shape[2:])` entries, errors included. -/
theorem strict_sort_perm_invariant (c : Cfg) (r₁ r₂ : List Rec) (hp : r₁.Perm r₂) (hk : keysNodup c r₁) :
    assembled c r₁ = assembled c r₂ := by
  rw [assembled_eq, assembled_eq, strictOrder_recs_perm c hp hk, nVols_perm c hp, nSlices_perm hp]

example : exFull.Perm exFullShuffled ∧ keysNodup exCfg exFull ∧
    assembled exCfg exFullShuffled = .ok exFull := by decide

/-- shape (`n_slices`, `n_vols`) is the same for every record order (no key hypothesis needed) -/
theorem shape_perm_invariant (c : Cfg) (r₁ r₂ : List Rec) (hp : r₁.Perm r₂) :
    nSlices r₁ = nSlices r₂ ∧ nVols c r₁ = nVols c r₂ :=
  ⟨nSlices_perm hp, nVols_perm c hp⟩

/-! ### 2. one index list for data, scale factors and labels; own-record scaling -/

/-- **same_indices_everywhere / scaling_own_record.**  Whatever the sort (strict, lax, original),
    the scaling method and the header: output slice `k` of a successful load is the slab of the record
    at file position `idx[k]`, and slope and intercept `k` are the dv / fp factors of THAT record.

    GLUE: for the specification-level `load` this holds by construction (`load` builds idx, data,
    slopes, inters and labels from ONE `kept` list); its only non-definitional content is
    `sortedSlices_atPos` (the positions are true file positions).  The code recomputes the index list
    at four call sites on two header objects; that the call-site model `loadSites` nevertheless agrees
    is `call_sites_agree` / `loadSites_eq_load` below. -/
theorem same_indices_everywhere (c : Cfg) (permit strict orig : Bool) (m : Scaling) (recs : List Rec) (o : Out)
    (h : load c permit strict m orig recs = .ok o) :
    ∃ kept : List (Nat × Rec), (∀ p ∈ kept, recs[p.1]? = some p.2) ∧
      o.idx = kept.map (·.1) ∧ o.data = kept.map (·.2.payload) ∧
      o.slopes = kept.map (slopeOf m ·.2) ∧ o.inters = kept.map (interOf m ·.2) ∧
      o.labels = volumeLabels c recs (kept.map (·.2)) := by
  unfold load at h
  cases ht : truncationChecks c permit recs with
  | error e => rw [ht] at h; cases h
  | ok u =>
    rw [ht] at h
    cases hn : nVols c recs with
    | error e => rw [hn] at h; cases h
    | ok nv =>
      rw [hn] at h
      cases hs : sortedSlices c strict orig recs with
      | error e => rw [hs] at h; cases h
      | ok kept =>
        rw [hs] at h
        refine ⟨kept, sortedSlices_atPos hs, ?_⟩
        simp only [bind, Except.bind, pure, Except.pure] at h
        split at h
        · cases h
        · injection h with h
          subst h
          exact ⟨rfl, rfl, rfl, rfl, rfl⟩

/-- `scaling_own_record`, pointwise form: the k-th slope/intercept are those of the record whose
    slab is the k-th output slice.  (GLUE for `load`, see above; the statement about the code's call
    structure and the numeric meaning of the factors is `scaled_value_own_record`.  `slopeOf .fp` /
    `interOf .fp` are Rat divisions totalised at 0: nothing numeric is claimed here.) -/
theorem scaling_own_record (c : Cfg) (permit strict orig : Bool) (m : Scaling) (recs : List Rec) (o : Out)
    (h : load c permit strict m orig recs = .ok o) (k : Nat) (hk : k < o.idx.length) :
    ∃ r, recs[o.idx[k]]? = some r ∧ o.data[k]? = some r.payload ∧
      o.slopes[k]? = some (slopeOf m r) ∧ o.inters[k]? = some (interOf m r) := by
  obtain ⟨kept, hpos, hi, hd, hs, hn, _⟩ := same_indices_everywhere c permit strict orig m recs o h
  have hk' : k < kept.length := by simpa [hi] using hk
  refine ⟨kept[k].2, ?_, ?_, ?_, ?_⟩
  · have := hpos kept[k] (List.getElem_mem hk')
    simpa [hi] using this
  · simp [hd, hk']
  · simp [hs, hk']
  · simp [hn, hk']

example : ∃ o, load exCfg true true .fp false exTrunc = .ok o ∧ o.idx = [0, 1] ∧ o.data = [11, 12] := by
  refine ⟨_, rfl, ?_, ?_⟩ <;> decide

/-- **load_perm_invariant — hence array, scaling arrays, labels and shape are equal.**  For every
    key-distinct record list and every permutation of it (slabs permuted alike) the strict load gives
    the same result: the same error, or the same shape, data (per-slice slab identity, whole and
    sliced reads), slopes, intercepts and volume labels.  Success itself is order-independent
    (`truncationChecks_perm`, `nVols_perm`); only the file positions `idx` differ, as they must. -/
theorem load_perm_invariant (c : Cfg) (permit : Bool) (m : Scaling) (r₁ r₂ : List Rec)
    (hp : r₁.Perm r₂) (hk : keysNodup c r₁) :
    (load c permit true m false r₁).map Out.content = (load c permit true m false r₂).map Out.content := by
  rw [load_content, load_content]
  unfold loadContent
  rw [truncationChecks_perm c permit hp, nVols_perm c hp, strict_sort_perm_invariant c r₁ r₂ hp hk,
    nSlices_perm hp]
  simp only [volumeLabels_perm' c hp]

example : exFull.Perm exFullShuffled ∧ keysNodup exCfg exFull ∧
    ∃ o₁ o₂, load exCfg false true .fp false exFull = .ok o₁ ∧
      load exCfg false true .fp false exFullShuffled = .ok o₂ ∧ o₁.data = [11, 12, 21, 22] ∧
      o₂.idx = [1, 3, 2, 0] :=
  ⟨by decide, by decide, _, _, rfl, rfl, by decide, by decide⟩

/-- **partial_read_eq_whole.**  A sliced read through the proxy (`dataobj[slicer]`, any non-empty
    slicer) selects from exactly the slabs of the whole-array read, whichever path `_get_unscaled`
    takes: the direct `fileslice` path is taken only for the index list 0,1,…,k-1, for which the first
    k slabs of the REC file in record order ARE the gathered slabs (`take_eq_of_sequential`). -/
theorem partial_read_eq_whole (c : Cfg) (permit strict orig : Bool) (m : Scaling) (recs : List Rec) (o : Out)
    (h : load c permit strict m orig recs = .ok o) : o.pdata = o.data := by
  unfold load at h
  cases ht : truncationChecks c permit recs with
  | error e => rw [ht] at h; cases h
  | ok u =>
    rw [ht] at h
    cases hn : nVols c recs with
    | error e => rw [hn] at h; cases h
    | ok nv =>
      rw [hn] at h
      cases hs : sortedSlices c strict orig recs with
      | error e => rw [hs] at h; cases h
      | ok kept =>
        rw [hs] at h
        simp only [bind, Except.bind, pure, Except.pure] at h
        split at h
        · cases h
        · injection h with h
          subst h
          exact partialSlabs_eq (sortedSlices_atPos hs)

/-- slice-major storage of `exFull`: the sorted indices are 0,2,1,3 — first and last in place, not
    sequential, so sliced reads must NOT go straight to the REC file -/
example : ∃ o, load exCfg false true .dv false
    [exRec 1 1 3 2 5 11, exRec 1 2 7 6 2 21, exRec 2 1 (-1) 4 3 12, exRec 2 2 0 3 3 22] = .ok o ∧
    o.idx = [0, 2, 1, 3] ∧ o.direct = false ∧ o.pdata = [11, 12, 21, 22] :=
  ⟨_, rfl, by decide, by decide, by decide⟩

/-! ### 3. the defect of the pinned tree -/

/-- **strict_truncated_orig_counterexample.**  ORIGINAL `_strict_sort_order` (volume numbers and
    fullness over the whole sorted sequence, second stage `lexsort((vol_nos, is_full))`): for a
    recording that stopped after the first slice of its second volume the PARTIAL volume's record is
    kept (and comes first) and slice 2 of the complete volume is dropped; the current logic keeps
    exactly the complete volume. -/
theorem strict_truncated_orig_counterexample :
    (sortedSlices exCfg true true exTrunc).map (fun l => l.map (·.2.payload)) = .ok [21, 11] ∧
    (sortedSlices exCfg true false exTrunc).map (fun l => l.map (·.2.payload)) = .ok [11, 12] := by
  decide

/-! ### 4. truncated recordings: exactly the complete volumes -/

/-- Meaning of the per-set fullness flag computed by `_strict_sort_order` (`vol_is_full` on the slice
    numbers of ONE label set, tag = set number): the entry with volume number `v` in set `t` is full
    iff every slice number of 1..max_slices occurs more than `v` times in set `t`.  With pairwise
    distinct strict keys every (set, slice) pair occurs at most once, so `v = 0` and the flag says
    "the label set of this record contains every slice number", i.e. the volume is complete. -/
theorem full_flag_meaning (tagged : List (Nat × Int)) (smax : Int) :
    volsAndFull tagged smax = (tagged.zip (occNumbers tagged)).map fun tv =>
      (tv.2, (sliceRange smax).all fun s => decide (tv.2 < tagged.count (tv.1.1, s))) :=
  volsAndFull_eq tagged smax

/-- **truncated_exactly_full_volumes.**  For every record list with pairwise distinct strict keys and
    slice numbers inside 1..max_slices such that
      (H0) some slice position `s0` occurs only in complete label sets (no partial volume has it), and
      (H1) at least one label set is complete,
    strict sorting with trimming returns EXACTLY the records of the complete label sets (`complete`:
    the records sharing all non-slice strict keys with `r` cover every slice number 1..max_slices),
    ordered by label key and slice number.
    H0 is the structural reason why `prod(shape[2:])` is right (`nUsed_correct`): `_get_n_vols` counts
    global slice occurrences, i.e. min over slice positions of the number of records — it equals the
    number of complete sets iff some position is free of partial volumes.  It cannot be dropped
    (`truncated_multi_partial_overcount_witness`), nor can H1 (open finding
    parrec:truncated-no-complete-volume). -/
theorem truncated_exactly_full_volumes (c : Cfg) (recs : List Rec) (hk : keysNodup c recs)
    (hr : ∀ r ∈ recs, 1 ≤ r.slice ∧ r.slice ≤ c.maxSlices)
    (s0 : Int) (hs0 : 1 ≤ s0 ∧ s0 ≤ c.maxSlices)
    (H0 : ∀ r ∈ recs, r.slice = s0 → complete c recs r = true)
    (H1 : ∃ r ∈ recs, complete c recs r = true) :
    assembled c recs = .ok ((stableSort (strictLe c) recs).filter (complete c recs)) := by
  have hr' : (recs.map (·.slice)).all (inRange c.maxSlices) = true := by
    simp only [List.all_eq_true, List.mem_map, inRange, Bool.and_eq_true, decide_eq_true_eq]
    rintro s ⟨r, hrm, rfl⟩
    exact hr r hrm
  obtain ⟨nv, hv, hn⟩ := nUsed_correct c recs hk hr' s0 ((mem_sliceRange _ _).2 hs0) H0 H1
  exact assembled_complete c recs hk hr' nv hv hn

/-- membership form: a record is kept iff it belongs to a complete label set -/
theorem truncated_kept_iff (c : Cfg) (recs : List Rec) (hk : keysNodup c recs)
    (hr : ∀ r ∈ recs, 1 ≤ r.slice ∧ r.slice ≤ c.maxSlices)
    (s0 : Int) (hs0 : 1 ≤ s0 ∧ s0 ≤ c.maxSlices)
    (H0 : ∀ r ∈ recs, r.slice = s0 → complete c recs r = true)
    (H1 : ∃ r ∈ recs, complete c recs r = true) :
    ∃ kept, assembled c recs = .ok kept ∧ ∀ r, r ∈ kept ↔ r ∈ recs ∧ complete c recs r = true := by
  refine ⟨_, truncated_exactly_full_volumes c recs hk hr s0 hs0 H0 H1, ?_⟩
  intro r
  rw [List.mem_filter, mem_stableSort]

example : keysNodup exCfg exTrunc ∧ (∀ r ∈ exTrunc, 1 ≤ r.slice ∧ r.slice ≤ exCfg.maxSlices) ∧
    (∀ r ∈ exTrunc, r.slice = 2 → complete exCfg exTrunc r = true) ∧
    (∃ r ∈ exTrunc, complete exCfg exTrunc r = true) ∧
    assembled exCfg exTrunc = .ok [exRec 1 1 3 2 5 11, exRec 2 1 (-1) 4 3 12] := by decide

/-- the same conclusion whenever the volume count happens to be right (no structural hypothesis) -/
theorem truncated_exactly_full_volumes_of_count (c : Cfg) (recs : List Rec) (hk : keysNodup c recs)
    (hr : (recs.map (·.slice)).all (inRange c.maxSlices) = true) (nv : Nat) (hv : nVols c recs = .ok nv)
    (hn : nUsedOf (nSlices recs) nv = (recs.filter (complete c recs)).length) :
    assembled c recs = .ok ((stableSort (strictLe c) recs).filter (complete c recs)) :=
  assembled_complete c recs hk hr nv hv hn

/-- Without any key hypothesis (duplicate volume labels, V4 diffusion): the second sort stage followed
    by the trimming keeps exactly the positions flagged full by the per-set test (`full_flag_meaning`)
    when `prod(shape[2:])` equals their number. -/
theorem truncated_keeps_flagged_full (c : Cfg) (recs : List Rec) (ann : List Ann) (nv : Nat)
    (ha : annotate c (stableSort (strictLe c) recs) = .ok ann) (hv : nVols c recs = .ok nv)
    (hn : nUsedOf (nSlices recs) nv =
      ((ann.zip (stableSort (strictLe c) recs)).filter isFullEntry).length) :
    ∃ kept, assembled c recs = .ok kept ∧
      kept.Perm (((ann.zip (stableSort (strictLe c) recs)).filter isFullEntry).map (·.2)) := by
  rw [assembled_eq, strictOrder_recs]
  unfold strictRecs
  rw [ha, hv]
  refine ⟨_, rfl, ?_⟩
  rw [← List.map_take]
  exact (take_full_of_sorted _ _ hn).map _

example : ∃ ann nv, annotate exCfg (stableSort (strictLe exCfg) exTrunc) = .ok ann ∧
    nVols exCfg exTrunc = .ok nv ∧
    nUsedOf (nSlices exTrunc) nv =
      ((ann.zip (stableSort (strictLe exCfg) exTrunc)).filter isFullEntry).length :=
  ⟨_, _, rfl, rfl, by decide⟩

/-- three dynamics of two slices; the recording lost slice 2 of dynamic 2 and slice 1 of dynamic 3 -/
def exMulti : List Rec := [exRec 1 1 0 1 1 11, exRec 2 1 0 1 1 12, exRec 1 2 0 1 1 21, exRec 2 3 0 1 1 32]

/-- **Open finding, machine-checked on the model**: with two partial volumes that together cover
    both slice positions `_get_n_vols` reports 2 volumes although only one label set is complete, and
    the second "volume" is made of records of two different dynamics. -/
theorem truncated_multi_partial_overcount_witness :
    nVols ⟨.v42, false, 2, 1, 3, 1, 1⟩ exMulti = .ok 2 ∧
    (assembled ⟨.v42, false, 2, 1, 3, 1, 1⟩ exMulti).map (·.map (·.payload)) = .ok [11, 12, 21, 32] ∧
    -- hypothesis H0 of `truncated_exactly_full_volumes` fails: both slice positions occur in a partial set
    (∃ r ∈ exMulti, r.slice = 1 ∧ complete ⟨.v42, false, 2, 1, 3, 1, 1⟩ exMulti r = false) ∧
    (∃ r ∈ exMulti, r.slice = 2 ∧ complete ⟨.v42, false, 2, 1, 3, 1, 1⟩ exMulti r = false) := by
  decide

/-! ### 5. lax sorting preserves the file order -/

/-- **lax_order_preserving.**  For EVERY record list and every slice number `s`: under lax sorting
    the records with slice number `s` appear in the sort order in their file order, with their true
    positions (the volume index of a record is its occurrence number in the file) — stability of the
    sort (`sublist_stableSort`) + occurrence numbers increase along equal slice numbers
    (`occNumbers_lt`) + fullness is downward closed in the occurrence number. -/
theorem lax_order_preserving (c : Cfg) (recs : List Rec) (o : List (Nat × Rec))
    (h : laxOrder c recs = .ok o) (s : Int) :
    o.filter (fun p => p.2.slice == s) = (indexed recs).filter (fun p => p.2.slice == s) ∧
    (o.map (·.2)).filter (·.slice == s) = recs.filter (·.slice == s) := by
  have h1 := laxOrder_filter_slice c recs o h s
  refine ⟨h1, ?_⟩
  have hrecs : (indexed recs).map (·.2) = recs := indexedFrom_map_snd 0 recs
  calc (o.map (·.2)).filter (·.slice == s)
      = (o.filter (fun p => p.2.slice == s)).map (·.2) := by rw [List.filter_map]; rfl
    _ = ((indexed recs).filter (fun p => p.2.slice == s)).map (·.2) := by rw [h1]
    _ = ((indexed recs).map (·.2)).filter (·.slice == s) := by rw [List.filter_map]; rfl
    _ = recs.filter (·.slice == s) := by rw [hrecs]

example : ∃ o, laxOrder exCfg exFullShuffled = .ok o ∧ o.map (·.1) = [1, 0, 2, 3] := ⟨_, rfl, by decide⟩

/- Special case kept as its own statement: a recording whose lax keys (not full, occurrence number,
   slice number) are already non-decreasing — volume-major files with ascending slice numbers,
   complete or with a truncated tail, the case in which `_get_unscaled` reads straight from the REC
   file — is left exactly in file order: the index list is 0, 1, 2, … -/
/-- lax sorting of an already ordered file is the identity -/
theorem lax_identity_of_sorted_keys (c : Cfg) (recs : List Rec) (keys : List (Bool × Nat × Int))
    (hk : laxKeys c recs = .ok keys) (hs : keys.Pairwise (fun a b => laxLe a b = true))
    (hl : keys.length = recs.length) :
    laxOrder c recs = .ok (indexed recs) := by
  unfold laxOrder
  rw [hk]
  show Except.ok _ = Except.ok _
  congr 1
  have hz : (keys.zip (indexed recs)).Pairwise
      (fun a b : (Bool × Nat × Int) × Nat × Rec => laxLe a.1 b.1 = true) := by
    have : (keys.zip (indexed recs)).map (·.1) = keys := by
      rw [List.map_fst_zip]
      unfold indexed
      have := congrArg List.length (indexedFrom_map_snd 0 recs)
      simp only [List.length_map] at this
      omega
    rw [← this] at hs
    exact (List.pairwise_map.1 hs)
  rw [stableSort_of_pairwise hz, List.map_snd_zip]
  unfold indexed
  have := congrArg List.length (indexedFrom_map_snd 0 recs)
  simp only [List.length_map] at this
  omega

example : ∃ keys, laxKeys exCfg exTrunc = .ok keys ∧ keys.Pairwise (fun a b => laxLe a b = true) ∧
    keys.length = exTrunc.length := ⟨_, rfl, by decide, by decide⟩

/-! ### 6. the four call sites of `get_sorted_slice_indices` agree -/

/-- **loadSites_eq_load (refinement).**  `loadSites` follows the code call site by call site: the index
    list is recomputed by the proxy, by `get_data_scaling` (once on the header the proxy sees, once on
    the header the user sees), and by `get_volume_labels`; the user's header is the `copy()` made by
    `SpatialImage.__init__` (a new `PARRECHeader` built from the stored fields and flags, with its own
    truncation checks and shape); every site gathers COLUMNS of `image_defs` / the REC slabs BY POSITION.
    For every input the result is exactly that of the one-list specification `load` (the proxy's own
    scaling arrays being the header's) — so every theorem about `load` above is a theorem about the
    call-site model the driver runs. -/
theorem loadSites_eq_load (c : Cfg) (permit strict : Bool) (m : Scaling) (orig : Bool) (recs : List Rec) :
    loadSites c permit strict m orig recs =
      (load c permit strict m orig recs).map (fun o => ⟨o, o.slopes, o.inters⟩) :=
  loadSites_refines_load c permit strict m orig recs

/-- **call_sites_agree.**  In a successful call-site load there is ONE list of (true file position,
    record) pairs that explains all seven independently computed observables: the header's index list,
    the slabs gathered by the proxy, the proxy's scaling arrays, the header's scaling arrays, the volume
    labels, and the slabs sliced reads select from. -/
theorem call_sites_agree (c : Cfg) (permit strict orig : Bool) (m : Scaling) (recs : List Rec) (so : SitesOut)
    (h : loadSites c permit strict m orig recs = .ok so) :
    ∃ kept : List (Nat × Rec), (∀ p ∈ kept, recs[p.1]? = some p.2) ∧
      so.out.idx = kept.map (·.1) ∧ so.out.data = kept.map (·.2.payload) ∧
      so.pslopes = kept.map (slopeOf m ·.2) ∧ so.pinters = kept.map (interOf m ·.2) ∧
      so.out.slopes = kept.map (slopeOf m ·.2) ∧ so.out.inters = kept.map (interOf m ·.2) ∧
      so.out.labels = volumeLabels c recs (kept.map (·.2)) ∧ so.out.pdata = so.out.data := by
  rw [loadSites_refines_load] at h
  cases hl : load c permit strict m orig recs with
  | error e => rw [hl] at h; cases h
  | ok o =>
    rw [hl] at h
    injection h with h
    subst h
    obtain ⟨kept, hp, h1, h2, h3, h4, h5⟩ := same_indices_everywhere c permit strict orig m recs o hl
    exact ⟨kept, hp, h1, h2, h3, h4, h3, h4, h5, partial_read_eq_whole c permit strict orig m recs o hl⟩

example : ∃ so, loadSites exCfg false true .dv false exFullShuffled = .ok so ∧ so.out.idx = [1, 3, 2, 0] ∧
    so.out.data = [11, 12, 21, 22] ∧ so.pslopes = [2, 4, 6, 3] ∧ so.out.slopes = [2, 4, 6, 3] :=
  ⟨_, rfl, by decide, by decide, by decide, by decide⟩

/-- the header the user sees (`copy()` of the one the proxy saw) is an equal header and computes the
    same index list — because `copy()` passes the image definitions and BOTH flags on -/
theorem header_copy_same_indices (c : Cfg) (recs : List Rec) (permit strict orig : Bool) (h ih : Hdr)
    (h0 : Hdr.init c recs permit strict = .ok h) (h1 : h.copy = .ok ih) :
    ih = h ∧ ih.sortedIndices orig = h.sortedIndices orig := by
  unfold Hdr.init at h0
  cases ht : truncationChecks c permit recs with
  | error e => rw [ht] at h0; cases h0
  | ok u =>
    cases hv : nVols c recs with
    | error e => rw [ht, hv] at h0; cases h0
    | ok nv =>
      rw [ht, hv] at h0
      injection h0 with h0
      subst h0
      unfold Hdr.copy Hdr.init at h1
      simp only [ht, hv] at h1
      injection h1 with h1
      subst h1
      exact ⟨rfl, rfl⟩

example : ∃ h ih, Hdr.init exCfg exFullShuffled false true = .ok h ∧ h.copy = .ok ih := ⟨_, _, rfl, rfl⟩

/-- The agreement is not true by construction: on the shuffled file a header copy that forgot
    `strict_sort` (constructor default False) hands the user the lax index list — labels and scale
    factors for another order than the data the proxy assembled. -/
theorem copy_must_keep_strict_witness :
    ∃ h ih, Hdr.init exCfg exFullShuffled false true = .ok h ∧ h.copyForgetStrict = .ok ih ∧
      h.sortedIndices false = .ok [1, 3, 2, 0] ∧ ih.sortedIndices false = .ok [1, 0, 2, 3] :=
  ⟨_, _, rfl, rfl, by decide, by decide⟩

/-! ### 7. numeric meaning of the scale factors (under the guard the divisions need) -/

/-- `FP = DV / (RS * SS)` and `DV = PV * RS + RI` (docstring of `get_data_scaling`): for a record with
    `SS ≠ 0` and `RS ≠ 0` the fp factors `1/SS`, `RI/(RS*SS)` turn a stored value `pv` into the dv value
    divided by `RS*SS`.  The guard is necessary: the model's Rat division is totalised (`x / 0 = 0`),
    NumPy's is not (`fp_zero_scale_totalised_witness`); the driver refuses fp inputs with a zero factor. -/
theorem fp_scaling_formula (r : Rec) (hs : r.ss ≠ 0) (hr : r.rs ≠ 0) (pv : Rat) :
    slopeOf .fp r * (r.ss : Rat) = 1 ∧
    (pv * slopeOf .fp r + interOf .fp r) * ((r.rs : Rat) * (r.ss : Rat)) =
      pv * slopeOf .dv r + interOf .dv r := by
  have hs' : (r.ss : Rat) ≠ 0 := by exact_mod_cast hs
  have hr' : (r.rs : Rat) ≠ 0 := by exact_mod_cast hr
  simp only [slopeOf, interOf]
  constructor <;> grind

example : (exRec 1 1 3 2 5 11).ss ≠ 0 ∧ (exRec 1 1 3 2 5 11).rs ≠ 0 ∧
    slopeOf .fp (exRec 1 1 3 2 5 11) = 1 / 5 ∧ interOf .fp (exRec 1 1 3 2 5 11) = 3 / 10 := by decide +kernel

/-- without the guard the formula fails in the model (and NumPy yields inf/nan): `SS = 0` -/
theorem fp_zero_scale_totalised_witness :
    slopeOf .fp (exRec 1 1 3 2 0 11) = 0 ∧ slopeOf .fp (exRec 1 1 3 2 0 11) * ((exRec 1 1 3 2 0 11).ss : Rat) ≠ 1 := by
  decide +kernel

/-- **scaled_value_own_record.**  Output slice `k` of a successful call-site load is the slab of the
    record `r` at file position `idx[k]`, and the value the PROXY computes for a stored value of that
    slab with ITS OWN scaling arrays is the dv value `PV*RS + RI` of `r` (dv), resp. that value divided
    by `RS*SS` of `r` (fp, for `SS ≠ 0`, `RS ≠ 0`) — for every sort, order of records and header. -/
theorem scaled_value_own_record (c : Cfg) (permit strict orig : Bool) (m : Scaling) (recs : List Rec)
    (so : SitesOut) (h : loadSites c permit strict m orig recs = .ok so) (k : Nat) (hk : k < so.out.idx.length) :
    ∃ r sl it, recs[so.out.idx[k]]? = some r ∧ so.out.data[k]? = some r.payload ∧
      so.pslopes[k]? = some sl ∧ so.pinters[k]? = some it ∧
      so.out.slopes[k]? = some sl ∧ so.out.inters[k]? = some it ∧
      ∀ pv : Rat,
        (m = .dv → pv * sl + it = pv * (r.rs : Rat) + (r.ri : Rat)) ∧
        (m = .fp → r.ss ≠ 0 → r.rs ≠ 0 →
          (pv * sl + it) * ((r.rs : Rat) * (r.ss : Rat)) = pv * (r.rs : Rat) + (r.ri : Rat)) := by
  obtain ⟨kept, hpos, hi, hd, hps, hpi, hs, hn, _, _⟩ := call_sites_agree c permit strict orig m recs so h
  have hk' : k < kept.length := by simpa [hi] using hk
  refine ⟨kept[k].2, slopeOf m kept[k].2, interOf m kept[k].2, ?_, ?_, ?_, ?_, ?_, ?_, ?_⟩
  · have := hpos kept[k] (List.getElem_mem hk')
    simpa [hi] using this
  · simp [hd, hk']
  · simp [hps, hk']
  · simp [hpi, hk']
  · simp [hs, hk']
  · simp [hn, hk']
  · intro pv
    refine ⟨fun hm => by subst hm; rfl, fun hm h1 h2 => ?_⟩
    subst hm
    exact (fp_scaling_formula kept[k].2 h1 h2 pv).2

example : ∃ so, loadSites exCfg true true .fp false exTrunc = .ok so ∧ so.out.idx = [0, 1] ∧
    so.pslopes = [1 / 5, 1 / 3] := ⟨_, rfl, by decide, by decide +kernel⟩

/-! ### 8. tie to the source: translated function and tables read off parrec.py on every run -/

/-- **vol_numbers_translated_eq_model.**  `Gen.C20F.vol_numbers` is `vol_numbers` of the CURRENT
    nibabel/parrec.py translated statement by statement (harness/py2lean.py: the `counter` dict,
    `setdefault`, `append`, `counter[s_no] += 1` in the value semantics of Basic/PyVal).  On every list
    of ints it returns the model's occurrence numbers (loop invariant `GenV.Inv`: the dict holds exactly
    the counts of the slice numbers seen so far). -/
theorem vol_numbers_translated_eq_model (l : List Int) :
    Nb.Gen.C20F.vol_numbers (Nb.Py.V.ofList (l.map Nb.Py.V.int)) =
      .ok (Nb.Py.V.ofList ((volNumbers l).map (fun (k : Nat) => Nb.Py.V.int k))) :=
  GenV.vol_numbers_eq l

example : Nb.Gen.C20F.vol_numbers (Nb.Py.V.ofList ([1, 2, 1, 3, 1].map Nb.Py.V.int)) =
    .ok (Nb.Py.V.ofList ([0, 0, 1, 0, 2].map Nb.Py.V.int)) := by
  rw [vol_numbers_translated_eq_model]; decide

/-- **strictKey_from_source.**  The key tuple of the first `np.lexsort` of `_strict_sort_order`
    (`keys = (slice_nos, echos, phases) + diffusion_keys + asl_keys + (dynamics, image_type)`), the field
    behind every key variable and the field lists of the three PAR versions are read off the source on
    every run (`Generated/C20Funcs.lean`, namespace `Gen.C20T`); read from the LAST key to the first and
    looked up in a record they are the model's `strictKey`, for every header and record. -/
theorem strictKey_from_source (c : Cfg) (r : Rec) :
    (Src.strictKeyFields c).reverse.map (fun f => f.bind (Src.fieldVal · r)) = (strictKey c r).map some :=
  Src.strictKey_from_source c r

example : Src.strictKeyFields exCfg = [some "slice number", some "echo number", some "cardiac phase number",
    some "label type", some "dynamic scan number", some "image_type_mr"] := by decide

/-- the `diffusion_keys` alternative the model uses for a header is one of the three in the source -/
theorem diffusionKeys_from_source (c : Cfg) : Src.diffusionKeyVars c ∈ Nb.Gen.C20T.diffusionKeysAlts :=
  Src.diffusionKeyVars_in_source c

/-- **dynamicKeys_from_source.**  `dynamic_keys` of `get_volume_labels` (source order), restricted to the
    fields the PAR version has, is the model's key list, and every key reads the record field of that
    name. -/
theorem dynamicKeys_from_source (c : Cfg) (r : Rec) :
    (dynamicKeys c).map (fun kf => Src.longName kf.1) =
      Nb.Gen.C20T.dynamicKeysSrc.filter (· ∈ Src.fieldsOf c.version) ∧
    ∀ kf ∈ dynamicKeys c, Src.fieldVal (Src.longName kf.1) r = some (kf.2 r) :=
  ⟨Src.dynamicKeys_from_source c, Src.dynamicKeys_fields c r⟩

example : (dynamicKeys exCfg).map (·.1) = ["phase", "echo", "label", "itype", "dyn", "seq", "grad", "bval"] := by
  decide

/-- PIN (regenerated text compared with the text the model was written against): the key tuples of the
    second strict stage `lexsort((vol_nos, set_nos, logical_not(is_full)))` — `annLe`: not-full, then set,
    then volume number — and of the lax order `(slice_nos, vol_numbers(slice_nos), logical_not(is_full))`
    — `laxLe` —, the `asl_keys` expression, and the number of `diffusion_keys` alternatives. -/
theorem sort_stage_keys_from_source :
    Nb.Gen.C20T.stage2KeysSrc = ["vol_nos", "set_nos", "np.logical_not(is_full)"] ∧
    Nb.Gen.C20T.laxKeysSrc = ["slice_nos", "vol_numbers(slice_nos)", "np.logical_not(is_full)"] ∧
    Nb.Gen.C20T.aslKeysSrc = "(idefs['label type'],) if 'label type' in idefs.dtype.names else ()" ∧
    Nb.Gen.C20T.diffusionKeysAlts.length = 3 :=
  Src.sort_stage_keys_from_source

/-! ### 9. options survive every way a header is handed on (wave 3) -/

/-- **options_survive_header_chain.**  A header built by the constructor and then handed on through ANY
    sequence of `copy()` / `PARRECHeader.from_header` / `PARRECImage(…, header=h).header` is an EQUAL header
    object: same image definitions, same shape, same `permit_truncated`, same `strict_sort`; hence the same
    index list, scaling arrays (for every `scaling`) and volume labels, and a new proxy built on it
    (`PARRECArrayProxy(file, h, scaling=m)`) is the proxy of the original header. -/
theorem options_survive_header_chain (c : Cfg) (recs : List Rec) (permit strict : Bool) (h : Hdr)
    (h0 : Hdr.init c recs permit strict = .ok h) (ops : List HOp) :
    h.chain ops = .ok h ∧ h.permit = permit ∧ h.strict = strict ∧
    ∀ h', h.chain ops = .ok h' →
      h'.permit = permit ∧ h'.strict = strict ∧ h'.sortedIndices false = h.sortedIndices false ∧
      (∀ m, h'.dataScaling m false = h.dataScaling m false) ∧ h'.volumeLabels false = h.volumeLabels false := by
  have hc := chain_eq_self (init_copy h0) ops
  have hf : h.permit = permit ∧ h.strict = strict := by
    unfold Hdr.init at h0
    cases ht : truncationChecks c permit recs with
    | error e => rw [ht] at h0; cases h0
    | ok u =>
      cases hv : nVols c recs with
      | error e => rw [ht, hv] at h0; cases h0
      | ok nv =>
        rw [ht, hv] at h0
        injection h0 with h0
        subst h0
        exact ⟨rfl, rfl⟩
  refine ⟨hc, hf.1, hf.2, fun h' hh => ?_⟩
  rw [hc] at hh
  injection hh with hh
  subst hh
  exact ⟨hf.1, hf.2, rfl, fun _ => rfl, rfl⟩

example : ∃ h, Hdr.init exCfg exFullShuffled false true = .ok h ∧
    h.chain [.copy, .viaImage, .fromHeader] = .ok h ∧ h.strict = true := ⟨_, rfl, rfl, rfl⟩

/-- **loadChain_eq_loadSites.**  Loading, handing the header on through any `ops`, and observing everything
    (index list, slabs, header and proxy scaling arrays, labels, sliced reads) through the resulting header and
    a NEW proxy built on it gives exactly the observables of the load, for every input, option and `ops`. -/
theorem loadChain_eq_loadSites' (c : Cfg) (permit strict : Bool) (m : Scaling) (recs : List Rec) (ops : List HOp) :
    loadChain c permit strict m recs ops = loadSites c permit strict m false recs :=
  loadChain_eq_loadSites c permit strict m recs ops

example : ∃ so, loadChain exCfg false true .dv exFullShuffled [.copy, .copy, .viaImage] = .ok so ∧
    so.out.idx = [1, 3, 2, 0] ∧ so.pslopes = [2, 4, 6, 3] := ⟨_, rfl, by decide, by decide⟩

/-! ### 10. tie to the source: METHODS translated from parrec.py on every run (py2lean_c20) -/

/-- **strict_sort_keys_translated_eq_model.**  The statements of `_strict_sort_order` up to `keys = …`
    (translated from the working tree on every run: the `asl_keys` conditional on the field names, the
    if-nesting choosing among the three `diffusion_keys` alternatives incl. the `get_def` fallback to
    'diffusion_b_factor' — `get_def` itself translated —, the tuple concatenation), run on the encoded
    header of ANY records, return the columns `keyFuns`, and read from the LAST to the first at a record
    these are the model's `strictKey`. -/
theorem strict_sort_keys_translated_eq_model (c : Cfg) (recs : List Rec) (st : Bool) :
    PyHdr.H.strictKeys ⟨c, recs, st, (2, 3)⟩ =
      .ok (Nb.Py.V.ofList ((GenM.keyFuns c).map (NV.colOf · recs))) ∧
    ∀ r, (GenM.keyFuns c).reverse.map (· r) = strictKey c r :=
  ⟨GenM.strict_sort_keys_eq c recs st, GenM.keyFuns_strictKey c⟩

example : (GenM.keyFuns exCfg).length = 6 ∧ (GenM.keyFuns ⟨.v41, true, 2, 1, 1, 2, 2⟩).length = 7 := by decide

/-- **sorted_indices_translated_eq_model.**  `get_sorted_slice_indices` and `_calc_data_shape`, translated
    from the working tree on every run, compute `Hdr.sortedIndices` of the model: the order of the sort the
    header's `strict_sort` selects, cut to `prod(shape[2:])` = `n_slices * max(n_vols, 1)` entries — for every
    header object and whatever the two sort orders are. -/
theorem sorted_indices_translated_eq_model (h : Hdr) (x y : Int) (lo so : List (Nat × Rec))
    (hl : laxOrder h.cfg h.recs = .ok lo) (hs : strictOrder h.cfg h.recs = .ok so) :
    Nb.Gen.C20M.get_sorted_slice_indices (.bool h.strict) (.ok (NV.ofNats (lo.map (·.1))))
        (.ok (NV.ofNats (so.map (·.1))))
        (Nb.Gen.C20M.calc_data_shape (fun _ => .ok (.tup2 (.int x) (.int y))) (.ok (.int h.ns)) (.ok (.int h.nv))) =
      .ok (NV.ofNats (((if h.strict then so else lo).map (·.1)).take h.nUsed)) ∧
    h.sortedIndices false = .ok (((if h.strict then so else lo).map (·.1)).take h.nUsed) :=
  GenM.sorted_indices_eq_model h x y lo so hl hs

example : ∃ h lo so, Hdr.init exCfg exFullShuffled false true = .ok h ∧
    laxOrder h.cfg h.recs = .ok lo ∧ strictOrder h.cfg h.recs = .ok so := ⟨_, _, _, rfl, rfl, rfl⟩

/-- **calc_data_shape_translated_eq_model.**  The translated `_calc_data_shape` appends `n_vols` exactly
    when it exceeds 1 (`shapeTail`). -/
theorem calc_data_shape_translated_eq_model (x y : Int) (ns nv : Nat) :
    Nb.Gen.C20M.calc_data_shape (fun _ => .ok (.tup2 (.int x) (.int y))) (.ok (.int ns)) (.ok (.int nv)) =
      .ok (NV.ofInts ([x, y] ++ (shapeTail ns nv).map fun (k : Nat) => (k : Int))) := by
  rw [GenM.calc_data_shape_eq]
  unfold shapeTail
  by_cases h : nv > 1
  · have h' : (nv : Int) > 1 := by omega
    simp [h, h']
  · have h' : ¬ (nv : Int) > 1 := by omega
    simp [h, h']

example : shapeTail 3 1 = [3] ∧ shapeTail 3 2 = [3, 2] := by decide

/-- **n_slices_translated_eq_model.**  The translated `_get_n_slices` (`len(set(image_defs['slice number']))`)
    on the encoded header is the model's `nSlices`. -/
theorem n_slices_translated_eq_model (c : Cfg) (recs : List Rec) (st : Bool) :
    PyHdr.H.nSlices ⟨c, recs, st, (2, 3)⟩ = .ok (.int (nSlices recs : Nat)) :=
  GenM.get_n_slices_eq c recs st

example : PyHdr.H.nSlices ⟨exCfg, exFullShuffled, true, (2, 3)⟩ = .ok (.int 2) := by
  rw [n_slices_translated_eq_model]; decide

end Nb.C20
