"""py2lean_c13 — `harness/py2lean.py` extended with a notion of `self`, for the small METHODS of
`nibabel/dataobj_images.py` whose bodies are decision procedures over object attributes plus a few NumPy
primitives (`DataobjImage.get_fdata / get_data / uncache / in_memory / dataobj`).

The translation stays purely syntactic.  On top of the base fragment:

    Python                                     Lean (functions take `(P : NpPrims)` first; Basic/PyValC13.lean)
    -----------------------------------------  ----------------------------------------------------------------
    def m(self, a, b=…): …                     def m (P : NpPrims) (self_ : V) (a : V) (b : V) : M V
                                               `self_` is an ordinary (mutable) local holding a `V.dict` of attributes
    self.x                                     (← V.getItem self_ (V.str "x"))
    self.x = e                                 self_ := (← V.setItem self_ (V.str "x") ⟦e⟧)
    return e / return / falling off the end    return (V.tup2 ⟦e⟧ self_)   (result AND the object's new attributes)
    np.dtype(e)                                (← P.np_dtype ⟦e⟧)
    np.asanyarray(e) / (e, d) / (e, dtype=d)   (← P.np_asanyarray ⟦e⟧ V.none) / (← P.np_asanyarray ⟦e⟧ ⟦d⟧)
    isinstance(e, C) / issubclass(e, C)        (← P.isinstance ⟦e⟧ ⟦C⟧) / (← P.issubclass ⟦e⟧ ⟦C⟧)
    np.X  (a name of the numpy namespace)      (V.str "np.X")        (an opaque tag: a class / scalar type)
    e.attr  (e not `self`, not `np`)           (← P.getattr ⟦e⟧ (V.str "attr"))
    np.f(a, …) / f(a, …) for any other f       (← P.call (V.str "np.f") [⟦a⟧, …])
    o.m(a, …)  (o not `self`, not `np`)        (← P.call (V.str ".m") [⟦o⟧, ⟦a⟧, …])       (method of another object)
    a + b                                      (← PyC13.add ⟦a⟧ ⟦b⟧)       (ints, or concatenation of tuples / lists)
    (a, b, c, d, …)  (4 or more elements)      the list value  V.cons ⟦a⟧ (V.cons ⟦b⟧ …)
    1.0, 0.0  (float literal, integral)        (V.int 1), (V.int 0)      (the fragment has no floats; `1.0 == 1`)
    lo <= e <= hi  (e a name / len(name))      lo <= e and e <= hi
    t1, …, tn = e   (n >= 4)                   _u = tuple(e); if len(_u) != n: raise ValueError; t1 = _u[0]; …

`slice_statements` cuts a synthetic method out of a longer one (`ArrayProxy.__init__`): the top-level statements that
mention given seed names (`spec`, `par`) plus those that only re-assign the attributes these statements set.

The primitives are the TRUSTED part (what NumPy does); the model supplies them (`Model/C13_Py.lean`, `prims`)
and states their behaviour explicitly; the `gen` / `genst` streams of c13.py validate translator + primitives on
every run against the real methods on real images.  A `raise` after an attribute assignment is refused
(`Except` would lose the assignment).  Anything else outside the fragment raises `Untranslatable`.
"""
import ast
import copy

from py2lean import FnTranslator, Untranslatable, _Desugar, _WriteBack

SELF = 'self_'


class _SelfRewrite(ast.NodeTransformer):
    """`self.x` -> `self_['x']` (load and store), `return e` -> `return e, self_`; renames the first parameter."""

    def __init__(self, selfname):
        self.selfname = selfname

    def visit_Attribute(self, node):
        if isinstance(node.value, ast.Name) and node.value.id == self.selfname:
            return ast.copy_location(
                ast.Subscript(value=ast.Name(id=SELF, ctx=ast.Load()), slice=ast.Constant(value=node.attr),
                              ctx=node.ctx), node)
        self.generic_visit(node)
        return node

    def visit_Name(self, node):
        if node.id == self.selfname:
            # a bare `self` (passed on, compared, returned …) would leak the attribute dict as a value
            raise Untranslatable('`self` used as a value')
        return node

    def visit_Return(self, node):
        self.generic_visit(node)
        val = node.value if node.value is not None else ast.Constant(value=None)
        return ast.copy_location(
            ast.Return(value=ast.Tuple(elts=[val, ast.Name(id=SELF, ctx=ast.Load())], ctx=ast.Load())), node)

    def visit_FunctionDef(self, node):
        node.body = [self.visit(s) for s in node.body]
        return node

    def visit_Lambda(self, node):
        raise Untranslatable('lambda')


class _C13Desugar(ast.NodeTransformer):
    """chained comparison over a pure middle operand; unpacking into 4 or more targets"""

    def __init__(self):
        self.k = 0

    @staticmethod
    def _pure(e):
        return isinstance(e, (ast.Name, ast.Constant)) or (
            isinstance(e, ast.Call) and isinstance(e.func, ast.Name) and e.func.id == 'len' and len(e.args) == 1
            and isinstance(e.args[0], ast.Name) and not e.keywords)

    def visit_Compare(self, node):
        self.generic_visit(node)
        if len(node.ops) == 2 and self._pure(node.comparators[0]):
            a = ast.Compare(left=node.left, ops=[node.ops[0]], comparators=[node.comparators[0]])
            b = ast.Compare(left=copy.deepcopy(node.comparators[0]), ops=[node.ops[1]],
                            comparators=[node.comparators[1]])
            return ast.copy_location(ast.BoolOp(op=ast.And(), values=[a, b]), node)
        return node

    def visit_Assign(self, node):
        self.generic_visit(node)
        if len(node.targets) == 1 and isinstance(node.targets[0], ast.Tuple) and len(node.targets[0].elts) >= 4 \
                and not isinstance(node.value, ast.Tuple):
            self.k += 1
            u = f'_u{self.k}'
            n = len(node.targets[0].elts)
            out = [ast.Assign(targets=[ast.Name(id=u, ctx=ast.Store())],
                              value=ast.Call(func=ast.Name(id='tuple', ctx=ast.Load()), args=[node.value], keywords=[])),
                   ast.If(test=ast.Compare(left=ast.Call(func=ast.Name(id='len', ctx=ast.Load()),
                                                         args=[ast.Name(id=u, ctx=ast.Load())], keywords=[]),
                                           ops=[ast.NotEq()], comparators=[ast.Constant(value=n)]),
                          body=[ast.Raise(exc=ast.Call(func=ast.Name(id='ValueError', ctx=ast.Load()), args=[],
                                                       keywords=[]), cause=None)], orelse=[])]
            for i, t in enumerate(node.targets[0].elts):
                out.append(ast.Assign(targets=[t], value=ast.Subscript(value=ast.Name(id=u, ctx=ast.Load()),
                                                                        slice=ast.Constant(value=i), ctx=ast.Load())))
            return [ast.copy_location(x, node) for x in out]
        return node


def _check_raise_after_store(fn):
    """a `raise` that can run after `self.x = …` would lose the assignment in `Except`: refuse (source order is a
    safe over-approximation for loop-free bodies; bodies with loops are refused outright)"""
    first_store = None
    for node in ast.walk(fn):
        if isinstance(node, (ast.For, ast.While)):
            raise Untranslatable('loop in a method body')
        if isinstance(node, (ast.Assign, ast.AugAssign)):
            tg = node.targets if isinstance(node, ast.Assign) else [node.target]
            for t in tg:
                if isinstance(t, ast.Subscript) and isinstance(t.value, ast.Name) and t.value.id == SELF:
                    ln = node.lineno
                    first_store = ln if first_store is None else min(first_store, ln)
    if first_store is None:
        return
    for node in ast.walk(fn):
        if isinstance(node, ast.Raise) and node.lineno > first_store:
            raise Untranslatable('raise after an attribute assignment')


class MethodTranslator(FnTranslator):
    def __init__(self, fn_node):
        fn = copy.deepcopy(fn_node)
        a = fn.args
        if a.posonlyargs or not a.args:
            raise Untranslatable(f'{fn.name}: no self parameter')
        selfname = a.args[0].arg
        a.args[0].arg = SELF
        fn.decorator_list = []
        fn.returns = None
        for x in a.args:
            x.annotation = None
        fn = _SelfRewrite(selfname).visit(fn)
        last = fn.body[-1]
        if not isinstance(last, (ast.Return, ast.Raise)):
            fn.body.append(ast.Return(value=ast.Tuple(elts=[ast.Constant(value=None), ast.Name(id=SELF, ctx=ast.Load())],
                                                      ctx=ast.Load())))
        fn = ast.fix_missing_locations(_C13Desugar().visit(fn))
        fn = ast.fix_missing_locations(_Desugar().visit(fn))
        fn = ast.fix_missing_locations(_WriteBack().visit(fn))
        _check_raise_after_store(fn)
        super().__init__(fn, {}, consts=())
        if SELF not in self.locals:
            self.locals.insert(0, SELF)      # always `let mut self_ := self_` (uniform text)

    # ---------------------------------------------------------------- expressions
    def expr(self, e):
        if isinstance(e, ast.Attribute):
            if isinstance(e.value, ast.Name) and e.value.id == 'np':
                return f'(V.str "np.{e.attr}")'
            return f'(← P.getattr {self.expr(e.value)} (V.str "{e.attr}"))'
        if isinstance(e, ast.Subscript) and isinstance(e.value, ast.Name) and e.value.id == SELF \
                and isinstance(e.slice, ast.Constant) and isinstance(e.slice.value, str):
            return f'(← V.getItem {SELF} (V.str "{e.slice.value}"))'
        if isinstance(e, ast.JoinedStr):
            raise Untranslatable('f-string used as a value')
        if isinstance(e, ast.Constant) and isinstance(e.value, float):
            if e.value != int(e.value) or abs(e.value) >= 2 ** 53:
                raise Untranslatable(f'non-integral float constant {e.value!r}')
            return f'(V.int ({int(e.value)}))' if e.value < 0 else f'(V.int {int(e.value)})'
        if isinstance(e, ast.Tuple) and len(e.elts) >= 4:
            return self._vlist([self.expr(x) for x in e.elts])
        if isinstance(e, ast.BinOp) and isinstance(e.op, ast.Add):
            return f'(← PyC13.add {self.expr(e.left)} {self.expr(e.right)})'
        return super().expr(e)

    def _vlist(self, args):
        acc = 'V.nil'
        for x in reversed(args):
            acc = f'(V.cons {x} {acc})'
        return acc

    def call(self, e):
        f = e.func
        name = None
        if isinstance(f, ast.Attribute) and isinstance(f.value, ast.Name) and f.value.id == 'np':
            name = 'np.' + f.attr
        elif isinstance(f, ast.Name):
            name = f.id
        if name is None and isinstance(f, ast.Attribute) and not e.keywords \
                and not any(isinstance(a, ast.Starred) for a in e.args):
            # a method of an object other than `self` / `np`: the receiver is the first argument of the primitive
            return (f'(← P.call (V.str ".{f.attr}") '
                    f'{self._vlist([self.expr(f.value)] + [self.expr(a) for a in e.args])})')
        if name is None:
            raise Untranslatable('call of ' + ast.unparse(f)[:40])
        if any(isinstance(a, ast.Starred) for a in e.args) or any(k.arg is None for k in e.keywords):
            raise Untranslatable('star arguments')
        kw = {k.arg: k.value for k in e.keywords}
        if name == 'np.dtype' and len(e.args) == 1 and not kw:
            return f'(← P.np_dtype {self.expr(e.args[0])})'
        if name == 'np.asanyarray' and 1 <= len(e.args) <= 2 and set(kw) <= {'dtype'} \
                and not (len(e.args) == 2 and kw):
            d = e.args[1] if len(e.args) == 2 else kw.get('dtype')
            return f'(← P.np_asanyarray {self.expr(e.args[0])} {self.expr(d) if d is not None else "V.none"})'
        if name in ('isinstance', 'issubclass') and len(e.args) == 2 and not kw:
            return f'(← P.{name} {self.expr(e.args[0])} {self.expr(e.args[1])})'
        if kw:
            raise Untranslatable(f'keyword arguments in a call of {name}')
        if name in ('len', 'int', 'abs', 'min', 'max', 'tuple', 'list', 'slice', 'enumerate', 'getattr'):
            return super().call(e)
        return f'(← P.call (V.str "{name}") {self._vlist([self.expr(a) for a in e.args])})'

    def translate(self, lean_name=None, doc=None, default_values=None):
        text = super().translate(lean_name=lean_name, doc=doc)
        name = self.nm(lean_name or self.fn.name)
        head = f'def {name} '
        if text.count(head + '(') != 1:
            raise Untranslatable('unexpected shape of the translated definition')
        return text.replace(head + '(', head + '(P : NpPrims) (', 1)

    def default_terms(self):
        """[(parameter, Lean term of its default)] for parameters with a default"""
        out = []
        for p in self.params:
            if p in self.defaults:
                out.append((p, self.expr(self.defaults[p])))
        return out


def find_method(tree, cls, name):
    """the FunctionDef of `cls.name` in a parsed module (for a property: the getter)"""
    for node in tree.body:
        if isinstance(node, ast.ClassDef) and node.name == cls:
            for it in node.body:
                if isinstance(it, ast.FunctionDef) and it.name == name:
                    return it
    raise Untranslatable(f'{cls}.{name} not found')


def _names_and_attrs(node, selfname):
    names, attrs = set(), set()
    for n in ast.walk(node):
        if isinstance(n, ast.Attribute) and isinstance(n.value, ast.Name) and n.value.id == selfname:
            attrs.add(n.attr)
        elif isinstance(n, ast.Name):
            names.add(n.id)
    return names, attrs


def slice_statements(fn, seeds, keep_params, new_name):
    """a synthetic method `new_name(self, *keep_params)` made of the top-level statements of `fn` that mention one
    of the `seeds` names, plus the later statements that mention nothing but `self` attributes those statements
    assign (and `np`).  Purely syntactic; order preserved."""
    selfname = fn.args.args[0].arg
    chosen, attrs_set = [], set()
    for st in fn.body:
        if isinstance(st, ast.Expr) and isinstance(st.value, ast.Constant):
            continue
        names, attrs = _names_and_attrs(st, selfname)
        if names & set(seeds):
            chosen.append(st)
            for n in ast.walk(st):
                if isinstance(n, ast.Attribute) and isinstance(n.ctx, ast.Store) and isinstance(n.value, ast.Name) \
                        and n.value.id == selfname:
                    attrs_set.add(n.attr)
        elif chosen and attrs and attrs <= attrs_set and names <= {selfname, 'np'}:
            chosen.append(st)
    if not chosen:
        raise Untranslatable(f'{fn.name}: no statement mentions {sorted(seeds)}')
    new = ast.FunctionDef(name=new_name,
                          args=ast.arguments(posonlyargs=[], args=[ast.arg(arg=selfname)] +
                                             [ast.arg(arg=p) for p in keep_params], vararg=None, kwonlyargs=[],
                                             kw_defaults=[], kwarg=None, defaults=[]),
                          body=[copy.deepcopy(s) for s in chosen], decorator_list=[], returns=None, type_params=[])
    return ast.fix_missing_locations(ast.copy_location(new, fn))


def translate_methods(entries, namespace, header):
    """entries: list of (display name, lean name, expected extra parameter names, thunk returning the FunctionDef).
    Returns (text of a Lean file, {display name: reason} for the functions outside the fragment).  A function that
    cannot be translated (or is missing) still gets a definition of the expected arity — one that raises
    `Err.unsupported` — so that the model and the driver keep building: its equality proof then fails and the `gen`
    streams report `gen-failed`."""
    out = ['import NibabelModel.Basic.PyValC13', header, 'set_option linter.unusedVariables false',
           f'namespace {namespace}', 'open Nb.Py', '']
    failed = {}
    for disp, ln, extra, thunk in entries:
        try:
            fn = thunk()
            tr = MethodTranslator(fn)
            if tr.params[1:] != list(extra):
                raise Untranslatable(f'parameters {tr.params[1:]} instead of {list(extra)}')
            sig = f'def {fn.name}({", ".join(a.arg for a in fn.args.args)})'
            body = [tr.translate(lean_name=ln, doc=f'translated from `{disp}`: `{sig}`'), '']
            for p, term in tr.default_terms():
                if '←' in term:
                    raise Untranslatable(f'default of {disp}.{p} is not a constant')
                body += [f'/-- default of `{disp}(…, {p}=…)` -/', f'def {ln}_default_{p} : V := {term}', '']
            out += body
        except Untranslatable as e:
            failed[disp] = str(e)
            msg = str(e).replace('-/', '- /')
            args = ''.join(f' ({a} : V)' for a in extra)
            out += [f'/-- `{disp}` of the current source is OUTSIDE the translated fragment: {msg} -/',
                    f'def {ln} (P : NpPrims) ({SELF} : V){args} : M V := throw Err.unsupported', '']
    out.append(f'end {namespace}')
    out.append('')
    return '\n'.join(out), failed
