"""Shared machinery of the nibabel verification checks (see /verif/DESIGN.md §2).

A property module (harness/props/cXX.py) provides

    PID, LEAN_TARGETS, THEOREMS, ASSUMPTIONS, RULE
    cases(rng, tier)            -> iterable of Case
    impl(case)                  -> str   canonical observable of the real code (`ERR:<Class>` for errors)
    oracle(case, impl_out)      -> None | str   the property stated directly on the implementation
    signature(case, what)       -> str   classifier used to match known findings
    regen()                     -> list[str] (optional) regenerate Generated/*.lean from /repo; returns
                                   names of generated obligations
    shrink_candidates(case)     -> iterable of smaller Case (optional)

and `run_property` does: regenerate -> lake build -> audit -> corpus + generated cases through the
implementation, the Lean driver and the oracle -> decide -> evidence.
"""
import fcntl
import hashlib
import importlib
import json
import os
import random
import re
import subprocess
import sys
import time
import traceback

VERIF = os.path.dirname(os.path.dirname(os.path.abspath(__file__)))
REPO = os.environ.get('NIBABEL_REPO', '/repo')
LEAN = os.path.join(VERIF, 'lean')
def driver_path(pid):
    return os.path.join(LEAN, '.lake', 'build', 'bin', 'nbd_' + pid.lower())


ALLOWED_AXIOMS = {'propext', 'Classical.choice', 'Quot.sound'}
FORBIDDEN = re.compile(r'\bsorry\b|\badmit\b|^axiom\s|native_decide|bv_decide|implemented_by|\bunsafe\s|maxHeartbeats\s+0')

if REPO not in sys.path:
    sys.path.insert(0, REPO)
os.environ.setdefault('NIBABEL_VERIF', '1')


class Case:
    """One generated case.  `line` is the protocol line for the Lean driver (None = oracle only),
    `data` the JSON-able description used for replay, `key` a hashable identifying the case for
    the distinct/non-trivial count (None = trivial)."""
    __slots__ = ('line', 'data', 'key', 'stream', 'extra')

    def __init__(self, line, data, key=None, stream='main', extra=None):
        self.line, self.data, self.key, self.stream, self.extra = line, data, key, stream, extra


def errname(e):
    return 'ERR:' + type(e).__name__


def sh(cmd, cwd=None, timeout=None, inp=None):
    r = subprocess.run(cmd, cwd=cwd, stdout=subprocess.PIPE, stderr=subprocess.STDOUT, text=True,
                       timeout=timeout, input=inp)
    return r.returncode, '\n'.join(l for l in r.stdout.splitlines() if 'conda' not in l or 'WARNING' not in l)


class BuildLock:
    def __enter__(self):
        os.makedirs(os.path.join(LEAN, '.lake'), exist_ok=True)
        self.f = open(os.path.join(LEAN, '.lake', 'verif.lock'), 'w')
        fcntl.flock(self.f, fcntl.LOCK_EX)
        return self

    def __exit__(self, *a):
        fcntl.flock(self.f, fcntl.LOCK_UN)
        self.f.close()


def write_if_changed(path, content):
    try:
        if open(path).read() == content:
            return False
    except FileNotFoundError:
        pass
    tmp = path + '.tmp%d' % os.getpid()
    with open(tmp, 'w') as f:
        f.write(content)
    os.replace(tmp, path)
    return True


def lean_build(targets, timeout=1500):
    """lake build the given module targets plus the driver.  Returns (ok, log)."""
    rc, out = sh(['lake', 'build'] + list(targets), cwd=LEAN, timeout=timeout)
    return rc == 0, out


def build_driver(pid, timeout=1500):
    rc, out = sh(['lake', 'build', 'nbd_' + pid.lower()], cwd=LEAN, timeout=timeout)
    return rc == 0 and os.path.exists(driver_path(pid)), out


def strip_comments(src):
    # remove /- ... -/ (nested not handled beyond one level, good enough for a token grep) and -- ...
    src = re.sub(r'/-.*?-/', '', src, flags=re.S)
    src = re.sub(r'--.*', '', src)
    return src


def lean_closure(targets, pid=None):
    """Lean source files (relative to lean/) reachable through `import NibabelModel.* / Driver.*`
    from the given module targets (plus the property's driver)."""
    todo = list(targets) + (['Driver.' + pid] if pid else [])
    seen = []
    while todo:
        m = todo.pop()
        rel = m.replace('.', '/') + '.lean'
        path = os.path.join(LEAN, rel)
        if rel in seen or not os.path.exists(path):
            continue
        seen.append(rel)
        for mm in re.findall(r'^\s*import\s+((?:NibabelModel|Driver)[\w.]*)', strip_comments(open(path).read()), flags=re.M):
            todo.append(mm)
    return sorted(seen)


def forbidden_tokens(targets, pid=None):
    hits = []
    for rel in lean_closure(targets, pid):
        for l in strip_comments(open(os.path.join(LEAN, rel)).read()).splitlines():
            if FORBIDDEN.search(l):
                hits.append(f'{rel}: {l.strip()[:80]}')
    return hits


def audit_axioms(imports, theorems, timeout=900):
    """`#print axioms` for every theorem; returns ({name: [axioms]}, missing, log)."""
    src = ''.join(f'import {m}\n' for m in imports) + ''.join(f'#print axioms {t}\n' for t in theorems)
    path = os.path.join(LEAN, '.lake', 'audit_%d.lean' % os.getpid())
    with open(path, 'w') as f:
        f.write(src)
    try:
        rc, out = sh(['lake', 'env', 'lean', path], cwd=LEAN, timeout=timeout)
    finally:
        os.unlink(path)
    res = {}
    flat = re.sub(r'\s+', ' ', out)
    for t in theorems:
        short = t
        m = re.search(r"'" + re.escape(short) + r"' depends on axioms: \[([^\]]*)\]", flat)
        if m:
            res[t] = [a.strip() for a in m.group(1).split(',') if a.strip()]
        elif re.search(r"'" + re.escape(short) + r"' does not depend on any axioms", flat):
            res[t] = []
    missing = [t for t in theorems if t not in res]
    return res, missing, out


def run_driver(lines, timeout=1200, pid=None):
    """Feed protocol lines to the compiled Lean driver; returns list of output lines."""
    if not lines:
        return []
    pid = pid or lines[0].split(' ', 1)[0]
    r = subprocess.run([driver_path(pid)], input='\n'.join(lines) + '\n', stdout=subprocess.PIPE,
                       stderr=subprocess.PIPE, text=True, timeout=timeout)
    out = r.stdout.split('\n')
    if out and out[-1] == '':
        out.pop()
    if r.returncode != 0 or len(out) != len(lines):
        raise RuntimeError(f'driver failed rc={r.returncode} lines_in={len(lines)} lines_out={len(out)} '
                           f'stderr={r.stderr[:400]}')
    return out


def load_findings(pid):
    p = os.path.join(VERIF, 'known_findings.json')
    if not os.path.exists(p):
        return []
    return [e for e in json.load(open(p))['findings'] if e['property'] == pid]


# --------------------------------------------------------------------------------------------------
# source pins (DESIGN.md §2.2): normalised-AST hashes of every non-test nibabel source file, recorded
# from the tree the hand-written models were written against (harness/pins.json, tools/update_pins.py).
# A changed hash is NOT an alarm: it is recorded in the evidence (`model_source_changed`) and makes the
# quick tier spend a bounded extra budget on further generator seeds (the correspondence is what ties
# a hand-written model to the code, so changed code gets more of it).
# --------------------------------------------------------------------------------------------------
import ast as _ast


def _strip_docstrings(tree):
    for node in _ast.walk(tree):
        if isinstance(node, (_ast.Module, _ast.ClassDef, _ast.FunctionDef, _ast.AsyncFunctionDef)):
            b = node.body
            if b and isinstance(b[0], _ast.Expr) and isinstance(b[0].value, _ast.Constant) \
                    and isinstance(b[0].value.value, str):
                node.body = b[1:] or [_ast.Pass()]
    return tree


def source_hash(path):
    try:
        src = open(path, encoding='utf-8').read()
        return hashlib.sha256(_ast.dump(_strip_docstrings(_ast.parse(src)), annotate_fields=False,
                                        include_attributes=False).encode()).hexdigest()[:20]
    except (OSError, SyntaxError, ValueError):
        return 'unreadable'


def pinned_source_files(repo=None):
    repo = repo or REPO
    out = []
    base = os.path.join(repo, 'nibabel')
    for root, dirs, files in os.walk(base):
        dirs[:] = [d for d in dirs if d not in ('tests', 'benchmarks', '__pycache__', 'data')]
        for fn in files:
            if fn.endswith('.py') and fn != '_version.py':
                out.append(os.path.relpath(os.path.join(root, fn), repo))
    return sorted(out)


def changed_sources():
    """relative paths of nibabel source files whose normalised AST differs from harness/pins.json"""
    p = os.path.join(VERIF, 'harness', 'pins.json')
    if not os.path.exists(p):
        return []
    pins = json.load(open(p))['files']
    cur = {f: source_hash(os.path.join(REPO, f)) for f in pinned_source_files()}
    return sorted(f for f in set(pins) | set(cur) if pins.get(f) != cur.get(f))


def load_corpus(pid):
    d = os.path.join(VERIF, 'corpus', pid)
    out = []
    if os.path.isdir(d):
        for fn in sorted(os.listdir(d)):
            if fn.endswith('.json'):
                out.append(json.load(open(os.path.join(d, fn))))
    return out


def write_replay(pid, kind, seed, tier, case_data, what, theorem_or_stream=None, signature=None,
                 got_impl=None, got_model=None):
    os.makedirs(os.path.join(VERIF, 'replay'), exist_ok=True)
    body = {'property': pid, 'kind': kind, 'seed': seed, 'tier': tier, 'input': case_data, 'what': what,
            'got_impl': got_impl, 'got_model': got_model, 'theorem_or_stream': theorem_or_stream,
            'signature': signature}
    h = hashlib.sha1(json.dumps(body, sort_keys=True, default=str).encode()).hexdigest()[:10]
    rel = f'replay/{pid}-{h}.json'
    body['replay_cmd'] = f'./check {pid} --replay {rel}'
    with open(os.path.join(VERIF, rel), 'w') as f:
        json.dump(body, f, indent=1, default=str)
    return rel


def safe_impl(mod, case):
    try:
        return mod.impl(case)
    except Exception as e:  # an escaping exception is an observable too
        return errname(e)


def safe_oracle(mod, case, out):
    try:
        return mod.oracle(case, out)
    except Exception as e:
        return 'oracle raised ' + repr(e) + ' ' + traceback.format_exc()[-300:]


def shrink(mod, case, fails):
    """Greedy shrinking using the module's candidate generator."""
    gen = getattr(mod, 'shrink_candidates', None)
    if gen is None:
        return case
    budget = 300
    improved = True
    while improved and budget > 0:
        improved = False
        for c in gen(case):
            budget -= 1
            if budget <= 0:
                break
            try:
                if fails(c):
                    case, improved = c, True
                    break
            except Exception:
                continue
    return case


def run_property(modname, tier, seed, replay=None):
    """Entry point.  A run against another tree (`NIBABEL_REPO=<worktree>`, used for seeded changes and hand-made
    mutations) regenerates `Generated/<PID>*.lean` from THAT tree; the files of /repo are put back afterwards so that the
    shared lake workspace never keeps (and nobody commits) obligations generated from a modified tree."""
    if REPO == '/repo' or replay:
        return _run_property(modname, tier, seed, replay)
    import glob
    pid = modname.upper()
    gdir = os.path.join(LEAN, 'NibabelModel', 'Generated')
    before = {f: open(f).read() for f in glob.glob(os.path.join(gdir, pid + '*.lean'))}
    try:
        return _run_property(modname, tier, seed, replay)
    finally:
        with BuildLock():
            for f in glob.glob(os.path.join(gdir, pid + '*.lean')):
                if f not in before:
                    os.remove(f)
            for f, content in before.items():
                write_if_changed(f, content)


def _run_property(modname, tier, seed, replay=None):
    t0 = time.time()
    mod = importlib.import_module('props.' + modname.lower())
    pid = mod.PID
    rng = random.Random(seed * 1000003 + int(pid[1:]))
    findings = load_findings(pid)
    open_findings = [e for e in findings if e['status'] == 'open']
    for e in getattr(mod, 'PENDING_FINDINGS', []):      # same entries as known_findings.json (tools/sync_findings.py)
        if not any(o['signature'] == e['signature'] for o in open_findings):
            open_findings.append(e)
    lines_out = []

    def say(s):
        print(s, flush=True)
        lines_out.append(s)

    if replay:
        body = json.load(open(os.path.join(VERIF, replay) if not os.path.isabs(replay) else replay))
        data = body.get('input')
        if data is None and body.get('kind') == 'correspondence-broken':
            try:                      # the disagreeing case is recorded in `what` as JSON
                data = json.loads(body.get('what') or '{}').get('case')
            except ValueError:
                data = None
        if data is None:
            # a broken proof obligation (or a truncated record): nothing to execute; re-state what no longer checks
            say(f'replay {replay}: kind={body.get("kind")} names {body.get("theorem_or_stream")}: '
                f'{str(body.get("what"))[:600]}')
            say('re-run the check itself to see whether the obligation still fails: ./check ' + pid)
            return 1
        case = mod.case_from_data(data)
        out = safe_impl(mod, case)
        bad = safe_oracle(mod, case, out)
        msg = f'replay {replay}: impl={out[:200]} oracle={"FAIL: " + str(bad)[:300] if bad else "ok"}'
        if body.get('kind') == 'correspondence-broken' and case.line is not None and os.path.exists(driver_path(pid)):
            try:
                mo = run_driver([case.line], pid=pid)[0]
                msg += f' model={mo[:200]} ' + ('AGREE' if mo == out else 'DISAGREE')
                bad = bad or (mo != out)
            except Exception as e:
                msg += f' model-error={e!r}'
        say(msg)
        return 1 if bad else 0

    # ---------------------------------------------------------------- proofs
    broken = []          # (kind, name, detail)
    gen_obl = []
    with BuildLock():
        if hasattr(mod, 'regen'):
            try:
                gen_obl = list(mod.regen())
            except Exception as e:
                broken.append(('proof-broken', 'Generated(' + pid + ')', 'regeneration failed: ' + repr(e)))
        ok, log = lean_build(mod.LEAN_TARGETS)
        if not ok:
            errs = [l for l in log.splitlines() if l.startswith('error:')]
            broken.append(('proof-broken', 'lake build ' + ' '.join(mod.LEAN_TARGETS),
                           '\n'.join(errs[:12]) or log[-1500:]))
        dok, dlog = build_driver(pid)
    axioms, missing = {}, []
    if ok:
        axioms, missing, alog = audit_axioms(mod.LEAN_TARGETS, mod.THEOREMS)
        for t in missing:
            broken.append(('proof-broken', t, 'theorem missing from build'))
        for t, ax in axioms.items():
            extra = set(ax) - ALLOWED_AXIOMS
            if extra:
                broken.append(('proof-broken', t, 'uses axioms ' + ','.join(sorted(extra))))
    # thorough tier: the toolchain's independent re-checker replays the compiled proofs of the property's
    # modules (and everything they import) through the kernel
    leanchecker = None
    if ok and tier == 'thorough':
        try:
            rc_, out_ = sh(['lake', 'env', 'leanchecker'] + list(mod.LEAN_TARGETS), cwd=LEAN, timeout=1500)
            leanchecker = {'rc': rc_, 'tail': out_.strip().splitlines()[-3:]}
            if rc_ != 0:
                broken.append(('proof-broken', 'leanchecker ' + ' '.join(mod.LEAN_TARGETS), out_[-1200:]))
        except subprocess.TimeoutExpired:
            leanchecker = {'rc': None, 'tail': ['timeout (not counted as a failure)']}
    tokens = forbidden_tokens(mod.LEAN_TARGETS, pid)
    for h in tokens:
        broken.append(('proof-broken', 'forbidden-token', h))
    obligations = len(mod.THEOREMS) + len(gen_obl)
    discharged = sum(1 for t in mod.THEOREMS if t in axioms and not (set(axioms[t]) - ALLOWED_AXIOMS))
    discharged += len(gen_obl) if ok else 0

    # ------------------------------------------------- correspondence + oracle
    def explore(tier_):
        cs = [mod.case_from_data(d) for d in load_corpus(pid)]
        for e in findings:
            if e.get('input') is not None and e['status'] == 'fixed':
                cs.append(mod.case_from_data(e['input']))
        cs.extend(mod.cases(rng, tier_))
        return cs

    stats = {'streams': {}, 'errors': {}}
    viol = []           # (case, what, sig)
    disagreements = []  # (case, impl_out, model_out)
    known_hits = {}
    cases = explore(tier)
    impl_outs = [safe_impl(mod, c) for c in cases]
    # source changed since the models were written -> bounded extra exploration (further quick seeds)
    changed = changed_sources()
    escalated = 0
    budget = float(os.environ.get('VERIF_ESCALATE_BUDGET', '120'))
    if changed and tier == 'quick' and budget > 0:
        t_esc = time.time()
        seen = {(c.line, json.dumps(c.data, sort_keys=True, default=str)) for c in cases}
        for k in range(1, 9):
            if time.time() - t_esc > budget:
                break
            for c in mod.cases(random.Random((seed + 1) * 7919 + 104729 * k + int(pid[1:])), 'quick'):
                if time.time() - t_esc > budget:
                    break
                ident = (c.line, json.dumps(c.data, sort_keys=True, default=str))
                if ident in seen:
                    continue
                seen.add(ident)
                cases.append(c)
                impl_outs.append(safe_impl(mod, c))
                escalated += 1
    with_line = [i for i, c in enumerate(cases) if c.line is not None]
    model_outs = {}
    if dok:
        try:
            mo = run_driver([cases[i].line for i in with_line])
            model_outs = dict(zip(with_line, mo))
        except Exception as e:
            broken.append(('correspondence-broken', 'driver', repr(e)[:500]))
    else:
        broken.append(('correspondence-broken', 'driver-build', dlog[-800:]))
    keys = set()
    for i, c in enumerate(cases):
        st = stats['streams'].setdefault(c.stream, 0)
        stats['streams'][c.stream] = st + 1
        o = impl_outs[i]
        if o.startswith('ERR:'):
            stats['errors'][o] = stats['errors'].get(o, 0) + 1
        if c.key is not None:
            keys.add(c.key)
        if i in model_outs and model_outs[i] != o:
            disagreements.append((c, o, model_outs[i]))
        bad = safe_oracle(mod, c, o)
        if bad:
            viol.append((c, bad, mod.signature(c, bad)))

    def report_violation(c, what, sig):
        def fails(cc):
            return bool(safe_oracle(mod, cc, safe_impl(mod, cc)))
        c2 = shrink(mod, c, fails)
        o2 = safe_impl(mod, c2)
        what2 = safe_oracle(mod, c2, o2) or what
        sig2 = mod.signature(c2, what2)
        for e in open_findings:
            if e['signature'] == sig2:
                known_hits.setdefault(sig2, (e, c2, what2))
                return False
        rel = write_replay(pid, 'oracle-failure', seed, tier, c2.data, what2, signature=sig2, got_impl=o2)
        say(f'VIOLATION property={pid} replay={rel}')
        return True

    nviol = 0
    seen_sigs = set()
    viol.sort(key=lambda v: len(json.dumps(v[0].data, default=str)))   # smallest failing case per signature first
    for c, what, sig in viol:
        if sig in seen_sigs:
            continue
        seen_sigs.add(sig)
        if report_violation(c, what, sig):
            nviol += 1
    # stored inputs of open findings are replayed on every run
    for e in open_findings:
        if e.get('input') is not None and e['signature'] not in known_hits:
            c = mod.case_from_data(e['input'])
            o = safe_impl(mod, c)
            bad = safe_oracle(mod, c, o)
            if bad:
                known_hits[e['signature']] = (e, c, bad)
            else:
                stats.setdefault('open_findings_no_longer_failing', []).append(e['signature'])
    for sig, (e, c, what) in known_hits.items():
        say(f'KNOWN-FINDING: property={pid} {e["what"]}')

    if disagreements:
        c, o, m = disagreements[0]

        def dis(cc):
            if cc.line is None:
                return False
            return run_driver([cc.line])[0] != safe_impl(mod, cc)
        c = shrink(mod, c, dis)
        o = safe_impl(mod, c)
        m = run_driver([c.line])[0] if dok else None
        broken.append(('correspondence-broken', f'corr:{pid}/{c.stream}',
                       json.dumps({'case': c.data, 'impl': o, 'model': m}, default=str)[:1500], c.data))

    if broken and nviol == 0:
        # a broken proof/correspondence is not by itself a violation: search for a failing input
        found = False
        cand = [d[0] for d in disagreements] + list(mod.cases(random.Random(seed + 7919), 'search'))
        for c in cand:
            o = safe_impl(mod, c)
            bad = safe_oracle(mod, c, o)
            if bad:
                sig = mod.signature(c, bad)
                if any(e['signature'] == sig for e in open_findings):
                    continue
                if report_violation(c, bad + ' [found by search after ' + broken[0][0] + ' ' + broken[0][1] + ']', sig):
                    nviol += 1
                    found = True
                    break
        if not found:
            kind, name, detail = broken[0][:3]
            bdata = broken[0][3] if len(broken[0]) > 3 else None
            rel = write_replay(pid, kind, seed, tier, bdata, detail, theorem_or_stream=name)
            say(f'VIOLATION property={pid} replay={rel} no-failing-input-found')
            nviol += 1

    wall = time.time() - t0
    samples = [c.data for c in cases[:3]] + [c.data for c in cases[-2:]]
    ev = {
        'property_id': pid, 'tier': tier, 'seed': seed, 'level': 'proof',
        'coverage': {
            'obligations': obligations, 'discharged': discharged,
            'checker_cmd': 'cd lean && lake build ' + ' '.join(mod.LEAN_TARGETS) +
                           ' && lake env lean <#print axioms of every theorem>',
            'trusted_base': ['Lean 4.33.0 kernel'] +
                            [f'{t}: axioms {sorted(a)}' for t, a in sorted(axioms.items())] +
                            list(getattr(mod, 'ASSUMPTIONS', [])),
            'theorems': list(mod.THEOREMS), 'generated_obligations': gen_obl,
            'evaluations': len(cases), 'distinct_nontrivial': len(keys), 'rule': mod.RULE,
            'traces_validated_against_impl': len(model_outs),
            'correspondence_disagreements': len(disagreements),
            'input_distribution': stats, 'samples': samples,
            'broken': [list(b[:3]) for b in broken],
            'model_source_changed': changed, 'escalated_cases': escalated, 'leanchecker': leanchecker,
            'known_findings_hit': sorted(known_hits),
        },
        'assumptions': list(getattr(mod, 'ASSUMPTIONS', [])),
        'wall_s': round(wall, 2), 'violations': nviol,
    }
    # evidence/<id>.json describes runs against /repo itself; a run against another tree (seeded change, mutation)
    # leaves it alone and writes next to the replay files instead
    evdir = os.path.join(VERIF, 'evidence') if REPO == '/repo' else os.path.join(VERIF, 'replay', 'evidence_other_tree')
    os.makedirs(evdir, exist_ok=True)
    with open(os.path.join(evdir, pid + '.json'), 'w') as f:
        json.dump(ev, f, indent=1, default=str)
    say(f'{pid} {tier} seed={seed}: theorems {discharged}/{obligations}, cases {len(cases)} '
        f'(model-compared {len(model_outs)}, distinct non-trivial {len(keys)}), disagreements '
        f'{len(disagreements)}, violations {nviol}, known {len(known_hits)}, {wall:.1f}s')
    return 1 if nviol else 0
