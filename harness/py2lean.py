"""py2lean — a purely syntactic translator from a small, side-effect-free fragment of Python to Lean 4.

Every run of a check that uses it re-reads the CURRENT source of the named nibabel functions
(`inspect.getsource` of the working tree), and writes one Lean `def` per function into a
`Generated/*Funcs.lean` file, in the `Except Err` monad over the value universe of
`lean/NibabelModel/Basic/PyVal.lean` (which is the semantics of the fragment: one Lean definition per
Python operator / builtin).  Lean `do`-notation mirrors the Python control flow one statement at a
time, so the translator has no knowledge of what the code is supposed to compute:

    Python                                   Lean
    ---------------------------------------  ------------------------------------------------------
    x = e ; x += e ; a = b = e                x := ⟦e⟧                       (all locals are `let mut`)
    a, b, c = e                               let (t1,t2,t3) ← V.unpack3 ⟦e⟧; a := t1; …
    a, b = e1, e2                             let t1 := ⟦e1⟧; let t2 := ⟦e2⟧; a := t1; b := t2
    if c: … elif d: … else: …                 if (← V.truthy ⟦c⟧) then … else if … else …
    return e / return a, b                    return ⟦e⟧ / return V.tup2 ⟦a⟧ ⟦b⟧
    raise ValueError(…)                       throw Err.valueError
    try: x = int(y) except TypeError: A else: B
                                              match V.toInt y with | .error .typeError => A | .error e => throw e | .ok t => x := t; B
    a + b, a - b, a * b, a / b, a // b, a % b V.add … V.mod          -a, abs(a), int(a), np.ceil(a), min, max
    a < b, <=, >, >=, ==, !=                  V.lt … V.ne           `is None`, `is not None`, `not`
    a and b, a or b (boolean context)         short-circuit `do if (← V.truthy ⟦a⟧) then … else …`
    x in (p, q, r), x not in (p, q)           disjunction / conjunction of V.eq / V.ne
    e1 if c else e2                           (← do if (← V.truthy ⟦c⟧) then pure ⟦e1⟧ else pure ⟦e2⟧)
    s.start, s.stop, s.step                   V.attr "start" s …
    s.indices(n)                              V.sliceIndices s n
    slice(a), slice(a, b), slice(a, b, c)     V.slice …
    isinstance(x, Integral)                   V.isIntegral x
    f(a, b) for f in the translated set       f a b                 (monadic call)
    h(a, b, c) for a parameter h              h a b c               (h : V → V → V → M V)
    None, True, False, 12, 'full'             V.none, V.bool …, V.int 12, V.str "full"

Anything else raises `Untranslatable` (the check then treats the proof obligation as broken and
searches for a failing input; see DESIGN.md §2.2).
"""
import ast
import inspect
import textwrap


class Untranslatable(Exception):
    pass


_BIN = {ast.Add: 'V.add', ast.Sub: 'V.sub', ast.Mult: 'V.mul', ast.Div: 'V.truediv',
        ast.FloorDiv: 'V.floordiv', ast.Mod: 'V.mod'}
_CMP = {ast.Lt: 'V.lt', ast.LtE: 'V.le', ast.Gt: 'V.gt', ast.GtE: 'V.ge', ast.Eq: 'V.eq', ast.NotEq: 'V.ne'}
_EXC = {'ValueError': 'Err.valueError', 'TypeError': 'Err.typeError', 'IndexError': 'Err.indexError',
        'ZeroDivisionError': 'Err.zeroDivision'}
_LEAN_KEYWORDS = {'end', 'from', 'at', 'in', 'do', 'then', 'else', 'if', 'let', 'fun', 'have', 'show',
                  'open', 'def', 'theorem', 'match', 'with', 'where', 'instance', 'structure', 'class',
                  'namespace', 'section', 'variable', 'mut', 'for', 'return', 'try', 'catch', 'finally',
                  'n', }  # `n` is not a keyword but py `n` shadows badly in messages — keep; removed below
_LEAN_KEYWORDS.discard('n')
_LEAN_KEYWORDS |= {'s', 'x', 'rest', 'v', 'e'}     # names used by the generated loop scaffolding


class FnTranslator:
    def __init__(self, fn_node, known_funcs, consts=()):
        self.fn = fn_node
        self.consts = set(consts)
        self.known = dict(known_funcs)
        self.params = [a.arg for a in fn_node.args.args]
        self.defaults = {}
        nd = len(fn_node.args.defaults)
        for a, d in zip(fn_node.args.args[len(fn_node.args.args) - nd:], fn_node.args.defaults):
            self.defaults[a.arg] = d
        if fn_node.args.vararg or fn_node.args.kwarg or fn_node.args.kwonlyargs:
            raise Untranslatable(f'{fn_node.name}: *args/**kwargs/keyword-only parameters')
        self.callable_params = {}
        self.locals = []
        self.tmp = 0
        self.aux = []            # Lean text of loop functions, emitted before the main definition
        self.nloops = 0
        self.in_loop = 0
        self.lean_name = fn_node.name
        self._scan()

    # ------------------------------------------------------------------ scanning
    def _scan(self):
        for node in ast.walk(self.fn):
            if isinstance(node, ast.Call) and isinstance(node.func, ast.Name) and node.func.id in self.known:
                for i, a in enumerate(node.args):
                    if i in self.known[node.func.id][1] and isinstance(a, ast.Name) and a.id in self.params:
                        self.callable_params.setdefault(a.id, self.known[node.func.id][1][i])
            if isinstance(node, ast.Call) and isinstance(node.func, ast.Name) and node.func.id in self.params:
                ar = self.callable_params.setdefault(node.func.id, len(node.args))
                if ar != len(node.args):
                    raise Untranslatable(f'{self.fn.name}: parameter {node.func.id} called with different arities')
            tgts = []
            if isinstance(node, ast.For):
                if not isinstance(node.target, ast.Name):
                    raise Untranslatable(f'{self.fn.name}: loop target {ast.dump(node.target)[:60]}')
                tgts = [node.target]
            if isinstance(node, ast.Assign):
                tgts = node.targets
            elif isinstance(node, ast.AugAssign):
                tgts = [node.target]
            for t in tgts:
                for n in ([t] if isinstance(t, ast.Name) else (t.elts if isinstance(t, ast.Tuple) else [t])):
                    while isinstance(n, ast.Subscript):      # x[i] = e / x[i][j] += e  assigns (a new value) to x
                        n = n.value
                    if not isinstance(n, ast.Name):
                        raise Untranslatable(f'{self.fn.name}: assignment target {ast.dump(t)[:60]}')
                    if n.id not in self.locals:
                        self.locals.append(n.id)

    def nm(self, name):
        return name + '_' if name in _LEAN_KEYWORDS else name

    def fresh(self):
        self.tmp += 1
        return f't{self.tmp}'

    # ------------------------------------------------------------------ expressions → Lean term of type V
    # (may contain nested `(← …)` actions; callers make sure they sit directly in a `do` sequence)
    def expr(self, e):
        if isinstance(e, ast.Constant):
            v = e.value
            if v is None:
                return 'V.none'
            if v is True or v is False:
                return f'(V.bool {"true" if v else "false"})'
            if isinstance(v, int):
                return f'(V.int ({v}))' if v < 0 else f'(V.int {v})'
            if isinstance(v, str) and '"' not in v and '\\' not in v:
                return f'(V.str "{v}")'
            raise Untranslatable(f'constant {v!r}')
        if isinstance(e, ast.Name):
            if e.id in self.callable_params:
                raise Untranslatable(f'callable parameter {e.id} used as a value')
            if e.id in self.params or e.id in self.locals:
                return self.nm(e.id)
            if e.id in self.consts:
                return e.id
            if e.id == 'Ellipsis':
                return 'V.ellipsis'
            raise Untranslatable(f'free name {e.id}')
        if isinstance(e, ast.BinOp):
            if type(e.op) not in _BIN:
                raise Untranslatable(f'operator {type(e.op).__name__}')
            return f'(← {_BIN[type(e.op)]} {self.expr(e.left)} {self.expr(e.right)})'
        if isinstance(e, ast.UnaryOp):
            if isinstance(e.op, ast.USub):
                if isinstance(e.operand, ast.Constant) and isinstance(e.operand.value, int) \
                        and not isinstance(e.operand.value, bool):
                    return f'(V.int (-{e.operand.value}))'
                return f'(← V.neg {self.expr(e.operand)})'
            if isinstance(e.op, ast.Not):
                return f'(V.bool (!{self.cond(e.operand)}))'
            raise Untranslatable(f'unary {type(e.op).__name__}')
        if isinstance(e, (ast.Compare, ast.BoolOp)):
            return f'(V.bool {self.cond(e)})'
        if isinstance(e, ast.IfExp):
            return (f'(← (do if {self.cond(e.test)} then pure {self.expr(e.body)} '
                    f'else pure {self.expr(e.orelse)} : M V))')
        if isinstance(e, ast.Attribute):
            if e.attr in ('start', 'stop', 'step'):
                return f'(← V.attr "{e.attr}" {self.expr(e.value)})'
            raise Untranslatable(f'attribute .{e.attr}')
        if isinstance(e, ast.Tuple):
            if len(e.elts) == 2:
                return f'(V.tup2 {self.expr(e.elts[0])} {self.expr(e.elts[1])})'
            if len(e.elts) == 3:
                return f'(V.tup3 {self.expr(e.elts[0])} {self.expr(e.elts[1])} {self.expr(e.elts[2])})'
            if len(e.elts) == 0:
                return 'V.nil'
            if len(e.elts) == 1:
                return f'(V.cons {self.expr(e.elts[0])} V.nil)'
            raise Untranslatable('tuple of length %d' % len(e.elts))
        if isinstance(e, ast.Dict):
            if e.keys:
                raise Untranslatable('non-empty dict literal')
            return '(V.dict V.nil)'
        if isinstance(e, ast.List):
            acc = 'V.nil'
            for x in reversed(e.elts):
                acc = f'(V.cons {self.expr(x)} {acc})'
            return acc
        if isinstance(e, ast.Subscript):
            sl = e.slice
            if isinstance(sl, ast.Slice):
                if sl.lower is None and sl.upper is None and isinstance(sl.step, ast.UnaryOp) \
                        and isinstance(sl.step.op, ast.USub) and isinstance(sl.step.operand, ast.Constant) \
                        and sl.step.operand.value == 1:
                    return f'(← V.reversed {self.expr(e.value)})'
                if sl.lower is not None and sl.upper is None and sl.step is None:
                    return f'(← V.dropFrom {self.expr(e.value)} {self.expr(sl.lower)})'
                raise Untranslatable('slice subscript other than [::-1] / [k:]')
            return f'(← V.getItem {self.expr(e.value)} {self.expr(sl)})'
        if isinstance(e, ast.Call):
            return self.call(e)
        raise Untranslatable(f'expression {type(e).__name__}')

    def call(self, e):
        if e.keywords:
            raise Untranslatable('keyword arguments in a call')
        f = e.func
        if isinstance(f, ast.Name) and f.id in self.known and not e.keywords:
            cpos = self.known[f.id][1]
            defaults = self.known[f.id][2] if len(self.known[f.id]) > 2 else {}
            nparams = self.known[f.id][3] if len(self.known[f.id]) > 3 else len(e.args)
            args = []
            for i, a in enumerate(e.args):
                if i in cpos:
                    if not (isinstance(a, ast.Name) and a.id in self.callable_params):
                        raise Untranslatable(f'callable argument {i} of {f.id} is not a callable parameter')
                    args.append(self.nm(a.id))
                else:
                    args.append(self.expr(a))
            for i in range(len(e.args), nparams):
                if i not in defaults:
                    raise Untranslatable(f'call of {f.id} omits argument {i} that has no translated default')
                args.append(defaults[i])
            return f'(← {self.known[f.id][0]} {" ".join(args)})'
        if isinstance(f, ast.Name) and f.id == 'isinstance':
            if len(e.args) == 2 and isinstance(e.args[1], ast.Name) and e.args[1].id in ('Integral', 'tuple', 'slice'):
                fn = {'Integral': 'V.isIntegral', 'tuple': 'V.isSeq', 'slice': 'V.isSlice'}[e.args[1].id]
                return f'(V.bool ({fn} {self.expr(e.args[0])}))'
            raise Untranslatable('isinstance with a class other than Integral / tuple / slice')
        if isinstance(f, ast.Name) and f.id == 'getattr' and len(e.args) == 3 and isinstance(e.args[1], ast.Constant) \
                and e.args[1].value not in ('start', 'stop', 'step') and not e.keywords:
            # values of the fragment (ints, None, slices, Ellipsis, sequences) have no other attributes:
            # `getattr(x, name, default)` is `default`
            return self.expr(e.args[2])
        args = [self.expr(a) for a in e.args]
        if isinstance(f, ast.Attribute):
            if f.attr == 'indices' and len(args) == 1:
                return f'(← V.sliceIndices {self.expr(f.value)} {args[0]})'
            if f.attr == 'ceil' and isinstance(f.value, ast.Name) and f.value.id == 'np' and len(args) == 1:
                return f'(← V.npCeil {args[0]})'
            raise Untranslatable(f'method call .{f.attr}')
        if not isinstance(f, ast.Name):
            raise Untranslatable('call of a non-name')
        name = f.id
        if name in self.callable_params:
            return f'(← {self.nm(name)} {" ".join(args)})'
        if name in self.known:
            return f'(← {self.known[name][0]} {" ".join(args)})'
        if name == 'enumerate' and len(args) == 1:
            return f'(← V.enumerate {args[0]})'
        if name == 'len' and len(args) == 1:
            return f'(← V.len {args[0]})'
        if name in ('tuple', 'list') and len(args) == 1:
            return f'(← V.asList {args[0]})'
        if name == 'int' and len(args) == 1:
            return f'(← V.toInt {args[0]})'
        if name == 'abs' and len(args) == 1:
            return f'(← V.abs {args[0]})'
        if name == 'min' and len(args) == 2:
            return f'(← V.min2 {args[0]} {args[1]})'
        if name == 'max' and len(args) == 2:
            return f'(← V.max2 {args[0]} {args[1]})'
        if name == 'slice':
            if len(args) == 1:
                return f'(V.slice1 {args[0]})'
            if len(args) == 2:
                return f'(V.slice2 {args[0]} {args[1]})'
            if len(args) == 3:
                return f'(V.slice {args[0]} {args[1]} {args[2]})'
        if name == 'isinstance' and len(e.args) == 2 and isinstance(e.args[1], ast.Name) \
                and e.args[1].id == 'Integral':
            return f'(V.bool (V.isIntegral {args[0]}))'
        raise Untranslatable(f'call of {name}/{len(args)}')

    # ------------------------------------------------------------------ conditions → Lean term of type Bool
    def cond(self, e):
        if isinstance(e, ast.BoolOp):
            parts = [self.cond(v) for v in e.values]
            acc = parts[-1]
            for p in reversed(parts[:-1]):
                if isinstance(e.op, ast.And):
                    acc = f'(← (do if {p} then pure {acc} else pure false : M Bool))'
                else:
                    acc = f'(← (do if {p} then pure true else pure {acc} : M Bool))'
            return acc
        if isinstance(e, ast.UnaryOp) and isinstance(e.op, ast.Not):
            return f'(!{self.cond(e.operand)})'
        if isinstance(e, ast.Compare):
            if len(e.ops) != 1:
                raise Untranslatable('chained comparison')
            op, l, r = e.ops[0], e.left, e.comparators[0]
            if isinstance(op, (ast.Is, ast.IsNot)):
                if not (isinstance(r, ast.Constant) and r.value is None):
                    raise Untranslatable('`is` with something other than None')
                t = f'(V.isNone {self.expr(l)})'
                return t if isinstance(op, ast.Is) else f'(!{t})'
            if isinstance(op, (ast.In, ast.NotIn)) and isinstance(r, ast.Constant) and isinstance(r.value, str) \
                    and '"' not in r.value and '\\' not in r.value:
                t = f'(← V.strInV {self.expr(l)} "{r.value}")'
                return t if isinstance(op, ast.In) else f'(!{t})'
            if isinstance(op, (ast.In, ast.NotIn)) and not isinstance(r, ast.Tuple):
                t = f'(← V.contains {self.expr(r)} {self.expr(l)})'
                return t if isinstance(op, ast.In) else f'(!{t})'
            if isinstance(op, (ast.In, ast.NotIn)):
                if not isinstance(r, ast.Tuple) or not r.elts:
                    raise Untranslatable('`in` with a non-literal container')
                le = self.expr(l)
                tests = [f'(V.pyEq {le} {self.expr(x)})' for x in r.elts]
                t = '(' + ' || '.join(tests) + ')'
                return t if isinstance(op, ast.In) else f'(!{t})'
            if type(op) in (ast.Eq, ast.NotEq):
                t = f'(V.pyEq {self.expr(l)} {self.expr(r)})'
                return t if isinstance(op, ast.Eq) else f'(!{t})'
            if type(op) in _CMP:
                return f'(← V.truthy (← {_CMP[type(op)]} {self.expr(l)} {self.expr(r)}))'
            raise Untranslatable(f'comparison {type(op).__name__}')
        return f'(← V.truthy {self.expr(e)})'

    # ------------------------------------------------------------------ statements
    def block(self, stmts, ind):
        out = []
        for s in stmts:
            out += self.stmt(s, ind)
        if not out:
            out = [ind + 'pure ()']
        return out

    def assign_to(self, target, value_term, ind):
        if isinstance(target, ast.Name):
            return [f'{ind}{self.nm(target.id)} := {value_term}']
        if isinstance(target, ast.Subscript) and not isinstance(target.slice, ast.Slice):
            # x[i] = v  ==>  x := setItem x i v   (recursively for x[i][j] = v; value semantics — the fragment
            # has no aliasing: a container is only ever reachable through one name)
            t = self.fresh()
            out = [f'{ind}let {t} := (← V.setItem {self.expr(target.value)} {self.expr(target.slice)} {value_term})']
            return out + self.assign_to(target.value, t, ind)
        raise Untranslatable('assignment target')

    # ---- loops -----------------------------------------------------------------------------------
    def allvars(self):
        return [p for p in self.params if p not in self.callable_params] + \
               [l for l in self.locals if l not in self.params]

    def pack(self):
        return '⟨' + ', '.join(self.nm(v) for v in self.allvars()) + '⟩'

    def for_stmt(self, s, ind):
        if s.orelse:
            raise Untranslatable('for ... else')
        for n in ast.walk(s):
            if isinstance(n, ast.Break):
                raise Untranslatable('break')
        it = s.iter
        if isinstance(it, ast.Call) and isinstance(it.func, ast.Name) and it.func.id == 'range' and not it.keywords \
                and 1 <= len(it.args) <= 3:
            a = [self.expr(x) for x in it.args]
            if len(a) == 1:
                a = ['(V.int 0)', a[0], '(V.int 1)']
            elif len(a) == 2:
                a = [a[0], a[1], '(V.int 1)']
            iterable = f'(← V.pyRange {a[0]} {a[1]} {a[2]})'
        else:
            iterable = f'(← V.asList {self.expr(it)})'
        self.nloops += 1
        k = self.nloops
        base = self.nm(self.lean_name)
        loc = f'{base}_Locals'
        cps = [p for p in self.params if p in self.callable_params]
        cp_sig = ''.join(f' ({self.nm(p)} : {"V → " * self.callable_params[p]}M V)' for p in cps)
        cp_args = ''.join(' ' + self.nm(p) for p in cps)
        var = self.nm(s.target.id)
        # body function
        self.in_loop += 1
        body = self.block(s.body, '  ')
        self.in_loop -= 1
        lines = [f'def {base}_body{k}{cp_sig} (s : {loc}) : M (Ctl {loc}) := do']
        for v in self.allvars():
            lines.append(f'  let mut {self.nm(v)} := s.{self.nm(v)}')
        lines += body
        lines.append(f'  return Ctl.next {self.pack()}')
        lines.append('')
        lines += [f'def {base}_loop{k}{cp_sig} : V → {loc} → M (Ctl {loc})',
                  f'  | .cons x rest, s => do',
                  f'      match ← {base}_body{k}{cp_args} {{ s with {var} := x }} with',
                  f'      | .ret v => return .ret v',
                  f'      | .next s\' => {base}_loop{k}{cp_args} rest s\'',
                  f'  | .nil, s => return .next s',
                  f'  | _, _ => throw Err.typeError', '']
        self.aux.append('\n'.join(lines))
        out = [f'{ind}match ← {base}_loop{k}{cp_args} {iterable} {self.pack()} with',
               f'{ind}| .ret v => return {"Ctl.ret v" if self.in_loop else "v"}',
               f'{ind}| .next s =>']
        for v in self.allvars():
            out.append(f'{ind}    {self.nm(v)} := s.{self.nm(v)}')
        return out

    def stmt(self, s, ind):
        if isinstance(s, ast.Expr) and isinstance(s.value, ast.Constant) and isinstance(s.value.value, str):
            return []                      # docstring
        if isinstance(s, ast.Pass):
            return [ind + 'pure ()']
        if isinstance(s, ast.Return):
            v = 'V.none' if s.value is None else self.expr(s.value)
            if self.in_loop:
                return [f'{ind}return Ctl.ret {v}']
            return [f'{ind}return {v}']
        if isinstance(s, ast.Continue):
            if not self.in_loop:
                raise Untranslatable('continue outside a loop')
            return [f'{ind}return Ctl.next {self.pack()}']
        if isinstance(s, ast.Expr) and isinstance(s.value, ast.Call) and isinstance(s.value.func, ast.Attribute) \
                and s.value.func.attr in ('append', 'extend') and isinstance(s.value.func.value, ast.Name) \
                and len(s.value.args) == 1 and not s.value.keywords:
            tgt = s.value.func.value.id
            if tgt not in self.locals:
                raise Untranslatable(f'.{s.value.func.attr} on a name that is never assigned: {tgt}')
            fn = 'V.append' if s.value.func.attr == 'append' else 'V.extend'
            return [f'{ind}{self.nm(tgt)} := (← {fn} {self.nm(tgt)} {self.expr(s.value.args[0])})']
        if isinstance(s, ast.For):
            return self.for_stmt(s, ind)
        if isinstance(s, ast.Raise):
            exc = s.exc
            name = exc.func.id if isinstance(exc, ast.Call) and isinstance(exc.func, ast.Name) else \
                (exc.id if isinstance(exc, ast.Name) else None)
            if name not in _EXC:
                raise Untranslatable(f'raise {name}')
            return [f'{ind}throw {_EXC[name]}']
        if isinstance(s, ast.AugAssign):
            if type(s.op) not in _BIN:
                raise Untranslatable('augmented assignment')
            if isinstance(s.target, ast.Subscript):
                cur = self.expr(s.target)
                t = self.fresh()
                out = [f'{ind}let {t} := (← {_BIN[type(s.op)]} {cur} {self.expr(s.value)})']
                return out + self.assign_to(s.target, t, ind)
            if not isinstance(s.target, ast.Name):
                raise Untranslatable('augmented assignment')
            t = self.nm(s.target.id)
            return [f'{ind}{t} := (← {_BIN[type(s.op)]} {t} {self.expr(s.value)})']
        if isinstance(s, ast.Assign):
            out = []
            if len(s.targets) == 1 and isinstance(s.targets[0], ast.Tuple):
                tg = s.targets[0].elts
                if isinstance(s.value, ast.Tuple):
                    if len(s.value.elts) != len(tg):
                        raise Untranslatable('tuple assignment arity')
                    tmps = []
                    for v in s.value.elts:
                        t = self.fresh()
                        out.append(f'{ind}let {t} := {self.expr(v)}')
                        tmps.append(t)
                    for n, t in zip(tg, tmps):
                        out += self.assign_to(n, t, ind)
                    return out
                if len(tg) not in (2, 3):
                    raise Untranslatable('tuple unpack arity')
                tmps = [self.fresh() for _ in tg]
                out.append(f'{ind}let ({", ".join(tmps)}) ← V.unpack{len(tg)} {self.expr(s.value)}')
                for n, t in zip(tg, tmps):
                    out += self.assign_to(n, t, ind)
                return out
            if isinstance(s.value, ast.Call) and isinstance(s.value.func, ast.Attribute) \
                    and s.value.func.attr == 'setdefault' and isinstance(s.value.func.value, ast.Name) \
                    and len(s.value.args) == 2 and not s.value.keywords:
                d = s.value.func.value.id
                if d not in self.locals:
                    raise Untranslatable('.setdefault on a name that is never assigned')
                t, t2 = self.fresh(), self.fresh()
                out.append(f'{ind}let ({t}, {t2}) ← V.dictSetdefault {self.nm(d)} {self.expr(s.value.args[0])} '
                           f'{self.expr(s.value.args[1])}')
                out.append(f'{ind}{self.nm(d)} := {t2}')
                for tgt in s.targets:
                    out += self.assign_to(tgt, t, ind)
                return out
            t = self.fresh()
            out.append(f'{ind}let {t} := {self.expr(s.value)}')
            for tgt in s.targets:
                out += self.assign_to(tgt, t, ind)
            return out
        if isinstance(s, ast.If):
            out = [f'{ind}if {self.cond(s.test)} then']
            out += self.block(s.body, ind + '  ')
            if s.orelse:
                out.append(f'{ind}else')
                out += self.block(s.orelse, ind + '  ')
            return out
        if isinstance(s, ast.Try):
            # only:  try: X = int(Y)  except TypeError: A  [else: B]
            if (len(s.body) == 1 and isinstance(s.body[0], ast.Assign) and len(s.body[0].targets) == 1
                    and isinstance(s.body[0].targets[0], ast.Name)
                    and isinstance(s.body[0].value, ast.Call) and isinstance(s.body[0].value.func, ast.Name)
                    and s.body[0].value.func.id == 'int' and len(s.body[0].value.args) == 1
                    and len(s.handlers) == 1 and isinstance(s.handlers[0].type, ast.Name)
                    and s.handlers[0].type.id == 'TypeError' and s.handlers[0].name is None
                    and not s.finalbody):
                tgt = self.nm(s.body[0].targets[0].id)
                arg = self.expr(s.body[0].value.args[0])
                t = self.fresh()
                out = [f'{ind}match V.toInt {arg} with',
                       f'{ind}| .error Err.typeError =>']
                out += self.block(s.handlers[0].body, ind + '    ')
                out += [f'{ind}| .error e => throw e', f'{ind}| .ok {t} =>', f'{ind}    {tgt} := {t}']
                out += self.block(s.orelse, ind + '    ') if s.orelse else []
                return out
            if (len(s.body) == 1 and isinstance(s.body[0], ast.Expr) and isinstance(s.body[0].value, ast.Call)
                    and isinstance(s.body[0].value.func, ast.Name) and s.body[0].value.func.id == 'int'
                    and len(s.body[0].value.args) == 1 and len(s.handlers) == 1
                    and isinstance(s.handlers[0].type, ast.Name) and s.handlers[0].type.id == 'TypeError'
                    and s.handlers[0].name is None and not s.finalbody and not s.orelse):
                arg = self.expr(s.body[0].value.args[0])
                out = [f'{ind}match V.toInt {arg} with', f'{ind}| .error Err.typeError =>']
                out += self.block(s.handlers[0].body, ind + '    ')
                out += [f'{ind}| .error e => throw e', f'{ind}| .ok _ => pure ()']
                return out
            raise Untranslatable('try statement outside the supported pattern')
        raise Untranslatable(f'statement {type(s).__name__}')

    def translate(self, lean_name=None, doc=None, default_values=None):
        """`default_values`: {param: Lean term} for parameters that have defaults and are dropped from the
        Lean signature when the default is a translated constant (kept as a parameter otherwise)."""
        name = lean_name or self.fn.name
        self.lean_name = name
        sig = []
        for p in self.params:
            if p in self.callable_params:
                sig.append(f'({self.nm(p)} : {"V → " * self.callable_params[p]}M V)')
            else:
                sig.append(f'({self.nm(p)} : V)')
        lines = []
        has_loops = any(isinstance(n, ast.For) for n in ast.walk(self.fn))
        body = None
        if has_loops:
            body = self.block(self.fn.body, '  ')     # fills self.aux
            lines.append(f'structure {self.nm(name)}_Locals where')
            for v in self.allvars():
                lines.append(f'  {self.nm(v)} : V')
            lines.append('')
            lines += self.aux
        if doc:
            lines.append(f'/-- {doc} -/')
        lines.append(f'def {self.nm(name)} {" ".join(sig)} : M V := do')
        for p in self.params:
            if p in self.locals or (has_loops and p not in self.callable_params):
                lines.append(f'  let mut {self.nm(p)} := {self.nm(p)}')
        for l in self.locals:
            if l not in self.params:
                lines.append(f'  let mut {self.nm(l)} : V := V.none')
        if body is None:
            body = self.block(self.fn.body, '  ')
        lines += body
        last = self.fn.body[-1]
        if not isinstance(last, (ast.Return, ast.Raise)):
            lines.append('  return V.none')
        # silence "unused mut" linter noise: harmless
        return '\n'.join(lines)


class _WriteBack(ast.NodeTransformer):
    """`for x in L: … x[i] op= e …`  mutates the elements of L through the loop variable.  Under the value
    semantics of the fragment this is rewritten (faithfully, as long as L itself is not touched in the body and
    the body has no continue/return) into

        _wbK = []
        for x in L:
            …
            _wbK.append(x)
        L = _wbK
    """
    def __init__(self):
        self.k = 0

    def visit_For(self, node):
        self.generic_visit(node)
        if not (isinstance(node.target, ast.Name) and isinstance(node.iter, ast.Name)):
            return node
        var, lst = node.target.id, node.iter.id

        def root(t):
            while isinstance(t, ast.Subscript):
                t = t.value
            return t.id if isinstance(t, ast.Name) else None
        mutates = False
        for n in ast.walk(node):
            tg = []
            if isinstance(n, ast.Assign):
                tg = n.targets
            elif isinstance(n, ast.AugAssign):
                tg = [n.target]
            for t in tg:
                if isinstance(t, ast.Subscript) and root(t) == var:
                    mutates = True
                if root(t) == lst or (isinstance(t, ast.Name) and t.id == lst):
                    raise Untranslatable(f'loop over {lst} assigns to {lst}')
        if not mutates:
            return node
        for n in ast.walk(node):
            if isinstance(n, (ast.Continue, ast.Return, ast.Break)):
                raise Untranslatable('element mutation in a loop with continue/return/break')
        self.k += 1
        wb = f'_wb{self.k}'
        init = ast.Assign(targets=[ast.Name(id=wb, ctx=ast.Store())], value=ast.List(elts=[], ctx=ast.Load()))
        app = ast.Expr(value=ast.Call(func=ast.Attribute(value=ast.Name(id=wb, ctx=ast.Load()), attr='append',
                                                         ctx=ast.Load()),
                                      args=[ast.Name(id=var, ctx=ast.Load())], keywords=[]))
        node.body = node.body + [app]
        fin = ast.Assign(targets=[ast.Name(id=lst, ctx=ast.Store())], value=ast.Name(id=wb, ctx=ast.Load()))
        return [init, node, fin]


class _Desugar(ast.NodeTransformer):
    """Purely syntactic desugaring into the statement forms the translator knows:

        for i, x in enumerate(L): B        ==>  for _enK in enumerate(L): i, x = _enK; B
        t = [E for v in L if C]            ==>  _lcK = []; for v in L: if C: _lcK.append(E);  t = _lcK
        if all(C for v in L): A else: B    ==>  _allK = True; for v in L: if not C: _allK = False;  if _allK: A else: B
    (`all` does not short-circuit after the rewrite; C must be free of side effects and errors — it is a comparison.)"""
    def __init__(self):
        self.k = 0

    def fresh(self, p):
        self.k += 1
        return f'_{p}{self.k}'

    def visit_For(self, node):
        self.generic_visit(node)
        if isinstance(node.target, ast.Tuple) and isinstance(node.iter, ast.Call) \
                and isinstance(node.iter.func, ast.Name) and node.iter.func.id == 'enumerate':
            v = self.fresh('en')
            unpack = ast.Assign(targets=[node.target], value=ast.Name(id=v, ctx=ast.Load()))
            node.target = ast.Name(id=v, ctx=ast.Store())
            node.body = [unpack] + node.body
        return node

    def visit_Assign(self, node):
        self.generic_visit(node)
        if isinstance(node.value, ast.ListComp) and len(node.value.generators) == 1 \
                and isinstance(node.value.generators[0].target, ast.Name) and not node.value.generators[0].is_async:
            g = node.value.generators[0]
            v = self.fresh('lc')
            app = ast.Expr(value=ast.Call(func=ast.Attribute(value=ast.Name(id=v, ctx=ast.Load()), attr='append',
                                                             ctx=ast.Load()), args=[node.value.elt], keywords=[]))
            body = app
            for c in reversed(g.ifs):
                body = ast.If(test=c, body=[body], orelse=[])
            loop = ast.For(target=g.target, iter=g.iter, body=[body], orelse=[])
            init = ast.Assign(targets=[ast.Name(id=v, ctx=ast.Store())], value=ast.List(elts=[], ctx=ast.Load()))
            node.value = ast.Name(id=v, ctx=ast.Load())
            return [init, loop, node]
        return node

    def visit_If(self, node):
        self.generic_visit(node)
        t = node.test
        if isinstance(t, ast.Call) and isinstance(t.func, ast.Name) and t.func.id == 'all' and len(t.args) == 1 \
                and isinstance(t.args[0], ast.GeneratorExp) and len(t.args[0].generators) == 1 \
                and isinstance(t.args[0].generators[0].target, ast.Name) and not t.args[0].generators[0].ifs:
            g = t.args[0].generators[0]
            v = self.fresh('all')
            init = ast.Assign(targets=[ast.Name(id=v, ctx=ast.Store())], value=ast.Constant(value=True))
            setf = ast.Assign(targets=[ast.Name(id=v, ctx=ast.Store())], value=ast.Constant(value=False))
            loop = ast.For(target=g.target, iter=g.iter,
                           body=[ast.If(test=ast.UnaryOp(op=ast.Not(), operand=t.args[0].elt), body=[setf], orelse=[])],
                           orelse=[])
            node.test = ast.Name(id=v, ctx=ast.Load())
            return [init, loop, node]
        return node


def get_fn_node(obj):
    src = textwrap.dedent(inspect.getsource(obj))
    mod = ast.parse(src)
    fn = mod.body[0]
    if not isinstance(fn, ast.FunctionDef):
        raise Untranslatable('not a function definition')
    fn = ast.fix_missing_locations(_Desugar().visit(fn))
    fn = ast.fix_missing_locations(_WriteBack().visit(fn))
    return fn, src


def translate_functions(objs, namespace, header, constants=None):
    """objs: list of (python function object, lean name or None) in dependency order.
    Returns the text of a Lean file defining them in `namespace`."""
    known = {}
    out = ['import NibabelModel.Basic.PyVal', header, 'set_option linter.unusedVariables false',
           f'namespace {namespace}', 'open Nb.Py', '']
    for k, v in (constants or {}).items():
        if type(v) is not int:
            raise Untranslatable(f'constant {k} = {v!r} is not an int')
        out.append(f'def {k} : V := V.int ({v})')
    out.append('')
    for obj, lname in objs:
        fn, src = get_fn_node(obj)
        tr = FnTranslator(fn, known, consts=(constants or {}))
        first = src.strip().splitlines()[0]
        body = tr.translate(lean_name=lname, doc=f'translated from `{first.strip()}` '
                                                 f'({getattr(obj, "__module__", "?")})')
        out.append(body)
        out.append('')
        dflt = {}
        for i, p in enumerate(tr.params):
            if p in tr.defaults and p not in tr.callable_params:
                d = tr.defaults[p]
                if isinstance(d, ast.Constant) and (d.value is None or isinstance(d.value, (bool, int))):
                    dflt[i] = tr.expr(d)
                elif isinstance(d, ast.Name) and d.id in (constants or {}):
                    dflt[i] = d.id
        known[fn.name] = (tr.nm(lname or fn.name),
                          {i: tr.callable_params[p] for i, p in enumerate(tr.params) if p in tr.callable_params},
                          dflt, len(tr.params))
    out.append(f'end {namespace}')
    out.append('')
    return '\n'.join(out)


# ---------------------------------------------------------------------------------------------------
# canonical text of Python values (must match Driver/Util.lean `showV` / `parseV?`)
# ---------------------------------------------------------------------------------------------------
import numbers as _numbers


def show_v(v):
    if v is None:
        return 'N'
    if v is Ellipsis:
        return 'E'
    if isinstance(v, bool):
        return 'b1' if v else 'b0'
    if isinstance(v, _numbers.Integral):
        return 'i%d' % int(v)
    if isinstance(v, str):
        return 'q' + v
    if isinstance(v, slice):
        return 's(%s,%s,%s)' % (show_v(v.start), show_v(v.stop), show_v(v.step))
    if isinstance(v, (tuple, list)):
        return '(' + ';'.join(show_v(x) for x in v) + ')'
    if isinstance(v, dict):
        return '{(' + ';'.join('(%s;%s)' % (show_v(k), show_v(x)) for k, x in v.items()) + ')}'
    raise ValueError('value outside the fragment: %r' % (v,))


def show_exc(e):
    n = type(e).__name__
    if n == 'AttributeError':      # `x.start` on a non-slice: TypeError in Basic/PyVal
        n = 'TypeError'
    return 'ERR:' + n


def arg_v(v):
    """argument token for the driver"""
    if isinstance(v, slice):
        return 's' + ','.join('_' if x is None else str(int(x)) for x in (v.start, v.stop, v.step))
    if isinstance(v, (tuple, list)):
        return 'L' + ';'.join(arg_v(x) for x in v)
    return show_v(v)
