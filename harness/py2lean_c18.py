"""py2lean_c18 — `harness/py2lean.py` extended for the pure-integer METHODS of `SeriesAxis`
(`nibabel/cifti2/cifti2_axes.py`: `__getitem__`, `get_element`, `__add__`).

The translation stays purely syntactic (one Lean statement per Python statement, no knowledge of what the code
computes).  On top of the base fragment:

    Python                                     Lean
    -----------------------------------------  ----------------------------------------------------------------
    def m(self, a): …                          def m (self_x : V) … (self_f : V → M V) … (a : V) : M V
    self.x   (read)                            an extra VALUE parameter `self_x` (in order of first appearance)
    self.f(a, …)                               a call of an extra CALLABLE parameter `self_f` (composition with the
                                               translation of `f` is done on the Lean side, in the theorems/driver)
    other.x  (`other` a parameter that the     an extra VALUE parameter `other_x`
      body tests with isinstance(other, C))
    if isinstance(other, C): BODY              BODY            (C = the class being translated: a TYPED parameter;
    return NotImplemented   (after it)         dropped          operands of another class are outside the model)
    C(a, b, c, d)                              V.ofList [a, b, c, d]   (the constructor arguments, in order)
    isinstance(x, int)                         V.bool (V.isIntegral x)   (Python bools are outside the fragment)
    range(a, b, c)                             V.pyRange a b c
    raise IndexError(<anything>)               throw Err.indexError      (base)

Anything else outside the fragment raises `Untranslatable` (the check then reports a broken obligation).
"""
import ast
import inspect
import textwrap

from py2lean import FnTranslator, Untranslatable, _Desugar, _WriteBack


class _ObjRewrite(ast.NodeTransformer):
    """`<obj>.x` -> `<obj>_x`, `<obj>.f(..)` -> `<obj>_f(..)` for obj in `objs`; the new names become parameters
    (in order of first appearance)"""

    def __init__(self, objs):
        self.objs = set(objs)
        self.added = []

    def _add(self, n):
        if n not in self.added:
            self.added.append(n)
        return n

    def visit_Call(self, node):
        f = node.func
        if isinstance(f, ast.Attribute) and isinstance(f.value, ast.Name) and f.value.id in self.objs:
            node.func = ast.copy_location(ast.Name(id=self._add(f.value.id + '_' + f.attr), ctx=ast.Load()), f)
        self.generic_visit(node)
        return node

    def visit_Attribute(self, node):
        if isinstance(node.value, ast.Name) and node.value.id in self.objs:
            if not isinstance(node.ctx, ast.Load):
                raise Untranslatable('assignment to an attribute of an object parameter')
            return ast.copy_location(ast.Name(id=self._add(node.value.id + '_' + node.attr), ctx=ast.Load()), node)
        self.generic_visit(node)
        return node

    def visit_Name(self, node):
        if node.id in self.objs:
            raise Untranslatable(f'`{node.id}` used as a value')
        return node


def _typed_params(fn, cls):
    """parameters p with a top-level `if isinstance(p, cls): BODY` followed by `return NotImplemented`: unwrap"""
    typed = []
    body = list(fn.body)
    while body and isinstance(body[0], ast.Expr) and isinstance(body[0].value, ast.Constant) \
            and isinstance(body[0].value.value, str):
        body.pop(0)                       # docstring
    if len(body) == 2 and isinstance(body[0], ast.If) and not body[0].orelse and isinstance(body[1], ast.Return) \
            and isinstance(body[1].value, ast.Name) and body[1].value.id == 'NotImplemented':
        t = body[0].test
        if isinstance(t, ast.Call) and isinstance(t.func, ast.Name) and t.func.id == 'isinstance' \
                and len(t.args) == 2 and isinstance(t.args[0], ast.Name) and isinstance(t.args[1], ast.Name) \
                and t.args[1].id == cls and t.args[0].id in [a.arg for a in fn.args.args[1:]]:
            typed.append(t.args[0].id)
            body = list(body[0].body)
    fn.body = body
    return typed


class C18Translator(FnTranslator):
    cls = None

    def call(self, e):
        f = e.func
        if isinstance(f, ast.Name) and not e.keywords and f.id not in self.known and f.id not in self.callable_params:
            a = e.args
            if f.id == self.cls:
                return '(V.ofList [' + ', '.join(self.expr(x) for x in a) + '])'
            if f.id == 'isinstance' and len(a) == 2 and isinstance(a[1], ast.Name) and a[1].id == 'int':
                return f'(V.bool (V.isIntegral {self.expr(a[0])}))'
            if f.id == 'range' and len(a) == 3:
                return f'(← V.pyRange {self.expr(a[0])} {self.expr(a[1])} {self.expr(a[2])})'
        return super().call(e)


def method_node(obj, cls):
    src = textwrap.dedent(inspect.getsource(obj))
    fn = ast.parse(src).body[0]
    if not isinstance(fn, ast.FunctionDef):
        raise Untranslatable('not a function definition')
    if not (fn.args.args and fn.args.args[0].arg == 'self'):
        raise Untranslatable('not a method')
    typed = _typed_params(fn, cls)
    rw = _ObjRewrite(['self'] + typed)
    fn.body = [rw.visit(s) for s in fn.body]
    rest = [a for a in fn.args.args[1:] if a.arg not in typed]
    fn.args.args = [ast.arg(arg=n) for n in rw.added] + rest
    fn = ast.fix_missing_locations(_Desugar().visit(fn))
    fn = ast.fix_missing_locations(_WriteBack().visit(fn))
    return fn, src


def translate_methods(cls_obj, methods, namespace, header):
    """methods: list of (method name, lean name).  Returns (Lean text, {lean name: [(param, arity or None)]})"""
    cls = cls_obj.__name__
    out = ['import NibabelModel.Basic.PyVal', header, 'set_option linter.unusedVariables false',
           f'namespace {namespace}', 'open Nb.Py', '']
    sigs = {}
    for mname, lname in methods:
        fn, src = method_node(getattr(cls_obj, mname), cls)
        tr = C18Translator(fn, {})
        tr.cls = cls
        first = src.strip().splitlines()[0].strip()
        out.append(tr.translate(lean_name=lname, doc=f'translated from `{cls}.{first}` (nibabel.cifti2.cifti2_axes)'))
        out.append('')
        sigs[lname] = [(p, tr.callable_params.get(p)) for p in tr.params]
    out.append(f'end {namespace}')
    out.append('')
    return '\n'.join(out), sigs
