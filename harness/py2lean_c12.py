"""py2lean_c12 — string support on top of harness/py2lean.py (which is shared and not edited), for the
file-name logic of nibabel/filename_parser.py (C12 stage T).

Still purely syntactic.  Additions (semantics of every operator: lean/NibabelModel/Basic/PyStrC12.lean):

    Python                                       Lean
    -------------------------------------------  ---------------------------------------------------------
    a + b, a += b                                V.addS a b            (str + str, else the int addition)
    len(x)                                       V.lenS x              (code points of a str, else V.len)
    s[k:], s[:k]   (k any int, also negative)    V.sliceFrom s k, V.sliceTo s k
    s.endswith(e) s.lower() s.upper()            V.strEndswith s e, V.strLower s, V.strUpper s
    s.rfind(c) s.strip(c) s.removesuffix(e)      V.strRfind s c, V.strStrip s c, V.strRemovesuffix s e
    isinstance(x, str)                           V.isStr x
    os.path.splitext(p)                          V.osPathSplitext p     (specified primitive: posixpath.splitext)
    _stringify_path(p)                           V.stringifyPath p      (specified primitive: identity on a str that
                                                                        pathlib normalisation leaves unchanged)
    f = g            (g a translated function)   f := V.str "fn:g"      (functions as values: a tag ...)
    f = str.upper / str.lower / lambda s: s      f := V.str "fn:str.upper" / "fn:str.lower" / "fn:identity"
    f(a, b)          (f a local variable)        <fn>_callN f a b       (... and a GENERATED dispatcher over the tags of
                                                                        the translated functions of arity N; arity 1
                                                                        falls back to V.callStr1 for the str.* tags)
    raise TypesFilenamesError(...)               throw Err.valueError   (the fragment has one "refused" outcome)
and desugarings (before translation):
    x: T = e                                     x = e
    for a, b in L: B                             for _tpK in L: a, b = _tpK; B
    for x in L: B[break]  else: E                _brkK = False
                                                 for _itK in L:
                                                     if _brkK: continue
                                                     x = _itK
                                                     B[break -> _brkK = True; continue]
                                                 if not _brkK: E
      (faithful because iterating a tuple has no side effect: the remaining iterations do nothing, and the
       loop variable keeps the value it had at the break)
    a, b, c, d = e                               _upK = e; a = _upK[0]; ...; d = _upK[3]
    (a, b, c, d)  as a value                     [a, b, c, d]           (value universe: cons-lists for length >= 4)
"""
import ast
import inspect
import textwrap

import py2lean
from py2lean import FnTranslator, Untranslatable

PRIMS = {'_stringify_path': 'V.stringifyPath'}
STR_METHODS = {('endswith', 1): 'V.strEndswith', ('lower', 0): 'V.strLower', ('upper', 0): 'V.strUpper',
               ('rfind', 1): 'V.strRfind', ('strip', 1): 'V.strStrip', ('removesuffix', 1): 'V.strRemovesuffix'}
REFUSED = {'TypesFilenamesError'}


def _is_os_path_splitext(f):
    return (isinstance(f, ast.Attribute) and f.attr == 'splitext' and isinstance(f.value, ast.Attribute)
            and f.value.attr == 'path' and isinstance(f.value.value, ast.Name) and f.value.value.id == 'os')


class _DesugarC12(ast.NodeTransformer):
    def __init__(self):
        self.k = 0

    def fresh(self, p):
        self.k += 1
        return f'_{p}{self.k}'

    def visit_AnnAssign(self, node):
        self.generic_visit(node)
        if node.value is None or not isinstance(node.target, ast.Name):
            raise Untranslatable('annotated declaration without a value')
        return ast.Assign(targets=[node.target], value=node.value)

    def visit_AugAssign(self, node):
        self.generic_visit(node)
        if isinstance(node.target, ast.Name) and isinstance(node.op, ast.Add):
            return ast.Assign(targets=[ast.Name(id=node.target.id, ctx=ast.Store())],
                              value=ast.BinOp(left=ast.Name(id=node.target.id, ctx=ast.Load()), op=ast.Add(),
                                              right=node.value))
        return node

    def visit_Raise(self, node):
        exc = node.exc
        name = exc.func.id if isinstance(exc, ast.Call) and isinstance(exc.func, ast.Name) else \
            (exc.id if isinstance(exc, ast.Name) else None)
        if name in REFUSED:
            return ast.Raise(exc=ast.Name(id='ValueError', ctx=ast.Load()), cause=None)
        return node

    def visit_Tuple(self, node):
        self.generic_visit(node)
        if isinstance(node.ctx, ast.Load) and len(node.elts) >= 4:
            return ast.List(elts=node.elts, ctx=ast.Load())
        return node

    def visit_Assign(self, node):
        self.generic_visit(node)
        if len(node.targets) == 1 and isinstance(node.targets[0], ast.Tuple) and len(node.targets[0].elts) >= 4 \
                and not isinstance(node.value, (ast.Tuple, ast.List)):
            v = self.fresh('up')
            out = [ast.Assign(targets=[ast.Name(id=v, ctx=ast.Store())], value=node.value)]
            for i, t in enumerate(node.targets[0].elts):
                out.append(ast.Assign(targets=[t], value=ast.Subscript(value=ast.Name(id=v, ctx=ast.Load()),
                                                                       slice=ast.Constant(value=i), ctx=ast.Load())))
            return out
        return node

    def _replace_breaks(self, stmts, flag):
        """break -> flag = True; continue   (not descending into nested loops)"""
        out = []
        for s in stmts:
            if isinstance(s, ast.Break):
                out.append(ast.Assign(targets=[ast.Name(id=flag, ctx=ast.Store())], value=ast.Constant(value=True)))
                out.append(ast.Continue())
            elif isinstance(s, ast.If):
                s.body = self._replace_breaks(s.body, flag)
                s.orelse = self._replace_breaks(s.orelse, flag)
                out.append(s)
            elif isinstance(s, (ast.For, ast.While)):
                out.append(s)
            elif isinstance(s, (ast.Try, ast.With)):
                if any(isinstance(n, ast.Break) for n in ast.walk(s)):
                    raise Untranslatable('break inside try/with')
                out.append(s)
            else:
                out.append(s)
        return out

    def visit_For(self, node):
        self.generic_visit(node)
        pre, post = [], []
        was_tuple = isinstance(node.target, ast.Tuple)
        if isinstance(node.target, ast.Tuple) and not (isinstance(node.iter, ast.Call) and isinstance(node.iter.func, ast.Name)
                                                       and node.iter.func.id == 'enumerate'):
            v = self.fresh('tp')
            unpack = ast.Assign(targets=[node.target], value=ast.Name(id=v, ctx=ast.Load()))
            node.target = ast.Name(id=v, ctx=ast.Store())
            node.body = [unpack] + node.body
        has_break = any(isinstance(n, ast.Break) for s in node.body for n in ast.walk(s)
                        if not isinstance(s, (ast.For, ast.While)))
        if has_break or node.orelse:
            flag = self.fresh('brk')
            pre = [ast.Assign(targets=[ast.Name(id=flag, ctx=ast.Store())], value=ast.Constant(value=False))]
            body = self._replace_breaks(node.body, flag)
            if not was_tuple:
                # the loop variable keeps its value after a break: iterate over a fresh name
                it = self.fresh('it')
                body = [ast.Assign(targets=[ast.Name(id=node.target.id, ctx=ast.Store())],
                                   value=ast.Name(id=it, ctx=ast.Load()))] + body
                node.target = ast.Name(id=it, ctx=ast.Store())
            node.body = [ast.If(test=ast.Name(id=flag, ctx=ast.Load()), body=[ast.Continue()], orelse=[])] + body
            if node.orelse:
                post = [ast.If(test=ast.UnaryOp(op=ast.Not(), operand=ast.Name(id=flag, ctx=ast.Load())),
                               body=node.orelse, orelse=[])]
                node.orelse = []
        return pre + [node] + post


class FnTranslatorC12(FnTranslator):
    def __init__(self, fn_node, known_funcs, consts=(), known_py=None):
        self.known_py = dict(known_py or {})        # python name -> (lean name, arity) of translated functions
        self.dispatch = set()                        # arities of calls through local function variables
        super().__init__(fn_node, known_funcs, consts)

    def _dispatch_name(self, n):
        return f'{self.nm(self.lean_name)}_call{n}'

    def expr(self, e):
        if isinstance(e, ast.Name) and e.id not in self.params and e.id not in self.locals and e.id in self.known_py:
            return f'(V.str "fn:{e.id}")'
        if isinstance(e, ast.Attribute) and isinstance(e.value, ast.Name) and e.value.id == 'str' \
                and e.attr in ('upper', 'lower'):
            return f'(V.str "fn:str.{e.attr}")'
        if isinstance(e, ast.Lambda):
            a = e.args
            if len(a.args) == 1 and not (a.vararg or a.kwarg or a.kwonlyargs or a.defaults) \
                    and isinstance(e.body, ast.Name) and e.body.id == a.args[0].arg:
                return '(V.str "fn:identity")'
            raise Untranslatable('lambda other than the identity')
        if isinstance(e, ast.BinOp) and isinstance(e.op, ast.Add):
            return f'(← V.addS {self.expr(e.left)} {self.expr(e.right)})'
        if isinstance(e, ast.Subscript) and isinstance(e.slice, ast.Slice):
            sl = e.slice
            if sl.step is None and sl.lower is not None and sl.upper is None:
                return f'(← V.sliceFrom {self.expr(e.value)} {self.expr(sl.lower)})'
            if sl.step is None and sl.lower is None and sl.upper is not None:
                return f'(← V.sliceTo {self.expr(e.value)} {self.expr(sl.upper)})'
        return super().expr(e)

    def call(self, e):
        f = e.func
        if e.keywords:
            raise Untranslatable('keyword arguments in a call')
        if _is_os_path_splitext(f) and len(e.args) == 1:
            return f'(← V.osPathSplitext {self.expr(e.args[0])})'
        if isinstance(f, ast.Attribute) and (f.attr, len(e.args)) in STR_METHODS:
            args = ' '.join([self.expr(f.value)] + [self.expr(a) for a in e.args])
            return f'(← {STR_METHODS[(f.attr, len(e.args))]} {args})'
        if isinstance(f, ast.Name):
            if f.id in PRIMS and len(e.args) == 1 and f.id not in self.locals and f.id not in self.params:
                return f'(← {PRIMS[f.id]} {self.expr(e.args[0])})'
            if f.id == 'len' and len(e.args) == 1:
                return f'(← V.lenS {self.expr(e.args[0])})'
            if f.id == 'isinstance' and len(e.args) == 2 and isinstance(e.args[1], ast.Name) and e.args[1].id == 'str':
                return f'(V.bool (V.isStr {self.expr(e.args[0])}))'
            if f.id in self.locals and f.id not in self.params:
                n = len(e.args)
                self.dispatch.add(n)
                args = ' '.join(self.expr(a) for a in e.args)
                return f'(← {self._dispatch_name(n)} {self.nm(f.id)} {args})'
        return super().call(e)

    def dispatch_text(self):
        out = []
        for n in sorted(self.dispatch):
            vs = ' '.join(f'a{i}' for i in range(n))
            out.append(f'/-- call through a local variable that holds a function (tag `fn:<python name>`) -/')
            out.append(f'def {self._dispatch_name(n)} (f {vs} : V) : M V :=')
            out.append('  match f with')
            for py, (ln, ar) in self.known_py.items():
                if ar == n:
                    out.append(f'  | .str "fn:{py}" => {ln} {vs}')
            out.append(f'  | _ => {"V.callStr1 f a0" if n == 1 else "throw Err.typeError"}')
            out.append('')
        return '\n'.join(out)


def get_fn_node(obj):
    src = textwrap.dedent(inspect.getsource(obj))
    fn = ast.parse(src).body[0]
    if not isinstance(fn, ast.FunctionDef):
        raise Untranslatable('not a function definition')
    fn.returns = None
    for a in fn.args.args:
        a.annotation = None
    fn = ast.fix_missing_locations(_DesugarC12().visit(fn))
    if isinstance(fn, list):
        fn = fn[0]
    fn = ast.fix_missing_locations(py2lean._Desugar().visit(fn))
    fn = ast.fix_missing_locations(py2lean._WriteBack().visit(fn))
    return fn, src


def translate_functions(objs, namespace, header):
    """objs: list of (python function object, lean name) in dependency order -> text of a Lean file"""
    known, known_py = {}, {}
    out = ['import NibabelModel.Basic.PyStrC12', header, 'set_option linter.unusedVariables false',
           f'namespace {namespace}', 'open Nb.Py', '']
    for obj, lname in objs:
        fn, src = get_fn_node(obj)
        tr = FnTranslatorC12(fn, known, known_py=known_py)
        first = src.strip().splitlines()[0]
        body = tr.translate(lean_name=lname, doc=f'translated from `{first.strip()}` '
                                                 f'({getattr(obj, "__module__", "?")})')
        d = tr.dispatch_text()
        if d:
            out.append(d)
        out.append(body)
        out.append('')
        known[fn.name] = (tr.nm(lname), {}, {}, len(tr.params))
        known_py[fn.name] = (tr.nm(lname), len(tr.params))
    out.append(f'end {namespace}')
    out.append('')
    return '\n'.join(out)
