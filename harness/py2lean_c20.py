"""py2lean_c20 — `harness/py2lean.py` extended for the small METHODS and array helpers of `nibabel/parrec.py`
whose bodies are Python control flow around a few NumPy / `set` primitives (`vol_is_full`,
`PARRECHeader.get_def / _get_n_slices / _get_n_vols / _lax_sort_order / get_sorted_slice_indices /
get_volume_labels`, and the key-list construction of `_strict_sort_order`).

The translation stays purely syntactic.  On top of the base fragment:

    Python                                     Lean (primitives: lean/NibabelModel/Model/C20_Py.lean, namespace NV)
    -----------------------------------------  ----------------------------------------------------------------
    def m(self, a): …                          def m (self_x : V) … (self_f : V → M V) … (a : V) : M V
    self.x   (read)                            an extra VALUE parameter `self_x`
    self.f(a, …)                               a call of an extra CALLABLE parameter `self_f` (composition with the
                                               translation of `f` is done on the Lean side, in the theorems/driver)
    np.lexsort(k)                              a call of the extra callable parameter `np_lexsort` (a SPECIFIED
                                               primitive: the model instantiates it with its stable sort)
    x[i]  /  x[i] = v                          NV.getItem / NV.setItem  (dict field, bool mask, int-array gather, item)
    x[:k]                                      NV.takeTo          x[k:]  -> V.dropFrom (base)
    a + b                                      NV.add  (ints, or tuple concatenation)
    a == b, a != b                             NV.eq / NV.ne  (set equality; array-vs-scalar element-wise; else ==)
    set(x), len(x), for v in X                 NV.set, NV.len, iteration over NV.iter X
    s.issuperset(x)                            NV.issuperset
    x.shape, x.ndim, x.dtype.names|fields      NV.shape, NV.ndim, NV.fieldNames
    np.array / np.asarray (x)                  NV.npArray          np.ones(s, dtype=bool) -> NV.onesBool
    np.prod, np.unique, np.logical_not         NV.prod, NV.unique, NV.logicalNot
    range(a, b) as a value                     V.pyRange a b 1     OrderedDict() -> empty dict
    raise ValueError(<anything>)               throw Err.valueError

`prefix_until_assign(fn, name)` cuts a function after its first top-level assignment to `name` and returns
that variable (used for `keys` of `_strict_sort_order`, whose second half is 2-D NumPy).
Anything else outside the fragment raises `Untranslatable`.
"""
import ast
import inspect
import textwrap

from py2lean import FnTranslator, Untranslatable, _Desugar, _WriteBack, _CMP

PARAM_PRIMS = {'lexsort'}            # np.<f> that stay callable parameters
NP_CALLS = {'array': 'NV.npArray', 'asarray': 'NV.npArray', 'prod': 'NV.prod', 'unique': 'NV.unique',
            'logical_not': 'NV.logicalNot'}


class _MethodRewrite(ast.NodeTransformer):
    """`self.x` -> `self_x`, `self.f(..)` -> `self_f(..)`, `np.lexsort(..)` -> `np_lexsort(..)`; the new names
    become parameters (in order of first appearance) in place of `self`."""

    def __init__(self, selfname):
        self.selfname = selfname
        self.added = []

    def _add(self, n):
        if n not in self.added:
            self.added.append(n)
        return n

    def visit_Call(self, node):
        f = node.func
        if isinstance(f, ast.Attribute) and isinstance(f.value, ast.Name):
            if self.selfname and f.value.id == self.selfname:
                node.func = ast.copy_location(ast.Name(id=self._add('self_' + f.attr), ctx=ast.Load()), f)
            elif f.value.id == 'np' and f.attr in PARAM_PRIMS:
                node.func = ast.copy_location(ast.Name(id=self._add('np_' + f.attr), ctx=ast.Load()), f)
        self.generic_visit(node)
        return node

    def visit_Attribute(self, node):
        if self.selfname and isinstance(node.value, ast.Name) and node.value.id == self.selfname:
            if not isinstance(node.ctx, ast.Load):
                raise Untranslatable('assignment to an attribute of self')
            return ast.copy_location(ast.Name(id=self._add('self_' + node.attr), ctx=ast.Load()), node)
        self.generic_visit(node)
        return node

    def visit_Name(self, node):
        if self.selfname and node.id == self.selfname:
            raise Untranslatable('`self` used as a value')
        return node


class _IterRewrite(ast.NodeTransformer):
    """`for v in X` -> `for v in _iter(X)` (set-aware iteration), except `range(..)` / `enumerate(..)`"""

    def visit_For(self, node):
        self.generic_visit(node)
        it = node.iter
        if isinstance(it, ast.Call) and isinstance(it.func, ast.Name) and it.func.id in ('range', 'enumerate'):
            return node
        node.iter = ast.copy_location(ast.Call(func=ast.Name(id='_iter', ctx=ast.Load()), args=[it], keywords=[]), it)
        return node


class C20Translator(FnTranslator):
    def expr(self, e):
        if isinstance(e, ast.BinOp) and isinstance(e.op, ast.Add):
            return f'(← NV.add {self.expr(e.left)} {self.expr(e.right)})'
        if isinstance(e, ast.Compare) and len(e.ops) == 1 and isinstance(e.ops[0], (ast.Eq, ast.NotEq)):
            fn = 'NV.eq' if isinstance(e.ops[0], ast.Eq) else 'NV.ne'
            return f'(← {fn} {self.expr(e.left)} {self.expr(e.comparators[0])})'
        if isinstance(e, ast.Attribute):
            if e.attr == 'shape':
                return f'(← NV.shape {self.expr(e.value)})'
            if e.attr == 'ndim':
                return f'(← NV.ndim {self.expr(e.value)})'
            if e.attr in ('names', 'fields') and isinstance(e.value, ast.Attribute) and e.value.attr == 'dtype':
                return f'(← NV.fieldNames {self.expr(e.value.value)})'
            raise Untranslatable(f'attribute .{e.attr}')
        if isinstance(e, ast.Subscript):
            sl = e.slice
            if isinstance(sl, ast.Slice):
                if sl.lower is None and sl.upper is not None and sl.step is None:
                    return f'(← NV.takeTo {self.expr(e.value)} {self.expr(sl.upper)})'
                return super().expr(e)
            return f'(← NV.getItem {self.expr(e.value)} {self.expr(sl)})'
        return super().expr(e)

    def cond(self, e):
        if isinstance(e, ast.Compare) and len(e.ops) == 1 and isinstance(e.ops[0], (ast.Eq, ast.NotEq)):
            return f'(← V.truthy {self.expr(e)})'
        return super().cond(e)

    def call(self, e):
        f = e.func
        if isinstance(f, ast.Attribute) and isinstance(f.value, ast.Name) and f.value.id == 'np':
            if f.attr == 'ones' and len(e.args) == 1 and len(e.keywords) == 1 and e.keywords[0].arg == 'dtype' \
                    and isinstance(e.keywords[0].value, ast.Name) and e.keywords[0].value.id == 'bool':
                return f'(← NV.onesBool {self.expr(e.args[0])})'
            if f.attr in NP_CALLS and len(e.args) == 1 and not e.keywords:
                return f'(← {NP_CALLS[f.attr]} {self.expr(e.args[0])})'
            raise Untranslatable(f'np.{f.attr}')
        if isinstance(f, ast.Attribute) and f.attr == 'issuperset' and len(e.args) == 1 and not e.keywords:
            return f'(← NV.issuperset {self.expr(f.value)} {self.expr(e.args[0])})'
        if isinstance(f, ast.Name) and not e.keywords and f.id not in self.known and f.id not in self.callable_params:
            a = e.args
            if f.id == 'set' and len(a) == 1:
                return f'(← NV.set {self.expr(a[0])})'
            if f.id == '_iter' and len(a) == 1:
                return f'(← NV.iter {self.expr(a[0])})'
            if f.id == 'len' and len(a) == 1:
                return f'(← NV.len {self.expr(a[0])})'
            if f.id == 'range' and len(a) == 2:
                return f'(← V.pyRange {self.expr(a[0])} {self.expr(a[1])} (V.int 1))'
            if f.id == 'OrderedDict' and not a:
                return '(V.dict V.nil)'
        return super().call(e)

    def assign_to(self, target, value_term, ind):
        if isinstance(target, ast.Subscript) and not isinstance(target.slice, ast.Slice):
            t = self.fresh()
            out = [f'{ind}let {t} := (← NV.setItem {self.expr(target.value)} {self.expr(target.slice)} {value_term})']
            return out + self.assign_to(target.value, t, ind)
        return super().assign_to(target, value_term, ind)


def prefix_until_assign(fn, name):
    """the function cut after its first TOP-LEVEL `name = …`, returning `name`"""
    body = []
    for s in fn.body:
        body.append(s)
        if isinstance(s, ast.Assign) and len(s.targets) == 1 and isinstance(s.targets[0], ast.Name) \
                and s.targets[0].id == name:
            body.append(ast.Return(value=ast.Name(id=name, ctx=ast.Load())))
            fn.body = body
            return ast.fix_missing_locations(fn)
    raise Untranslatable(f'{fn.name}: no top-level assignment to {name}')


def method_node(obj, prefix_var=None):
    src = textwrap.dedent(inspect.getsource(obj))
    fn = ast.parse(src).body[0]
    if not isinstance(fn, ast.FunctionDef):
        raise Untranslatable('not a function definition')
    if prefix_var:
        fn = prefix_until_assign(fn, prefix_var)
    selfname = fn.args.args[0].arg if fn.args.args and fn.args.args[0].arg == 'self' else None
    rw = _MethodRewrite(selfname)
    fn.body = [rw.visit(s) for s in fn.body]
    rest = fn.args.args[1:] if selfname else fn.args.args
    fn.args.args = [ast.arg(arg=n) for n in rw.added] + rest
    fn = ast.fix_missing_locations(_Desugar().visit(fn))
    fn = ast.fix_missing_locations(_WriteBack().visit(fn))
    fn = ast.fix_missing_locations(_IterRewrite().visit(fn))
    return fn, src


def translate_methods(objs, namespace, header, known=None, imports=()):
    """objs: list of (python function / method, lean name, prefix_var or None) in dependency order; `known`:
    already translated functions {python name: (lean name, {callable positions}, {defaults}, nparams)}"""
    known = dict(known or {})
    out = ['import NibabelModel.Basic.PyVal', 'import NibabelModel.Model.C20_Py'] + list(imports) + \
          [header, 'set_option linter.unusedVariables false', f'namespace {namespace}',
           'open Nb.Py', 'open Nb.C20', '']
    sigs = {}
    for obj, lname, prefix_var in objs:
        fn, src = method_node(obj, prefix_var)
        tr = C20Translator(fn, known)
        first = src.strip().splitlines()[0].strip()
        what = f'the statements of `{first}` up to `{prefix_var} = …`' if prefix_var else f'`{first}`'
        out.append(tr.translate(lean_name=lname, doc=f'translated from {what} (nibabel.parrec)'))
        out.append('')
        sigs[lname] = [(p, tr.callable_params.get(p)) for p in tr.params]
        if not any(p.startswith('self_') or p.startswith('np_') for p in tr.params):
            dflt = {}
            for i, p in enumerate(tr.params):
                d = tr.defaults.get(p)
                if isinstance(d, ast.Constant) and (d.value is None or isinstance(d.value, (bool, int))):
                    dflt[i] = tr.expr(d)
            known[fn.name] = (tr.nm(lname), {}, dflt, len(tr.params))
    out.append(f'end {namespace}')
    out.append('')
    return '\n'.join(out), sigs
