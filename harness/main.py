"""Entry point: ./check <PID> [--tier quick|thorough] [--replay <path>]"""
import argparse
import os
import subprocess
import sys

sys.path.insert(0, os.path.dirname(os.path.abspath(__file__)))
import common  # noqa: E402


def main():
    ap = argparse.ArgumentParser()
    ap.add_argument('pid')
    ap.add_argument('--tier', default=os.environ.get('VERIF_TIER', 'quick'), choices=['quick', 'thorough'])
    ap.add_argument('--replay')
    a = ap.parse_args()
    seed = int(os.environ.get('VERIF_SEED', '0') or 0)
    try:
        rc = common.run_property(a.pid, a.tier, seed, a.replay)
    except subprocess.TimeoutExpired as e:
        print('INFRASTRUCTURE: timeout ' + str(e)[:300])
        rc = 2
    sys.exit(rc)


if __name__ == '__main__':
    main()
