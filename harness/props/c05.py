"""C05 — reorienting, canonicalising and slicing keep each voxel at its world position.

nibabel/spatialimages.py (SpatialFirstSlicer, as_reoriented), nibabel/orientations.py,
nibabel/funcs.py (as_closest_canonical), nibabel/nifti1.py (as_reoriented dim_info)."""
import ast
import io
import itertools
import os
from fractions import Fraction

import numpy as np

from common import Case, errname, write_if_changed, LEAN, REPO

PID = 'C05'
LEAN_TARGETS = ['NibabelModel.Props.C05']
THEOREMS = [
    'Nb.C05.slice_axis_src',
    'Nb.C05.scaleShift_apply_ring',
    'Nb.C05.slicer_world',
    'Nb.C05.slicer_orig_counterexample',
    'Nb.C05.reorient_world',
    'Nb.C05.reorient_injective',
    'Nb.C05.reorient_size',
    'Nb.C05.dim_info_follows',
    'Nb.C05.allOrnts3_valid',
    'Nb.C05.ornt_axcodes_roundtrip',
    'Nb.C05.ornt_transform_inverse',
    'Nb.C05.inv_ornt_aff_inverse',
    'Nb.C05.io_greedy_dominant',
    'Nb.C05.canonical_idempotent',
    'Nb.C05.canonical_second_is_self',
    'Nb.C05.slicer_triple_ok',
    'Nb.C05.slicer_rejects_spatial_scalar',
    'Nb.C05.io_orientation_injective',
    'Nb.C05.io_orientation_valid',
    'Nb.C05.canonical_world',
    'Nb.C05.gen_consts_ok',
]
ASSUMPTIONS = [
    'hand-written Lean model of SpatialFirstSlicer / as_reoriented / orientations.py / as_closest_canonical '
    '(Model/C05.lean), tied to the code by the differential correspondence run (new shape, new affine as exact '
    'integers, source voxel of every output voxel, dim_info, error class) on every case of this run',
    'arrays are identified with gathers (output index -> source index); NumPy basic indexing, np.flip, '
    'ndarray.transpose and np.argsort are the reference semantics (the oracle locates source voxels through '
    'unique voxel values and checks values against NumPy indexing)',
    'affines are integer matrices (exact in float64); the theorems are over Int, the algebraic core of '
    'slice_affine also over any commutative ring (scaleShift_apply_ring)',
    'numpy.linalg.svd inside io_orientation is NOT modelled: the polar factor R (orientations.py:56-71) is '
    'recomputed by the harness with the same NumPy calls and handed to the model as exact scaled integers; '
    'canonical_idempotent assumes the polar factor of A.P is R.P for a signed permutation P (stated in Props/C05); '
    'the world-position clause of as_closest_canonical (canonical_world) and io_orientation_injective/_valid hold '
    'for EVERY matrix R, i.e. do not depend on what the SVD returned',
    'image class, on-disk dtype, byte order, array-vs-proxy, dtype of the ornt array and the sform/qform codes of '
    'the input header (incl. 0/0, where the header carries no transform) are not inputs of the model: the '
    'correspondence asserts on every case that the real result does not depend on them',
    'default axis labels, the identity-orientation literal, the constants of center_trans and the ornt column of '
    'the dim_info remap are read from the working tree on every run (Generated/C05.lean, gen_consts_ok)',
    'Basic/PySlice is a specification of CPython slice semantics (validated by the C06 check against slice.indices)',
    'fileslice.canonical_slicers is modelled in Model/C06.lean (re-used)',
]
RULE = ('streams: slicer exhaustive single-axis slice triples (start/stop in [-n-2,n+2]|None, step in +-1..3|None) for '
        'n<=4; random 3-D..5-D shapes x oblique integer affines x slice triples on all spatial axes + int/slice/'
        'newaxis/Ellipsis on the other axes; malformed slicers (ints/newaxis on spatial axes, zero step, too many '
        'indices); as_reoriented over all 48 signed permutations x shapes x affines x dim_info (+NaN rows); '
        'as_closest_canonical on oblique integer affines and signed-permutation x zoom affines (+singular, '
        'enforce_diag); io_orientation on float affines (signed permutation x power-of-two zooms, oblique, ties, '
        'non-square, zero columns); orientation utilities exhaustively over the 48 (48x48 for ornt_transform) + '
        'random n-D and malformed; *-config streams: the same three operations over image classes (Nifti1/2, pair, '
        'MGH, SPM, Analyze, array or proxy re-loaded from bytes, byte-swapped), on-disk dtypes, ornt dtypes and all '
        'combinations of sform/qform code 0/non-0 (with the header fallback affine when both are 0); chain: 2-4 step '
        'histories of reorient / slice / canonicalise / reorient-to-axis-codes (io_orientation + axcodes2ornt + '
        'ornt_transform) on one image (oracle only). A case is non-trivial unless the slicer is all-full-slices / the orientation is '
        'the identity; distinct by (op, shape, affine, index/orientation).')

IMG_CLASSES = ('n1', 'n2', 'mgh', 'spm', 'n1p', 'n2p', 'mghp', 'pair', 'ana')
# n1p / n2p / mghp = re-loaded from bytes (array proxy); pair = Nifti1Pair; ana = AnalyzeImage
NO_DIM = ('mgh', 'spm', 'mghp', 'ana')     # classes without dim_info
NIFTI = ('n1', 'n2', 'n1p', 'n2p', 'pair')
OPT_KEYS = ('codes', 'dt', 'swap', 'odt')   # image configuration that must NOT influence the result:
#   codes = [sform_code, qform_code] of the input header (0/0 = no transform in the header),
#   dt = on-disk dtype, swap = byte-swapped header (proxies), odt = dtype of the `ornt` array


# ------------------------------------------------------------------ constants regenerated from the source

def _func(tree, name, cls=None):
    body = tree.body
    if cls is not None:
        body = next(n for n in tree.body if isinstance(n, ast.ClassDef) and n.name == cls).body
    return next(n for n in body if isinstance(n, ast.FunctionDef) and n.name == name)


def _zip_labels(fn):
    """the default `labels = list(zip('LPI', 'RAS'))` of ornt2axcodes / axcodes2ornt"""
    for n in ast.walk(fn):
        if isinstance(n, ast.Call) and getattr(n.func, 'id', None) == 'zip' and len(n.args) == 2 and \
                all(isinstance(a, ast.Constant) and isinstance(a.value, str) for a in n.args):
            return list(zip(n.args[0].value, n.args[1].value))
    return []


def regen():
    """Generated/C05.lean: the constants the orientation theorems rest on, read from the working tree:
    default axis labels (both functions), the identity-orientation literal of `as_reoriented`, the
    constants of `center_trans = -(shape - 1) / 2.0` (inv_ornt_aff), the column of `ornt` used by the
    dim_info remap.  A shape of the source that cannot be read gives a sentinel that fails
    `gen_consts_ok`."""
    def parse(rel):
        with open(os.path.join(REPO, 'nibabel', rel)) as f:
            return ast.parse(f.read())
    lab1, lab2, ident, csub, cdiv, dimcol = [], [], [], -1, -1, 99
    try:
        t = parse('orientations.py')
        lab1 = _zip_labels(_func(t, 'ornt2axcodes'))
        lab2 = _zip_labels(_func(t, 'axcodes2ornt'))
        for n in ast.walk(_func(t, 'inv_ornt_aff')):
            if isinstance(n, ast.Assign) and getattr(n.targets[0], 'id', None) == 'center_trans':
                v = n.value      # -(shape - 1) / 2.0
                if isinstance(v, ast.BinOp) and isinstance(v.op, ast.Div) and isinstance(v.right, ast.Constant) and \
                        isinstance(v.left, ast.UnaryOp) and isinstance(v.left.op, ast.USub) and \
                        isinstance(v.left.operand, ast.BinOp) and isinstance(v.left.operand.op, ast.Sub) and \
                        isinstance(v.left.operand.right, ast.Constant) and float(v.right.value).is_integer():
                    csub, cdiv = int(v.left.operand.right.value), int(v.right.value)
        t = parse('spatialimages.py')
        for n in ast.walk(_func(t, 'as_reoriented', 'SpatialImage')):
            if isinstance(n, ast.Call) and getattr(n.func, 'attr', None) == 'array_equal' and len(n.args) == 2:
                ident = ast.literal_eval(n.args[1])
        t = parse('nifti1.py')
        for n in ast.walk(_func(t, 'as_reoriented', 'Nifti1Pair')):
            if isinstance(n, ast.Subscript) and getattr(n.value, 'id', None) == 'ornt' and \
                    isinstance(n.slice, ast.Tuple) and len(n.slice.elts) == 2 and isinstance(n.slice.elts[1], ast.Constant):
                dimcol = int(n.slice.elts[1].value)
    except Exception:
        pass

    def labs(l):
        return '[' + ', '.join("('%s', '%s')" % (a, b) for a, b in l if len(a) == 1 and len(b) == 1 and a.isalnum() and b.isalnum()) + ']'
    try:
        ident_s = '[' + ', '.join('(%d, %d)' % (int(a), int(b)) for a, b in ident) + ']'
    except Exception:
        ident_s = '[]'
    src = ('/-! GENERATED from the nibabel working tree by harness/props/c05.py (regen) — do not edit by hand. -/\n'
           'namespace Nb.C05.Gen\n'
           "/-- default `labels` of `ornt2axcodes` (orientations.py) -/\n"
           f'def labelsOrnt2ax : List (Char × Char) := {labs(lab1)}\n'
           "/-- default `labels` of `axcodes2ornt` (orientations.py) -/\n"
           f'def labelsAx2ornt : List (Char × Char) := {labs(lab2)}\n'
           '/-- the literal `as_reoriented` compares `ornt` with before returning `self` (spatialimages.py) -/\n'
           f'def identityOrnt : List (Nat × Int) := {ident_s}\n'
           '/-- `center_trans = -(shape - centerSub) / centerDiv` (inv_ornt_aff) -/\n'
           f'def centerSub : Int := {csub}\n'
           f'def centerDiv : Int := {cdiv}\n'
           '/-- column of `ornt` read by the dim_info remap `int(ornt[orig_dim, col])` (nifti1.py) -/\n'
           f'def dimInfoCol : Nat := {dimcol}\n'
           'end Nb.C05.Gen\n')
    write_if_changed(os.path.join(LEAN, 'NibabelModel', 'Generated', 'C05.lean'), src)
    return []


# ------------------------------------------------------------------ formatting

def _fmt_o(v):
    return '_' if v is None else str(int(v))


def fmt_item(it):
    if it is None:
        return 'n'
    if it is Ellipsis:
        return 'e'
    if isinstance(it, slice):
        return 's' + ','.join(_fmt_o(v) for v in (it.start, it.stop, it.step))
    return 'i%d' % int(it)


def fmt_idx(idx):
    return ';'.join(fmt_item(i) for i in idx) if idx else '-'


def item_to_data(it):
    if it is None:
        return 'newaxis'
    if it is Ellipsis:
        return 'ellipsis'
    if isinstance(it, slice):
        return [it.start, it.stop, it.step]
    return int(it)


def item_from_data(d):
    if d == 'newaxis':
        return None
    if d == 'ellipsis':
        return Ellipsis
    if isinstance(d, list):
        return slice(*d)
    return int(d)


def fmt_num(x):
    x = float(x)
    if x != x:
        return 'nan'
    if x.is_integer():
        return str(int(x))
    return str(Fraction(x))


def fmt_list(l):
    return '[' + ','.join(str(v) for v in l) + ']'


def fmt_aff(a):
    a = np.asarray(a)
    tail = '' if a.shape == (4, 4) and list(a[3]) == [0, 0, 0, 1] else '!lastrow'
    return '[' + ','.join(fmt_num(v) for v in a[:3].ravel()) + ']' + tail


def fmt_ornt(o):
    o = np.asarray(o)
    if o.shape[0] == 0:
        return '-'
    rows = []
    for ax, fl in o:
        rows.append('nan' if (ax != ax or fl != fl) else f'{fmt_num(ax)},{fmt_num(fl)}')
    return ';'.join(rows)


def ornt_arg(o):
    """orientation (list of [ax, flip] or None rows) -> protocol token"""
    if not o:
        return '-'
    return ';'.join('nan' if r is None else f'{int(r[0])},{int(r[1])}' for r in o)


def ornt_np(o):
    return np.array([[np.nan, np.nan] if r is None else [float(r[0]), float(r[1])] for r in o]).reshape(len(o), 2)


def fmt_dim(d):
    return ','.join('_' if v is None else str(int(v)) for v in d)


def aff_arg(aff12):
    return ','.join(str(int(v)) for v in aff12)


def aff44(aff12):
    return np.vstack([np.array(aff12, dtype=float).reshape(3, 4), [0, 0, 0, 1]])


# ------------------------------------------------------------------ cases

def _opts(data, opts):
    for k in OPT_KEYS:
        if opts and opts.get(k) is not None:
            data[k] = opts[k]
    return tuple((k, str(data[k])) for k in OPT_KEYS if k in data)


def mk_slice(shape, aff12, idx, cls='n1', stream='slicer', opts=None):
    line = f'C05 slice {",".join(map(str, shape))} {aff_arg(aff12)} {fmt_idx(idx)}'
    data = {'op': 'slice', 'shape': list(shape), 'aff': [int(v) for v in aff12],
            'idx': [item_to_data(i) for i in idx], 'cls': cls, 'stream': stream}
    ok = _opts(data, opts)
    trivial = all(isinstance(i, slice) and i == slice(None) for i in idx)
    key = None if trivial else ('slice', tuple(shape), tuple(aff12), fmt_idx(idx), cls, ok)
    return Case(line, data, key, stream)


def mk_reor(shape, aff12, ornt, dim, cls='n1', stream='reorient', opts=None):
    if cls in NO_DIM:
        dim = [None, None, None]
    line = f'C05 reor {",".join(map(str, shape))} {aff_arg(aff12)} {ornt_arg(ornt)} {fmt_dim(dim)}'
    data = {'op': 'reor', 'shape': list(shape), 'aff': [int(v) for v in aff12], 'ornt': ornt, 'dim': list(dim),
            'cls': cls, 'stream': stream}
    ok = _opts(data, opts)
    trivial = ornt == [[0, 1], [1, 1], [2, 1]]
    key = None if trivial else ('reor', tuple(shape), tuple(aff12), ornt_arg(ornt), fmt_dim(dim), cls, ok)
    return Case(line, data, key, stream)


def polar_R(affine):
    """the polar factor exactly as io_orientation computes it (orientations.py:54-71) — the external
    (SVD) part that the model takes as a parameter"""
    import numpy.linalg as npl
    affine = np.asarray(affine)
    q, p = affine.shape[0] - 1, affine.shape[1] - 1
    RZS = affine[:q, :p]
    zooms = np.sqrt(np.sum(RZS * RZS, axis=0))
    zooms[zooms == 0] = 1
    RS = RZS / zooms
    P, S, Qs = npl.svd(RS, full_matrices=False)
    tol = S.max() * max(RS.shape) * np.finfo(S.dtype).eps
    keep = S > tol
    return np.dot(P[:, keep], Qs[keep])


def scale_R(R):
    """float matrix -> (flat exact integers R*2^K, floor(1e-8*2^K)); None if not finite"""
    if not np.all(np.isfinite(R)):
        return None
    fr = [Fraction(float(v)) for v in np.asarray(R).ravel()]
    scale = max([f.denominator for f in fr] + [1])
    ints = [int(f * scale) for f in fr]
    tol = (Fraction(1e-8) * scale).__floor__()
    return ints, int(tol)


def mk_canon(shape, aff12, dim, enforce, cls='n1', stream='canonical', opts=None):
    if cls in NO_DIM:
        dim = [None, None, None]
    sc = scale_R(polar_R(aff44(aff12)))
    line = None
    if sc is not None:
        line = (f'C05 canon {",".join(map(str, shape))} {aff_arg(aff12)} {",".join(map(str, sc[0]))} {sc[1]} '
                f'{fmt_dim(dim)} {int(enforce)}')
    data = {'op': 'canon', 'shape': list(shape), 'aff': [int(v) for v in aff12], 'dim': list(dim),
            'enforce': int(enforce), 'cls': cls, 'stream': stream}
    ok = _opts(data, opts)
    return Case(line, data, ('canon', tuple(shape), tuple(aff12), fmt_dim(dim), int(enforce), cls, ok), stream)


def mk_chain(shape, aff12, dim, steps, cls='n1', stream='chain', opts=None):
    """a history of operations on one image (oracle only): steps = ['r', ornt] | ['s', idx-data] | ['c'] |
    ['x', axcodes] (reorient to the named axis codes through io_orientation + axcodes2ornt + ornt_transform)"""
    if cls in NO_DIM:
        dim = [None, None, None]
    data = {'op': 'chain', 'shape': list(shape), 'aff': [int(v) for v in aff12], 'dim': list(dim),
            'steps': steps, 'cls': cls, 'stream': stream}
    ok = _opts(data, opts)
    return Case(None, data, ('chain', tuple(shape), tuple(aff12), fmt_dim(dim), repr(steps), cls, ok), stream)


def mk_ioor(aff_rows, stream='io_orientation'):
    """aff_rows: (q+1) x (p+1) list of floats given as hex strings (exact)"""
    aff = np.array([[float.fromhex(v) for v in row] for row in aff_rows])
    q, p = aff.shape[0] - 1, aff.shape[1] - 1
    line = None
    try:
        sc = scale_R(polar_R(aff))
    except Exception:
        sc = None
    if sc is not None:
        line = f'C05 ioor {q} {p} {",".join(map(str, sc[0])) if sc[0] else "-"} {sc[1]}'
    data = {'op': 'ioor', 'aff': [list(r) for r in aff_rows], 'stream': stream}
    return Case(line, data, ('ioor', tuple(tuple(r) for r in aff_rows)), stream)


def mk_util(op, args, stream='ornt-utils'):
    """op in orn2ax (ornt), ax2orn (codes str), otrans (a, b), invaff (ornt, shape)"""
    if op == 'orn2ax':
        line = f'C05 orn2ax {ornt_arg(args["ornt"])}'
    elif op == 'ax2orn':
        line = f'C05 ax2orn {args["codes"] or "-"}'
    elif op == 'otrans':
        line = f'C05 otrans {ornt_arg(args["a"])} {ornt_arg(args["b"])}'
    elif op == 'invaff':
        line = f'C05 invaff {ornt_arg(args["ornt"])} {",".join(map(str, args["shape"]))}'
    else:
        raise ValueError(op)
    data = dict(args)
    data.update(op=op, stream=stream)
    return Case(line, data, (op, line), stream)


def case_from_data(d):
    op = d['op']
    st = d.get('stream')
    opts = {k: d[k] for k in OPT_KEYS if k in d}
    if op == 'slice':
        return mk_slice(tuple(d['shape']), d['aff'], tuple(item_from_data(i) for i in d['idx']), d.get('cls', 'n1'),
                        st or 'slicer', opts)
    if op == 'reor':
        return mk_reor(tuple(d['shape']), d['aff'], d['ornt'], d['dim'], d.get('cls', 'n1'), st or 'reorient', opts)
    if op == 'canon':
        return mk_canon(tuple(d['shape']), d['aff'], d['dim'], d['enforce'], d.get('cls', 'n1'), st or 'canonical',
                        opts)
    if op == 'chain':
        return mk_chain(tuple(d['shape']), d['aff'], d['dim'], d['steps'], d.get('cls', 'n1'), st or 'chain', opts)
    if op == 'ioor':
        return mk_ioor(d['aff'], st or 'io_orientation')
    return mk_util(op, {k: v for k, v in d.items() if k not in ('op', 'stream')}, st or 'ornt-utils')


# ------------------------------------------------------------------ implementation side

def make_img(d):
    """the input image of a case.  Everything except shape / affine / dim_info is CONFIGURATION the result
    must not depend on: image class, on-disk dtype, header sform/qform codes, byte order, proxy or array"""
    import nibabel as nib
    shape = tuple(d['shape'])
    n = int(np.prod(shape))
    dt = np.dtype(d.get('dt', 'i4'))
    if dt == np.uint8 and n > 256:
        dt = np.dtype('i2')
    data = np.arange(n).astype(dt).reshape(shape)
    aff = aff44(d['aff'])
    cls = d.get('cls', 'n1')
    if cls in ('mgh', 'mghp') and len(shape) <= 4:
        if dt.str[1:] not in ('u1', 'i2', 'i4', 'f4'):
            data = data.astype(np.int32)
        img = nib.MGHImage(data, aff)
        if cls == 'mghp':
            try:       # (MGH cannot serialise a 4-D shape with a trailing axis of length 1: keep the array image)
                p = nib.MGHImage.from_bytes(img.to_bytes())
            except Exception:
                p = None
            if p is not None and np.array_equal(p.affine, aff) and tuple(p.shape) == shape:
                img = p
        return img
    if cls in ('spm', 'ana', 'mgh', 'mghp'):
        if dt.str[1:] not in ('u1', 'i2', 'i4', 'f4', 'f8'):
            data = data.astype(np.int32)
        return (nib.AnalyzeImage if cls == 'ana' else nib.Spm2AnalyzeImage)(data, aff)
    klass = {'n2': nib.Nifti2Image, 'n2p': nib.Nifti2Image, 'pair': nib.Nifti1Pair}.get(cls, nib.Nifti1Image)
    img = klass(data, aff)
    if 'dim' in d:
        img.header.set_dim_info(*d['dim'])
    codes = d.get('codes')
    if codes is not None:
        # header-level setters: the image affine stays `aff`; with sform_code 0 the header's best affine is
        # the (shear-stripped) qform or, with both 0, the shape/zoom fallback
        hdr = img.header
        hdr.set_sform(aff, code=int(codes[0]))
        try:
            hdr.set_qform(aff, code=int(codes[1]))
        except Exception:
            hdr['qform_code'] = int(codes[1])
    if d.get('swap') and cls in ('n1p', 'n2p'):
        img = klass(data, aff, img.header.as_byteswapped())
    if cls in ('n1p', 'n2p'):
        p = klass.from_bytes(img.to_bytes())
        if np.array_equal(p.affine, aff) and tuple(p.shape) == shape:      # (a qform-only header reloads with a rounded affine: keep the array image)
            img = p
    return img


def get_dim(img):
    try:
        return list(img.header.get_dim_info())
    except AttributeError:
        return [None, None, None]


def data_list(img):
    return [int(v) for v in np.asanyarray(img.dataobj).ravel()]


def impl(case):
    d = case.data
    op = d['op']
    from nibabel import orientations as ort
    if op == 'slice':
        img = make_img(d)
        idx = tuple(item_from_data(i) for i in d['idx'])
        case.extra = {'img': img}
        try:
            out = img.slicer[idx]
        except (IndexError, ValueError) as e:
            return errname(e)
        case.extra['out'] = out
        return f'ok {fmt_list(out.shape)} {fmt_aff(out.affine)} {fmt_list(data_list(out))}'
    if op == 'reor':
        img = make_img(d)
        case.extra = {'img': img}
        try:
            o = ornt_np(d['ornt'])
            if d.get('odt') and not any(r is None for r in d['ornt']):
                o = o.astype(d['odt'])
            out = img.as_reoriented(o)
        except (ort.OrientationError, ValueError, IndexError) as e:
            return errname(e)
        case.extra['out'] = out
        dim = get_dim(out) if d.get('cls', 'n1') not in NO_DIM else [None] * 3
        return (f'ok same={int(out is img)} {fmt_list(out.shape)} {fmt_aff(out.affine)} {fmt_list(data_list(out))} '
                f'{fmt_dim(dim)}')
    if op == 'canon':
        import nibabel as nib
        img = make_img(d)
        case.extra = {'img': img}
        o = ort.io_orientation(img.affine)
        try:
            out = nib.as_closest_canonical(img, enforce_diag=bool(d['enforce']))
        except (ort.OrientationError, ValueError, IndexError) as e:
            return f'{fmt_ornt(o)} {errname(e)}'
        case.extra['out'] = out
        dim = get_dim(out) if d.get('cls', 'n1') not in NO_DIM else [None] * 3
        return (f'ok {fmt_ornt(o)} same={int(out is img)} {fmt_list(out.shape)} {fmt_aff(out.affine)} '
                f'{fmt_list(data_list(out))} {fmt_dim(dim)}')
    if op == 'chain':
        import nibabel as nib
        img = make_img(d)
        case.extra = {'img': img, 'targets': []}
        cur = img
        try:
            for st in d['steps']:
                if st[0] == 'r':
                    cur = cur.as_reoriented(ornt_np(st[1]))
                elif st[0] == 's':
                    cur = cur.slicer[tuple(item_from_data(i) for i in st[1])]
                elif st[0] == 'c':
                    cur = nib.as_closest_canonical(cur)
                elif st[0] == 'x':
                    t = ort.ornt_transform(ort.io_orientation(cur.affine), ort.axcodes2ornt(tuple(st[1])))
                    cur = cur.as_reoriented(t)
                    case.extra['targets'].append((st[1], ''.join(ort.aff2axcodes(cur.affine))))
                else:
                    raise ValueError(st)
        except (ort.OrientationError, ValueError, IndexError, TypeError) as e:
            return errname(e)
        case.extra['out'] = cur
        dim = get_dim(cur) if d.get('cls', 'n1') not in NO_DIM else [None] * 3
        return f'ok {fmt_list(cur.shape)} {fmt_aff(cur.affine)} {fmt_list(data_list(cur))} {fmt_dim(dim)}'
    if op == 'ioor':
        aff = np.array([[float.fromhex(v) for v in row] for row in d['aff']])
        try:
            return fmt_ornt(ort.io_orientation(aff))
        except Exception as e:
            return errname(e)
    if op == 'orn2ax':
        try:
            cs = ort.ornt2axcodes(ornt_np(d['ornt']))
        except (ValueError, IndexError) as e:
            return errname(e)
        return ''.join('_' if c is None else c for c in cs) or '-'
    if op == 'ax2orn':
        try:
            return fmt_ornt(ort.axcodes2ornt(tuple(None if c == '_' else c for c in d['codes'])))
        except (ValueError, IndexError) as e:
            return errname(e)
    if op == 'otrans':
        try:
            return fmt_ornt(ort.ornt_transform(ornt_np(d['a']), ornt_np(d['b'])))
        except (ValueError, IndexError) as e:
            return errname(e)
    if op == 'invaff':
        try:
            return fmt_aff(ort.inv_ornt_aff(ornt_np(d['ornt']), d['shape']))
        except (ort.OrientationError, ValueError, IndexError) as e:
            return errname(e)
    raise ValueError(op)


# ------------------------------------------------------------------ oracle

def _world(aff, ijk):
    """exact world coordinates of voxel ijk (integer-valued affines): tuple of Fractions"""
    return tuple(sum(Fraction(float(aff[r, c])) * int(ijk[c]) for c in range(3)) + Fraction(float(aff[r, 3]))
                 for r in range(3))


def check_voxels(old_img, new_img, what):
    """every output voxel keeps value's world position: locate the source voxel through its unique value"""
    old_shape = old_img.shape
    new = np.asanyarray(new_img.dataobj)
    old_aff, new_aff = np.asarray(old_img.affine, dtype=float), np.asarray(new_img.affine, dtype=float)
    if new_aff.shape != (4, 4) or list(new_aff[3]) != [0, 0, 0, 1]:
        return f'{what}: new affine is not a homogeneous 4x4: {new_aff.tolist()}'
    if tuple(new.shape) != tuple(new_img.shape):
        return f'{what}: image shape {new_img.shape} != data shape {new.shape}'
    n_old = int(np.prod(old_shape))
    for j in np.ndindex(*new.shape):
        v = int(new[j])
        if not 0 <= v < n_old:
            return f'{what}: output voxel {j} holds {v}, not a value of the input'
        src = np.unravel_index(v, old_shape)
        if len(j) < 3:
            return f'{what}: output has fewer than three axes: shape {new.shape}'
        w_new, w_old = _world(new_aff, j[:3]), _world(old_aff, src[:3])
        if w_new != w_old:
            return (f'{what}: output voxel {tuple(int(x) for x in j)} (value {v}) is at world '
                    f'{tuple(str(x) for x in w_new)} but its source voxel {tuple(int(x) for x in src)} was at '
                    f'{tuple(str(x) for x in w_old)}')
    return None


def is_signed_perm(aff):
    rzs = np.asarray(aff)[:3, :3]
    return bool(np.all((rzs != 0).sum(axis=0) == 1) and np.all((rzs != 0).sum(axis=1) == 1))


def expected_slicer_success(shape, idx):
    """True/False/None: must img.slicer[idx] succeed?  (None = not decided by the property)"""
    arr = np.empty(shape, dtype=np.int8)
    try:
        res = arr[idx]
    except (IndexError, ValueError):
        return False
    # spatial axes must be indexed by slices, before any newaxis
    n_real = 0
    items = list(idx)
    if any(i is Ellipsis for i in items):
        k = [i is Ellipsis for i in items].index(True)
        real_after = sum(1 for i in items[k + 1:] if i is not None)
        real_before = sum(1 for i in items[:k] if i is not None)
        items = items[:k] + [slice(None)] * (len(shape) - real_after - real_before) + items[k + 1:]
    for it in items:
        if n_real >= 3:
            break
        if it is None or not isinstance(it, slice):
            return False
        n_real += 1
    if 0 in res.shape:
        return False
    return True


def oracle(case, out):
    d = case.data
    op = d['op']
    from nibabel import orientations as ort
    ex = case.extra or {}
    if op == 'slice':
        shape = tuple(d['shape'])
        idx = tuple(item_from_data(i) for i in d['idx'])
        want_ok = expected_slicer_success(shape, idx)
        if out.startswith('ERR'):
            if want_ok:
                return f'img.slicer{list(idx)} on shape {shape} raised {out} for a valid non-empty spatial crop'
            return None
        if not out.startswith('ok '):
            return f'unexpected outcome {out[:100]}'
        if want_ok is False:
            return f'img.slicer{list(idx)} on shape {shape} returned an image where an error is documented: {out[:100]}'
        img, new = ex['img'], ex['out']
        ref = np.arange(int(np.prod(shape)), dtype=np.int32).reshape(shape)[idx]
        got = np.asanyarray(new.dataobj)
        if got.shape != ref.shape or not np.array_equal(got, ref):
            return f'slicer data differ from NumPy indexing: shape={shape} idx={list(idx)}'
        bad = check_voxels(img, new, f'slicer shape={shape} idx={list(idx)} affine={d["aff"]}')
        if bad:
            return bad
        if not np.array_equal(np.asanyarray(img.dataobj), np.arange(int(np.prod(shape))).reshape(shape)) or \
                not np.array_equal(img.affine, aff44(d['aff'])):
            return 'slicer modified the original image'
        return None
    if op in ('reor', 'canon'):
        shape = tuple(d['shape'])
        if op == 'reor':
            ornt = d['ornt']
            has_nan = any(r is None for r in ornt)
            if out.startswith('ERR'):
                return None if has_nan else f'as_reoriented({ornt}) raised {out} for a valid orientation'
            if has_nan:
                return f'as_reoriented with a dropped axis returned an image: {out[:80]}'
            what = f'as_reoriented shape={shape} ornt={ornt} affine={d["aff"]}'
        else:
            if ' ERR' in out or out.startswith('ERR'):
                rzs = aff44(d['aff'])[:3, :3]
                if abs(np.linalg.det(rzs)) > 0.5 and not d['enforce']:
                    return f'as_closest_canonical raised on a non-singular affine: {out}'
                return None
            what = f'as_closest_canonical shape={shape} affine={d["aff"]}'
        img, new = ex['img'], ex['out']
        got = np.asanyarray(new.dataobj)
        if got.size != int(np.prod(shape)) or len(set(got.ravel().tolist())) != got.size:
            return f'{what}: voxels lost or duplicated (output shape {got.shape})'
        bad = check_voxels(img, new, what)
        if bad:
            return bad
        # non-spatial axes follow their axes
        for j in np.ndindex(*got.shape):
            src = np.unravel_index(int(got[j]), shape)
            if tuple(j[3:]) != tuple(int(x) for x in src[3:]):
                return f'{what}: non-spatial index changed: output {j} holds source voxel {src}'
        # frequency / phase / slice labels follow their axes: the labelled axis keeps its world direction
        if d.get('cls', 'n1') not in NO_DIM and new is not img:
            old_dim, new_dim = list(d['dim']), get_dim(new)
            oa, na = np.asarray(img.affine), np.asarray(new.affine)
            for name, od, nd_ in zip(('freq', 'phase', 'slice'), old_dim, new_dim):
                if (od is None) != (nd_ is None):
                    return f'{what}: {name} label {od} became {nd_}'
                if od is None:
                    continue
                if not (np.array_equal(na[:3, nd_], oa[:3, od]) or np.array_equal(na[:3, nd_], -oa[:3, od])):
                    return (f'{what}: {name} label moved from voxel axis {od} to {nd_}, which is a different '
                            f'world direction ({oa[:3, od].tolist()} vs {na[:3, nd_].tolist()})')
            if get_dim(img) != old_dim:
                return f'{what}: dim_info of the original image changed'
        if op == 'canon':
            # canonicalising twice changes nothing whenever each voxel axis has its own dominant world axis
            import scipy.linalg as spl
            rzs = aff44(d['aff'])[:3, :3]
            if abs(np.linalg.det(rzs)) > 0.5:
                rs = rzs / np.sqrt((rzs * rzs).sum(axis=0))
                U = spl.polar(rs)[0]
                a = np.abs(U)
                rows = a.argmax(axis=0)
                srt = np.sort(a, axis=0)
                dominant = len(set(rows.tolist())) == 3 and np.all(srt[-1] - srt[-2] > 1e-6)
                if dominant:
                    o2 = ort.io_orientation(new.affine)
                    if not np.array_equal(o2, [[0, 1], [1, 1], [2, 1]]):
                        return f'{what}: canonical image still has orientation {o2.tolist()}'
                    import nibabel as nib
                    again = nib.as_closest_canonical(new)
                    if not (np.array_equal(again.affine, new.affine) and
                            np.array_equal(np.asanyarray(again.dataobj), got)):
                        return f'{what}: canonicalising twice changed the image'
                    d2 = np.diag(np.asarray(new.affine)[:3, :3] @ np.eye(3))
                    U2 = spl.polar(np.asarray(new.affine)[:3, :3] /
                                   np.sqrt((np.asarray(new.affine)[:3, :3] ** 2).sum(axis=0)))[0]
                    if not np.all(np.diag(U2) > 0):
                        return f'{what}: canonical affine does not point along +R,+A,+S: {np.asarray(new.affine).tolist()}'
        return None
    if op == 'chain':
        shape = tuple(d['shape'])
        what = f'history {d["steps"]} on shape={shape} affine={d["aff"]} cls={d.get("cls")}'
        if not out.startswith('ok '):
            return f'{what}: a step raised {out} although every step is valid on its own'
        img, new = ex['img'], ex['out']
        bad = check_voxels(img, new, what)
        if bad:
            return bad
        got = np.asanyarray(new.dataobj)
        if len(set(got.ravel().tolist())) != got.size:
            return f'{what}: voxels duplicated'
        only_reor = all(st[0] != 's' for st in d['steps'])
        if only_reor and got.size != int(np.prod(shape)):
            return f'{what}: voxels lost (output shape {got.shape})'
        for want, have in ex.get('targets', []):
            if is_signed_perm(aff44(d['aff'])) and have != want:
                return f'{what}: reoriented to axis codes {want} but the result has axis codes {have}'
        if d.get('cls', 'n1') not in NO_DIM and only_reor and new is not img:
            oa, na = np.asarray(img.affine), np.asarray(new.affine)
            for name, od, nd_ in zip(('freq', 'phase', 'slice'), d['dim'], get_dim(new)):
                if (od is None) != (nd_ is None):
                    return f'{what}: {name} label {od} became {nd_}'
                if od is not None and not (np.array_equal(na[:3, nd_], oa[:3, od]) or
                                           np.array_equal(na[:3, nd_], -oa[:3, od])):
                    return f'{what}: {name} label moved from voxel axis {od} to {nd_}, a different world direction'
        if get_dim(img) != (list(d['dim']) if d.get('cls', 'n1') not in NO_DIM else [None] * 3) or \
                not np.array_equal(img.affine, aff44(d['aff'])):
            return f'{what}: the original image was modified'
        return None
    if op == 'ioor':
        aff = np.array([[float.fromhex(v) for v in row] for row in d['aff']])
        q, p = aff.shape[0] - 1, aff.shape[1] - 1
        # signed permutation x positive zooms: the orientation is known in closed form
        rzs = aff[:q, :p]
        if q == p and np.all(np.isfinite(rzs)) and np.all((rzs != 0).sum(axis=0) == 1) and \
                np.all((rzs != 0).sum(axis=1) == 1):
            want = ';'.join(f'{int(np.flatnonzero(rzs[:, c])[0])},{1 if rzs[:, c].sum() > 0 else -1}' for c in range(p))
            if out != want:
                return f'io_orientation of a signed-permutation-times-zoom affine: got {out} want {want}'
        return None
    if op == 'orn2ax':
        o = d['ornt']
        if out.startswith('ERR') or any(r is None for r in o):
            return None
        codes = tuple(None if c == '_' else c for c in out) if out != '-' else ()
        back = ort.axcodes2ornt(codes)
        if not np.array_equal(back, ornt_np(o).reshape(len(o), 2)):
            return f'axcodes2ornt(ornt2axcodes({o})) = {back.tolist()}'
        return None
    if op == 'ax2orn':
        if out.startswith('ERR') or '_' in d['codes']:
            return None
        codes = tuple(d['codes'])
        back = ort.ornt2axcodes(ort.axcodes2ornt(codes))
        if tuple(back) != codes:
            return f'ornt2axcodes(axcodes2ornt({codes})) = {back}'
        return None
    if op == 'otrans':
        a, b = d['a'], d['b']
        valid = (len(a) == len(b) and sorted(r[0] for r in a) == list(range(len(a))) and
                 sorted(r[0] for r in b) == list(range(len(b))))
        if out.startswith('ERR'):
            return f'ornt_transform raised {out} for valid orientations {a} -> {b}' if valid else None
        if not valid:
            return None
        t = ort.ornt_transform(ornt_np(a), ornt_np(b))
        tb = ort.ornt_transform(ornt_np(b), ornt_np(a))
        n = len(a)
        shape = tuple(range(2, 2 + n))
        arr = np.arange(int(np.prod(shape))).reshape(shape)
        fwd = ort.apply_orientation(arr, t)
        if not np.array_equal(ort.apply_orientation(fwd, tb), arr):
            return f'ornt_transform({a},{b}) followed by ornt_transform({b},{a}) is not the identity'
        if n == 3:
            m = ort.inv_ornt_aff(t, shape).dot(ort.inv_ornt_aff(tb, fwd.shape))
            if not np.array_equal(m, np.eye(4)):
                return f'inv_ornt_aff of ornt_transform({a},{b}) and of its reverse do not compose to the identity'
            # semantics: an image whose orientation is `a` becomes one whose orientation is `b`
            A = np.eye(4)
            A[:3, :3] = 0
            for i, (ax, fl) in enumerate(a):
                A[int(ax), i] = fl * (i + 2)
            A[:3, 3] = [5, -3, 7]
            B = A.dot(ort.inv_ornt_aff(t, shape))
            ob = ort.io_orientation(B)
            if not np.array_equal(ob, ornt_np(b)):
                return f'reorienting an {a} image by ornt_transform({a},{b}) gives orientation {ob.tolist()}'
        return None
    if op == 'invaff':
        if out.startswith('ERR'):
            return f'inv_ornt_aff raised {out}'
        o, shape = ornt_np(d['ornt']), tuple(d['shape'])
        arr = np.arange(int(np.prod(shape))).reshape(shape)
        tarr = ort.apply_orientation(arr, o)
        M = ort.inv_ornt_aff(o, shape)
        for j in np.ndindex(*tarr.shape[:3]):
            src = M.dot(list(j) + [1])[:3]
            if any(x != int(x) or not 0 <= x < n for x, n in zip(src, shape)) or \
                    not np.array_equal(arr[tuple(int(x) for x in src)], tarr[j]):
                return f'inv_ornt_aff({d["ornt"]},{shape}) maps transformed voxel {j} to {src.tolist()}, which holds another value'
        return None
    return None


def signature(case, what):
    d = case.data
    op = d['op']
    if op == 'slice':
        kinds = set()
        for it, n in zip(d['idx'][:3], d['shape'][:3]):
            if isinstance(it, list):
                a, b, c = it
                if (a is None and c is not None and c < 0) or (a is not None and a < 0):
                    kinds.add('negative-or-none-start')
                elif a is not None and a > n:
                    kinds.add('start-out-of-range')
                elif c is not None and c < 0:
                    kinds.add('negative-step')
        if 'negative-or-none-start' in kinds:
            return 'slicer:negative-or-none-start'
        return 'slicer:' + ('+'.join(sorted(kinds)) or 'in-range')
    if op == 'reor':
        return 'reorient:' + ('dim_info' if 'label' in what else 'voxels')
    if op == 'chain':
        return 'history:' + ('axcodes' if 'axis codes' in what else 'dim_info' if 'label' in what else 'voxels')
    if op == 'canon':
        return 'canonical:' + ('twice' if 'twice' in what or 'still has' in what else 'voxels')
    return 'orientations:' + op


def shrink_candidates(case):
    d = case.data
    op = d['op']
    if op not in ('slice', 'reor', 'canon', 'chain'):
        return
    shape = list(d['shape'])
    ident = [1, 0, 0, 0, 0, 1, 0, 0, 0, 0, 1, 0]

    def rebuild(**kw):
        dd = dict(d)
        dd.update(kw)
        return case_from_data(dd)
    if d.get('cls', 'n1') != 'n1':
        yield rebuild(cls='n1')
    for k in OPT_KEYS:
        if k in d:
            dd = {kk: v for kk, v in d.items() if kk != k}
            yield case_from_data(dd)
    if op == 'chain':
        for i in range(len(d['steps'])):
            if len(d['steps']) > 1 and not any(st[0] == 's' for st in d['steps'][i + 1:]):
                yield rebuild(steps=d['steps'][:i] + d['steps'][i + 1:])
        if all(st[0] != 's' for st in d['steps']):
            for ax in range(len(shape)):
                if shape[ax] > 1:
                    s2 = list(shape)
                    s2[ax] -= 1
                    yield rebuild(shape=s2)
        return
    if op == 'slice':
        idx = list(d['idx'])
        if len(shape) > 3 and len(idx) <= len(shape) and not any(i in ('ellipsis', 'newaxis') for i in idx):
            yield rebuild(shape=shape[:-1], idx=idx[:len(shape) - 1])
        for ax in range(min(3, len(idx))):
            if idx[ax] != [None, None, None] and isinstance(idx[ax], list):
                i2 = list(idx)
                i2[ax] = [None, None, None]
                yield rebuild(idx=i2)
    if op != 'canon' and d['aff'] != ident:
        yield rebuild(aff=ident)
    if op != 'canon' and d['aff'][3::4] != [0, 0, 0]:
        a2 = list(d['aff'])
        a2[3::4] = [0, 0, 0]
        yield rebuild(aff=a2)
    if len(shape) > 3 and op != 'slice':
        yield rebuild(shape=shape[:-1])
    for ax in range(len(shape)):
        if shape[ax] > 1:
            s2 = list(shape)
            s2[ax] -= 1
            yield rebuild(shape=s2)
    if op in ('reor', 'canon') and any(v is not None for v in d['dim']):
        for k in range(3):
            if d['dim'][k] is not None:
                d2 = list(d['dim'])
                d2[k] = None
                yield rebuild(dim=d2)


# ------------------------------------------------------------------ generators

STEPS = [None, 1, 2, 3, -1, -2, -3]
PERMS3 = list(itertools.permutations(range(3)))
FLIPS3 = list(itertools.product((1, -1), repeat=3))
ALL48 = [[[p[i], f[i]] for i in range(3)] for p in PERMS3 for f in FLIPS3]
IDENT_AFF = [1, 0, 0, 0, 0, 1, 0, 0, 0, 0, 1, 0]


def bounds(n, pad=2):
    return [None] + list(range(-n - pad, n + pad + 1))


def rand_aff(rng, kind=None):
    """integer affine, non-singular linear part; 12 ints row major"""
    kind = kind or rng.choice(['oblique', 'oblique', 'oblique', 'shear', 'perm', 'diag'])
    while True:
        if kind == 'oblique':
            m = [[rng.randrange(-4, 5) for _ in range(3)] for _ in range(3)]
        elif kind == 'shear':
            m = [[rng.choice([1, 2, 3, -1, -2]) if r == c else (rng.randrange(-2, 3) if c > r else 0)
                  for c in range(3)] for r in range(3)]
        elif kind == 'perm':
            p = rng.choice(PERMS3)
            m = [[0] * 3 for _ in range(3)]
            for c in range(3):
                m[p[c]][c] = rng.choice([1, -1]) * rng.choice([1, 2, 3, 4])
        else:
            m = [[rng.choice([1, 2, 3, -1, -2, -3]) if r == c else 0 for c in range(3)] for r in range(3)]
        if round(np.linalg.det(np.array(m, dtype=float))) != 0:
            break
    t = [rng.randrange(-9, 10) for _ in range(3)]
    return [m[0][0], m[0][1], m[0][2], t[0], m[1][0], m[1][1], m[1][2], t[1], m[2][0], m[2][1], m[2][2], t[2]]


def rand_shape(rng, nd=None, cap=360):
    nd = nd or rng.choice([3, 3, 4, 4, 5])
    while True:
        shape = tuple(rng.choice([1, 2, 2, 3, 3, 4, 5]) for _ in range(3)) + \
            tuple(rng.choice([1, 2, 3]) for _ in range(nd - 3))
        if int(np.prod(shape)) <= cap:
            return shape


def rand_slice(rng, n, want_nonempty=True):
    for _ in range(20):
        s = slice(rng.choice(bounds(n)), rng.choice(bounds(n)), rng.choice(STEPS))
        if not want_nonempty or len(range(*s.indices(n))) > 0:
            return s
    return slice(None)


def rand_extra_item(rng, n):
    r = rng.random()
    if r < 0.35:
        return rng.randrange(-n, n)
    if r < 0.5:
        return slice(None)
    return rand_slice(rng, n)


def rand_slicer_idx(rng, shape):
    nd = len(shape)
    sp = [rand_slice(rng, shape[a], rng.random() < 0.93) if rng.random() < 0.85 else slice(None) for a in range(3)]
    r = rng.random()
    if r < 0.25:
        k = rng.randrange(1, 4)          # trailing axes implied
        return tuple(sp[:k])
    extra = [rand_extra_item(rng, shape[a]) for a in range(3, nd)]
    if r < 0.4 and nd > 3:
        # Ellipsis somewhere after the spatial axes (or in place of some)
        keep = rng.randrange(0, len(extra) + 1)
        items = sp + [Ellipsis] + extra[len(extra) - keep:]
    elif r < 0.5:
        k = rng.randrange(0, 4)
        items = sp[:k] + [Ellipsis] + extra[len(extra) - rng.randrange(0, len(extra) + 1):] if extra else sp[:k] + [Ellipsis]
    else:
        items = sp + extra[:rng.randrange(0, len(extra) + 1)]
    # newaxis after the spatial axes
    if rng.random() < 0.2:
        pos = rng.randrange(3, len(items) + 1) if len(items) >= 3 else len(items)
        if not any(i is Ellipsis for i in items[:pos]) and len([i for i in items[:pos] if i is not None]) >= 3:
            items.insert(pos, None)
    return tuple(items)


def rand_dim(rng):
    r = rng.random()
    if r < 0.15:
        return [None, None, None]
    if r < 0.75:
        p = list(rng.choice(PERMS3))
        return [p[0], p[1], p[2]] if rng.random() < 0.7 else [p[0], p[1], None]
    return [rng.choice([None, 0, 1, 2]) for _ in range(3)]


CODE_PAIRS = [(0, 0), (0, 1), (1, 0), (2, 0), (1, 1), (0, 2), (4, 3), (3, 4), (0, 4), (2, 2)]
DTS = ['i4', 'i2', 'f4', 'u1', 'f8', '>i2', '>f4', 'i8', 'u2']


def base_aff(rng, shape):
    """the affine a NIfTI/Analyze header WITHOUT sform/qform implies (shape_zoom_affine, x flipped), with
    even zooms so that it is integral: what `img.affine` is for a file whose codes are both 0"""
    z = [rng.choice([2, 4]) for _ in range(3)]
    return [-z[0], 0, 0, z[0] * (shape[0] - 1) // 2, 0, z[1], 0, -(z[1] * (shape[1] - 1) // 2),
            0, 0, z[2], -(z[2] * (shape[2] - 1) // 2)]


def rand_opts(rng, cls, shape=None, force_codes=None):
    """configuration that must not matter; returns (opts, aff or None)"""
    o = {}
    aff = None
    if cls in NIFTI:
        r = rng.random()
        if force_codes is not None:
            o['codes'] = list(force_codes)
        elif r < 0.75:
            o['codes'] = list(rng.choice(CODE_PAIRS))
        if o.get('codes') == [0, 0] and shape is not None and rng.random() < 0.6:
            aff = base_aff(rng, shape)
        if cls in ('n1p', 'n2p') and rng.random() < 0.4:
            o['swap'] = 1
    if rng.random() < 0.6:
        o['dt'] = rng.choice(DTS)
    if rng.random() < 0.4:
        o['odt'] = rng.choice(['i8', 'i1', 'f4', 'i4'])
    return o, aff


def rand_cls(rng, shape, newaxis=False):
    cls = rng.choice(['n1', 'n1', 'n2', 'n1p', 'n1p', 'n2p', 'pair', 'mgh', 'mghp', 'spm', 'ana'])
    if cls in ('mgh', 'mghp') and (len(shape) > 4 or newaxis):
        cls = 'spm'
    return cls


def rand_ok_spatial_idx(rng, shape):
    """an index expression the slicer must accept on `shape`"""
    sp = [rand_slice(rng, shape[a], True) for a in range(3)]
    k = rng.choice([1, 2, 3, 3, 3])
    idx = sp[:k]
    if k == 3 and len(shape) > 3 and rng.random() < 0.5:
        idx = idx + [rand_slice(rng, n, True) if rng.random() < 0.7 else rng.randrange(-n, n) for n in shape[3:]]
    elif rng.random() < 0.2:
        idx = idx + [Ellipsis]
    return tuple(idx)


def rand_chain(rng, shape):
    """2-4 steps, each valid on the image it meets; returns steps (JSON-able)"""
    steps = []
    cur = np.empty(shape, dtype=np.int8)
    for _ in range(rng.choice([2, 2, 3, 3, 4])):
        r = rng.random()
        if r < 0.35:
            o = [list(x) for x in rng.choice(ALL48)]
            steps.append(['r', o])
            fl = cur
            cur = np.transpose(fl, list(np.argsort([x[0] for x in o])) + list(range(3, cur.ndim)))
        elif r < 0.65:
            idx = rand_ok_spatial_idx(rng, cur.shape)
            steps.append(['s', [item_to_data(i) for i in idx]])
            cur = cur[idx]
        elif r < 0.8:
            steps.append(['c'])
            cur = None
        else:
            steps.append(['x', ''.join(rng.choice(a) for a in rng.sample(['LR', 'PA', 'IS'], 3))])
            cur = None
        if cur is None:      # shape after canonical / axcodes depends on the affine: only shape-agnostic steps follow
            for _ in range(rng.choice([0, 1])):
                steps.append(['x', ''.join(rng.choice(a) for a in rng.sample(['LR', 'PA', 'IS'], 3))]
                             if rng.random() < 0.6 else ['c'])
            break
    return steps


def fhex(x):
    return float(x).hex()


def cases(rng, tier):
    out = []
    quick = tier == 'quick'
    # ---------------------------------------------------------------- slicer: exhaustive single axis
    affs = [IDENT_AFF, [2, 1, 0, -3, -1, 3, 1, 4, 0, 1, -2, 5]]
    for n in range(1, 5):
        k = 0
        for a in bounds(n):
            for b in bounds(n):
                for c in STEPS:
                    k += 1
                    axes = (k % 3,) if quick else (0, 1, 2)
                    for ax in axes:
                        shape = [2, 2, 2]
                        shape[ax] = n
                        idx = [slice(None)] * 3
                        idx[ax] = slice(a, b, c)
                        out.append(mk_slice(tuple(shape), affs[(k + ax) % 2], tuple(idx[:ax + 1]), stream='slicer-1axis'))
    # the historical defect inputs
    for idx in [(slice(None, None, -1),), (slice(-1, None),), (slice(None), slice(None, None, -2)),
                (slice(None), slice(-2, None)), (Ellipsis, slice(-7, None))]:
        out.append(mk_slice((2, 3, 4), affs[1], idx, stream='slicer-1axis'))
    # ---------------------------------------------------------------- slicer: random
    for _ in range({'quick': 3000, 'thorough': 60000, 'search': 12000}[tier]):
        shape = rand_shape(rng)
        cls = rng.choice(['n1', 'n1', 'n1', 'n2', 'mgh', 'n1p'])
        idx = rand_slicer_idx(rng, shape)
        if cls == 'mgh' and (len(shape) > 4 or any(i is None for i in idx)):
            cls = 'spm'
        out.append(mk_slice(shape, rand_aff(rng), idx, cls, 'slicer-random'))
    # ---------------------------------------------------------------- slicer: malformed / edge
    for _ in range({'quick': 400, 'thorough': 4000, 'search': 400}[tier]):
        shape = rand_shape(rng)
        idx = list(rand_slicer_idx(rng, shape))
        r = rng.random()
        if r < 0.3:
            idx[rng.randrange(0, min(3, len(idx)))] = rng.randrange(-shape[0] - 1, shape[0] + 1)     # scalar index
        elif r < 0.5:
            idx.insert(rng.randrange(0, min(3, len(idx)) + 1), None)                                     # early newaxis
        elif r < 0.65:
            pos = rng.randrange(0, len(idx))
            if isinstance(idx[pos], slice):
                idx[pos] = slice(idx[pos].start, idx[pos].stop, 0)                                       # zero step
        elif r < 0.8:
            idx = [i for i in idx if i is not Ellipsis] + [slice(None)] * (len(shape) + 1)              # too many
            idx = idx[:len(shape) + 1 + sum(1 for i in idx[:len(shape) + 1] if i is None)]
        elif r < 0.9:
            ax = rng.randrange(0, 3)
            n = shape[ax]
            idx = [slice(None)] * 3
            idx[ax] = rng.choice([slice(n, None), slice(0, 0), slice(None, None, -1) if False else slice(0, n, -1),
                                  slice(-n - 2, -n - 1)])                                                # empty
        else:
            if len(shape) > 3:
                idx = [slice(None)] * 3 + [rng.choice([shape[3], -shape[3] - 1])]                        # int out of range
        out.append(mk_slice(shape, rand_aff(rng), tuple(idx), 'n1', 'slicer-malformed'))
    # ---------------------------------------------------------------- as_reoriented: all 48
    shapes48 = [(2, 3, 4), (3, 1, 2), (2, 2, 3, 2)] if quick else [(2, 3, 4), (3, 1, 2), (1, 1, 1), (4, 2, 3), (2, 2, 3, 2),
                                                                  (2, 3, 2, 1, 2)]
    for shape in shapes48:
        for o in ALL48:
            cls = rng.choice(['n1', 'n1', 'n2', 'mgh', 'n1p'])
            if cls == 'mgh' and len(shape) > 4:
                cls = 'n1'
            out.append(mk_reor(shape, rand_aff(rng), [list(r) for r in o], rand_dim(rng), cls, 'reorient-48'))
    for _ in range({'quick': 800, 'thorough': 12000, 'search': 3000}[tier]):
        shape = rand_shape(rng)
        o = [list(r) for r in rng.choice(ALL48)]
        out.append(mk_reor(shape, rand_aff(rng), o, rand_dim(rng), rng.choice(['n1', 'n1', 'n2', 'n1p']), 'reorient-random'))
    for _ in range(40 if quick else 300):
        shape = rand_shape(rng)
        o = [list(r) for r in rng.choice(ALL48)]
        o[rng.randrange(3)] = None
        if rng.random() < 0.3:
            o[rng.randrange(3)] = None
        out.append(mk_reor(shape, rand_aff(rng), o, rand_dim(rng), 'n1', 'reorient-nan'))
    # ---------------------------------------------------------------- configuration must not matter:
    # header sform/qform codes (incl. 0/0 = fallback affine), class, dtype, byte order, proxy, ornt dtype
    for cp in CODE_PAIRS:                      # every code pair x a flip, a swap+flip and a rotation, 3-D and 4-D
        for o in ([[0, -1], [1, 1], [2, 1]], [[1, 1], [0, -1], [2, 1]], [[2, -1], [0, 1], [1, -1]]):
            for shape in ((2, 3, 4), (3, 2, 4, 2)):
                cls = rng.choice(['n1', 'n1p', 'n2', 'n2p', 'pair'])
                aff = base_aff(rng, shape) if cp == (0, 0) and rng.random() < 0.5 else rand_aff(rng)
                opts, _ = rand_opts(rng, cls, shape, force_codes=cp)
                out.append(mk_reor(shape, aff, [list(r) for r in o], rand_dim(rng), cls, 'reorient-config', opts))
        shape = rand_shape(rng, cap=120)
        cls = rng.choice(['n1', 'n1p', 'n2p'])
        opts, _ = rand_opts(rng, cls, shape, force_codes=cp)
        out.append(mk_canon(shape, base_aff(rng, shape) if cp == (0, 0) else rand_aff(rng), rand_dim(rng), False, cls,
                            'canonical-config', opts))
        opts, _ = rand_opts(rng, cls, shape, force_codes=cp)
        out.append(mk_slice(shape, base_aff(rng, shape) if cp == (0, 0) else rand_aff(rng),
                            rand_ok_spatial_idx(rng, shape), cls, 'slicer-config', opts))
    for _ in range({'quick': 500, 'thorough': 8000, 'search': 2000}[tier]):
        shape = rand_shape(rng, cap=240)
        cls = rand_cls(rng, shape)
        opts, aff = rand_opts(rng, cls, shape)
        o = [list(r) for r in rng.choice(ALL48)]
        out.append(mk_reor(shape, aff or rand_aff(rng), o, rand_dim(rng), cls, 'reorient-config', opts))
    for _ in range({'quick': 300, 'thorough': 5000, 'search': 1000}[tier]):
        shape = rand_shape(rng, cap=160)
        cls = rand_cls(rng, shape)
        opts, aff = rand_opts(rng, cls, shape)
        out.append(mk_canon(shape, aff or rand_aff(rng), rand_dim(rng), rng.random() < 0.1, cls, 'canonical-config', opts))
    for _ in range({'quick': 500, 'thorough': 8000, 'search': 2000}[tier]):
        shape = rand_shape(rng, cap=240)
        idx = rand_slicer_idx(rng, shape) if rng.random() < 0.5 else rand_ok_spatial_idx(rng, shape)
        cls = rand_cls(rng, shape, any(i is None for i in idx))
        opts, aff = rand_opts(rng, cls, shape)
        out.append(mk_slice(shape, aff or rand_aff(rng), idx, cls, 'slicer-config', opts))
    # ---------------------------------------------------------------- histories (oracle only): reorient / slice /
    # canonicalise / reorient-to-axis-codes applied one after the other to the same image
    for _ in range({'quick': 500, 'thorough': 8000, 'search': 2000}[tier]):
        shape = rand_shape(rng, cap=160)
        cls = rng.choice(['n1', 'n1', 'n2', 'n1p', 'n2p', 'pair', 'spm', 'mgh'])
        steps = rand_chain(rng, shape)
        if cls == 'mgh' and len(shape) > 4:
            cls = 'spm'
        opts, aff = rand_opts(rng, cls, shape)
        opts.pop('odt', None)
        kind = rng.choice(['perm', 'perm', 'diag', 'oblique', 'shear'])
        out.append(mk_chain(shape, aff or rand_aff(rng, kind), rand_dim(rng), steps, cls, 'chain', opts))
    # ---------------------------------------------------------------- as_closest_canonical
    for _ in range({'quick': 1200, 'thorough': 20000, 'search': 4000}[tier]):
        shape = rand_shape(rng, cap=200)
        out.append(mk_canon(shape, rand_aff(rng), rand_dim(rng), rng.random() < 0.15, rng.choice(['n1', 'n1', 'n2', 'mgh'])
                            if len(shape) <= 4 else 'n1', 'canonical'))
    for o in ALL48:          # signed permutation x zoom affines: every orientation is reachable
        for shape in ([(2, 3, 4)] if quick else [(2, 3, 4), (3, 2, 2, 2)]):
            m = [0] * 12
            for c in range(3):
                m[4 * o[c][0] + c] = o[c][1] * rng.choice([1, 2, 4])
            m[3], m[7], m[11] = rng.randrange(-9, 10), rng.randrange(-9, 10), rng.randrange(-9, 10)
            out.append(mk_canon(shape, m, rand_dim(rng), rng.random() < 0.5, 'n1', 'canonical-48'))
    for _ in range(30 if quick else 300):   # singular affines: dropped axes
        a = rand_aff(rng)
        c = rng.randrange(3)
        for r in range(3):
            a[4 * r + c] = 0
        out.append(mk_canon(rand_shape(rng, cap=60), a, [None, None, None], False, 'spm', 'canonical-singular'))
    # ---------------------------------------------------------------- io_orientation on float affines
    for o in ALL48:
        A = [[0.0] * 4 for _ in range(4)]
        A[3][3] = 1.0
        for c in range(3):
            A[o[c][0]][c] = o[c][1] * 2.0 ** rng.randrange(-6, 7)
            A[c][3] = rng.uniform(-100, 100)
        out.append(mk_ioor([[fhex(v) for v in row] for row in A], 'io-signed-perm'))
    for _ in range({'quick': 1500, 'thorough': 30000, 'search': 5000}[tier]):
        r = rng.random()
        q, p = (3, 3) if r < 0.8 else rng.choice([(2, 2), (2, 3), (3, 2), (3, 4), (4, 3), (1, 3)])
        A = np.zeros((q + 1, p + 1))
        A[q, p] = 1
        kind = rng.random()
        if kind < 0.5:
            A[:q, :p] = [[rng.uniform(-3, 3) for _ in range(p)] for _ in range(q)]
        elif kind < 0.75:       # ties and near ties: small integers
            A[:q, :p] = [[rng.choice([-2, -1, 0, 1, 1, 2]) for _ in range(p)] for _ in range(q)]
        elif kind < 0.9 and q == p == 3:   # rotations about an axis by multiples of 45 degrees, scaled
            th = rng.choice([45, 90, 135, 30, 60]) * np.pi / 180
            ax = rng.randrange(3)
            Rm = np.eye(3)
            i, j = [k for k in range(3) if k != ax]
            Rm[i, i], Rm[i, j], Rm[j, i], Rm[j, j] = np.cos(th), -np.sin(th), np.sin(th), np.cos(th)
            A[:3, :3] = Rm * [rng.choice([0.5, 1, 2, 3]) for _ in range(3)]
        else:
            A[:q, :p] = [[rng.uniform(-3, 3) for _ in range(p)] for _ in range(q)]
            A[:q, rng.randrange(p)] = 0          # zero column
        A[:q, p] = [rng.uniform(-50, 50) for _ in range(q)]
        if not np.any(A[:q, :p]):
            continue
        out.append(mk_ioor([[fhex(v) for v in row] for row in A], 'io-random'))
    # ---------------------------------------------------------------- orientation utilities
    for o in ALL48:
        oo = [list(r) for r in o]
        out.append(mk_util('orn2ax', {'ornt': oo}))
        for shape in [(2, 3, 4), (1, 5, 2), (3, 3, 3, 2)]:
            out.append(mk_util('invaff', {'ornt': oo, 'shape': list(shape)}))
        for o2 in ALL48:
            out.append(mk_util('otrans', {'a': oo, 'b': [list(r) for r in o2]}))
    for codes in itertools.product('LRPAIS_', repeat=3):
        out.append(mk_util('ax2orn', {'codes': ''.join(codes)}))
    for codes in ['', 'R', 'LA', 'RASL', 'XAS', 'ras', 'R_', 'RAQ']:
        out.append(mk_util('ax2orn', {'codes': codes}))
    for _ in range(150 if quick else 1500):
        n = rng.choice([1, 2, 3, 4])
        def rnd_o(n):
            p = list(range(n))
            rng.shuffle(p)
            return [[p[i], rng.choice([1, -1])] for i in range(n)]
        a, b = rnd_o(n), rnd_o(n)
        r = rng.random()
        if r < 0.1:
            b = rnd_o(rng.choice([k for k in (1, 2, 3, 4) if k != n]))      # different lengths
        elif r < 0.2:
            b[rng.randrange(n)][0] = n + rng.randrange(0, 2)                 # axis missing from start
        out.append(mk_util('otrans', {'a': a, 'b': b}, 'ornt-utils-random'))
        o = rnd_o(min(n, 3))
        r = rng.random()
        if r < 0.1:
            o[rng.randrange(len(o))] = None
        elif r < 0.15:
            o[rng.randrange(len(o))][1] = rng.choice([0, 2])                 # bad direction
        elif r < 0.2:
            o[rng.randrange(len(o))][0] = 3                                  # no such label
        out.append(mk_util('orn2ax', {'ornt': o}, 'ornt-utils-random'))
    return out
