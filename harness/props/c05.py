"""C05 — reorienting, canonicalising and slicing keep each voxel at its world position.

nibabel/spatialimages.py (SpatialFirstSlicer, as_reoriented), nibabel/orientations.py,
nibabel/funcs.py (as_closest_canonical), nibabel/nifti1.py (as_reoriented dim_info)."""
import ast
import io
import itertools
import os
from fractions import Fraction

import logging

import numpy as np

from common import Case, errname, write_if_changed, LEAN, REPO

PID = 'C05'
logging.getLogger('nibabel').setLevel(logging.CRITICAL)      # (header conversions log their fix-ups)
LEAN_TARGETS = ['NibabelModel.Props.C05']
THEOREMS = [
    'Nb.C05.slice_axis_src',
    'Nb.C05.scaleShift_apply_ring',
    'Nb.C05.slicer_world',
    'Nb.C05.slicer_orig_counterexample',
    'Nb.C05.reorient_world',
    'Nb.C05.reorient_injective',
    'Nb.C05.reorient_size',
    'Nb.C05.dim_info_follows',
    'Nb.C05.allOrnts3_valid',
    'Nb.C05.ornt_axcodes_roundtrip',
    'Nb.C05.ornt_transform_inverse',
    'Nb.C05.inv_ornt_aff_inverse',
    'Nb.C05.io_greedy_dominant',
    'Nb.C05.canonical_idempotent',
    'Nb.C05.canonical_second_is_self',
    'Nb.C05.slicer_triple_ok',
    'Nb.C05.slicer_rejects_spatial_scalar',
    'Nb.C05.io_orientation_injective',
    'Nb.C05.io_orientation_valid',
    'Nb.C05.canonical_world',
    'Nb.C05.gen_consts_ok',
    'Nb.C05.gen_value_source_ok',
    'Nb.C05.hist_wf',
    'Nb.C05.hist_data_spec',
    'Nb.C05.values_history_independent',
    'Nb.C05.values_cache_counterexample',
    'Nb.C05.values_any_history',
    'Nb.C05.reorient_history_world',
    'Nb.C05.canonical_history_world',
]
PENDING_FINDINGS = []     # 'reorient:sequence-ornt-dim_info-typeerror' was repaired by fix: 5e1197c5 (fixed entry in known_findings.json)

ASSUMPTIONS = [
    'hand-written Lean model of SpatialFirstSlicer / as_reoriented / orientations.py / as_closest_canonical '
    '(Model/C05.lean), tied to the code by the differential correspondence run (new shape, new affine as exact '
    'integers, source voxel of every output voxel, dim_info, error class) on every case of this run',
    'arrays are identified with gathers (output index -> source index); NumPy basic indexing, np.flip, '
    'ndarray.transpose and np.argsort are the reference semantics (the oracle locates source voxels through '
    'unique voxel values and checks values against NumPy indexing)',
    'affines are integer matrices (exact in float64); the theorems are over Int, the algebraic core of '
    'slice_affine also over any commutative ring (scaleShift_apply_ring)',
    'numpy.linalg.svd inside io_orientation is NOT modelled: the polar factor R (orientations.py:56-71) is '
    'recomputed by the harness with the same NumPy calls and handed to the model as exact scaled integers; '
    'canonical_idempotent assumes the polar factor of A.P is R.P for a signed permutation P (stated in Props/C05); '
    'the world-position clause of as_closest_canonical (canonical_world) and io_orientation_injective/_valid hold '
    'for EVERY matrix R, i.e. do not depend on what the SVD returned',
    'image class, on-disk dtype, byte order, array-vs-proxy, dtype of the ornt array and the sform/qform codes of '
    'the input header (incl. 0/0, where the header carries no transform) are not inputs of the model: the '
    'correspondence asserts on every case that the real result does not depend on them',
    'default axis labels, the identity-orientation literal, the constants of center_trans and the ornt column of '
    'the dim_info remap are read from the working tree on every run (Generated/C05.lean, gen_consts_ok); the attribute '
    'names the three operations touch on the image are read from the AST on every run and classified in Lean '
    '(srcOfAttrs: any cache accessor -> Src.cache, reads dataobj -> Src.dataobj; gen_value_source_ok) - a syntactic tie, the behavioural one is the correspondence + oracle',
    'image state (Model/C05.lean ImgSt): generic in the value type; WHERE an operation reads its voxels is the '
    'parameter Src (dataobj | cache) - the theorems are stated for the Src regenerated from the AST (reorientSrc / '
    'slicerSrc via srcOfAttrs over the attribute names as_reoriented / slicer.__getitem__ touch; proved = dataobj by '
    'gen_value_source_ok), values_cache_counterexample refutes the property for Src.cache; in-place edits of arrays '
    'returned by get_fdata are ARBITRARY functions in the model (the correspondence exercises reversal and rotation); '
    'the cast to float16/32/64 is a parameter (every theorem holds for every cast; castInt = integer round-to-nearest-'
    'even only in the counterexample); the driver instantiates values = original element numbers, cast = identity - '
    'that a result voxel holds exactly the data-object value is checked by the oracle with exact value comparison on '
    'values float32/float64 cannot hold; the cache state is observed through the private attribute _fdata_cache '
    '(dtype, identity with dataobj) for the correspondence',
    'Basic/PySlice is a specification of CPython slice semantics (validated by the C06 check against slice.indices)',
    'fileslice.canonical_slicers is modelled in Model/C06.lean (re-used)',
]
RULE = ('streams: slicer exhaustive single-axis slice triples (start/stop in [-n-2,n+2]|None, step in +-1..3|None) for '
        'n<=4; random 3-D..5-D shapes x oblique integer affines x slice triples on all spatial axes + int/slice/'
        'newaxis/Ellipsis on the other axes; malformed slicers (ints/newaxis on spatial axes, zero step, too many '
        'indices); as_reoriented over all 48 signed permutations x shapes x affines x dim_info (+NaN rows); '
        'as_closest_canonical on oblique integer affines and signed-permutation x zoom affines (+singular, '
        'enforce_diag); io_orientation on float affines (signed permutation x power-of-two zooms, oblique, ties, '
        'non-square, zero columns); orientation utilities exhaustively over the 48 (48x48 for ornt_transform) + '
        'random n-D and malformed; *-config streams: the same three operations over image classes (Nifti1/2, pair, '
        'MGH, SPM, Analyze, array or proxy re-loaded from bytes, byte-swapped), on-disk dtypes, ornt dtypes and all '
        'combinations of sform/qform code 0/non-0 (with the header fallback affine when both are 0); chain: 2-4 step '
        'histories of reorient / slice / canonicalise / reorient-to-axis-codes (io_orientation + axcodes2ornt + '
        'ornt_transform) on one image (oracle only); *-state streams + half of the *-config/chain cases: the STATE of the '
        'image object when the operation is called - source (array image | proxy loaded from an in-memory file map | '
        'from a file (memory-mapped) | from a compressed file | proxy with int16 slope/intercept scaling | proxy '
        're-wrapped with another affine), dtype x values that float32 / float64 cannot hold (odd integers above 2**24 '
        '/ 2**53 / 2**63, top of the dtype range, large negative, non-dyadic fractions), and the calls made before '
        '(1-3 of get_fdata(dtype=f2|f4|f8, caching=fill|unchanged) [+ in-place reversal or rotation of the returned array], '
        'uncache()), crossed systematically with all four operations; chains also call get_fdata/uncache on the '
        'intermediate images. A case is non-trivial unless the slicer is all-full-slices / the orientation is '
        'the identity; distinct by (op, shape, affine, index/orientation).')

IMG_CLASSES = ('n1', 'n2', 'mgh', 'spm', 'n1p', 'n2p', 'mghp', 'pair', 'ana')
# n1p / n2p / mghp = re-loaded from bytes (array proxy); pair = Nifti1Pair; ana = AnalyzeImage
NO_DIM = ('mgh', 'spm', 'mghp', 'ana')     # classes without dim_info
NIFTI = ('n1', 'n2', 'n1p', 'n2p', 'pair')
OPT_KEYS = ('codes', 'dt', 'swap', 'odt', 'src', 'scl', 'vals', 'hist', 'hfrom', 'ict', 'sdim', 'mm')
# image configuration that must NOT influence the result:
#   codes = [sform_code, qform_code] of the input header (0/0 = no transform in the header),
#   dt = on-disk dtype, swap = byte-swapped header (proxies), odt = dtype of the `ornt` array,
#   src = where the image comes from: 'arr' array image | 'fmap' loaded from an in-memory file map (proxy) |
#         'file' loaded from a real file (proxy, memory-mapped) | 'gz' loaded from a compressed file (proxy),
#   scl = 1: floating data stored as int16 with slope/intercept (a proxy WITH scaling),
#   vals = which voxel values (all distinct): 'small' 0..n-1 | 'b24' odd integers above 2**24 (not float32
#         values) | 'b53' odd integers above 2**53 (not float64 values) | 'hi' the top of the dtype's range |
#         'neg' large negative | 'frac' non-dyadic fractions,
#   hist = the calls made on the image BEFORE the operation under test (state of the object): list of
#         'u' (uncache) | 'g<2|4|8><f|u><e|->' = get_fdata(dtype=float16/32/64, caching='fill'/'unchanged'),
#         'e' = then reverse the returned array in place (C order), 'o' = then rotate it by one (np.roll -1)
#   mm = 0: the file is loaded with mmap=False (src 'file'),
#   hfrom = the header handed to the constructor comes from an image of ANOTHER class / shape / dtype,
#   ict = spelling of the slicer index: 'bare' (a single slice, not in a tuple) | 'np' (NumPy integers as bounds),
#   odt additionally 'list' / 'tuple' (the orientation given as nested Python sequences),
#   sdim = dim_info (freq, phase, slice) of the image that is SLICED (labels must stay on their axes)
SRCS = ('arr', 'fmap', 'file', 'gz')
VALS = ('small', 'b24', 'b53', 'hi', 'neg', 'frac')
HIST_TOKENS = ('g8f-', 'g4f-', 'g2f-', 'g8fe', 'g4fe', 'g8u-', 'g4u-', 'g8ue', 'g4ue', 'u', 'g8fo', 'g4fo', 'g4uo')


# ------------------------------------------------------------------ constants regenerated from the source

def _func(tree, name, cls=None):
    body = tree.body
    if cls is not None:
        body = next(n for n in tree.body if isinstance(n, ast.ClassDef) and n.name == cls).body
    return next(n for n in body if isinstance(n, ast.FunctionDef) and n.name == name)


def _zip_labels(fn):
    """the default `labels = list(zip('LPI', 'RAS'))` of ornt2axcodes / axcodes2ornt"""
    for n in ast.walk(fn):
        if isinstance(n, ast.Call) and getattr(n.func, 'id', None) == 'zip' and len(n.args) == 2 and \
                all(isinstance(a, ast.Constant) and isinstance(a.value, str) for a in n.args):
            return list(zip(n.args[0].value, n.args[1].value))
    return []


def regen():
    """Generated/C05.lean: the constants the orientation theorems rest on, read from the working tree:
    default axis labels (both functions), the identity-orientation literal of `as_reoriented`, the
    constants of `center_trans = -(shape - 1) / 2.0` (inv_ornt_aff), the column of `ornt` used by the
    dim_info remap.  A shape of the source that cannot be read gives a sentinel that fails
    `gen_consts_ok`."""
    def parse(rel):
        with open(os.path.join(REPO, 'nibabel', rel)) as f:
            return ast.parse(f.read())
    lab1, lab2, ident, csub, cdiv, dimcol = [], [], [], -1, -1, 99
    attrs = {'reor': [], 'slicer': [], 'nreor': [], 'canon': []}

    def attrs_of(fn, base):
        """names X of every `<base>.X` in the function; base = 'self' | 'self.img' | 'img'"""
        out = set()
        for n in ast.walk(fn):
            if isinstance(n, ast.Attribute):
                try:
                    if ast.unparse(n.value) == base:
                        out.add(n.attr)
                except Exception:
                    pass
        return sorted(out)
    try:
        t = parse('orientations.py')
        lab1 = _zip_labels(_func(t, 'ornt2axcodes'))
        lab2 = _zip_labels(_func(t, 'axcodes2ornt'))
        for n in ast.walk(_func(t, 'inv_ornt_aff')):
            if isinstance(n, ast.Assign) and getattr(n.targets[0], 'id', None) == 'center_trans':
                v = n.value      # -(shape - 1) / 2.0
                if isinstance(v, ast.BinOp) and isinstance(v.op, ast.Div) and isinstance(v.right, ast.Constant) and \
                        isinstance(v.left, ast.UnaryOp) and isinstance(v.left.op, ast.USub) and \
                        isinstance(v.left.operand, ast.BinOp) and isinstance(v.left.operand.op, ast.Sub) and \
                        isinstance(v.left.operand.right, ast.Constant) and float(v.right.value).is_integer():
                    csub, cdiv = int(v.left.operand.right.value), int(v.right.value)
        t = parse('spatialimages.py')
        for n in ast.walk(_func(t, 'as_reoriented', 'SpatialImage')):
            if isinstance(n, ast.Call) and getattr(n.func, 'attr', None) == 'array_equal' and len(n.args) == 2:
                ident = ast.literal_eval(n.args[1])
        attrs['reor'] = attrs_of(_func(t, 'as_reoriented', 'SpatialImage'), 'self')
        attrs['slicer'] = attrs_of(_func(t, '__getitem__', 'SpatialFirstSlicer'), 'self.img')
        attrs['canon'] = attrs_of(_func(parse('funcs.py'), 'as_closest_canonical'), 'img')
        t = parse('nifti1.py')
        attrs['nreor'] = attrs_of(_func(t, 'as_reoriented', 'Nifti1Pair'), 'self')
        for n in ast.walk(_func(t, 'as_reoriented', 'Nifti1Pair')):
            if isinstance(n, ast.Subscript) and getattr(n.value, 'id', None) == 'ornt' and \
                    isinstance(n.slice, ast.Tuple) and len(n.slice.elts) == 2 and isinstance(n.slice.elts[1], ast.Constant):
                dimcol = int(n.slice.elts[1].value)
    except Exception:
        pass

    def labs(l):
        return '[' + ', '.join("('%s', '%s')" % (a, b) for a, b in l if len(a) == 1 and len(b) == 1 and a.isalnum() and b.isalnum()) + ']'
    def strs(l):
        return '[' + ', '.join('"%s"' % a for a in l if a.replace('_', 'a').isalnum()) + ']'
    try:
        ident_s = '[' + ', '.join('(%d, %d)' % (int(a), int(b)) for a, b in ident) + ']'
    except Exception:
        ident_s = '[]'
    src = ('/-! GENERATED from the nibabel working tree by harness/props/c05.py (regen) — do not edit by hand. -/\n'
           'namespace Nb.C05.Gen\n'
           "/-- default `labels` of `ornt2axcodes` (orientations.py) -/\n"
           f'def labelsOrnt2ax : List (Char × Char) := {labs(lab1)}\n'
           "/-- default `labels` of `axcodes2ornt` (orientations.py) -/\n"
           f'def labelsAx2ornt : List (Char × Char) := {labs(lab2)}\n'
           '/-- the literal `as_reoriented` compares `ornt` with before returning `self` (spatialimages.py) -/\n'
           f'def identityOrnt : List (Nat × Int) := {ident_s}\n'
           '/-- `center_trans = -(shape - centerSub) / centerDiv` (inv_ornt_aff) -/\n'
           f'def centerSub : Int := {csub}\n'
           f'def centerDiv : Int := {cdiv}\n'
           '/-- column of `ornt` read by the dim_info remap `int(ornt[orig_dim, col])` (nifti1.py) -/\n'
           f'def dimInfoCol : Nat := {dimcol}\n'
           '/-- every attribute `self.X` that `SpatialImage.as_reoriented` touches (spatialimages.py) -/\n'
           f'def reorientSelfAttrs : List String := {strs(attrs["reor"])}\n'
           '/-- every attribute `self.img.X` that `SpatialFirstSlicer.__getitem__` touches (spatialimages.py) -/\n'
           f'def slicerImgAttrs : List String := {strs(attrs["slicer"])}\n'
           '/-- every attribute `self.X` that `Nifti1Pair.as_reoriented` touches (nifti1.py) -/\n'
           f'def niftiReorientSelfAttrs : List String := {strs(attrs["nreor"])}\n'
           '/-- every attribute `img.X` that `as_closest_canonical` touches (funcs.py) -/\n'
           f'def canonicalImgAttrs : List String := {strs(attrs["canon"])}\n'
           'end Nb.C05.Gen\n')
    write_if_changed(os.path.join(LEAN, 'NibabelModel', 'Generated', 'C05.lean'), src)
    return []


# ------------------------------------------------------------------ formatting

def _fmt_o(v):
    return '_' if v is None else str(int(v))


def fmt_item(it):
    if it is None:
        return 'n'
    if it is Ellipsis:
        return 'e'
    if isinstance(it, slice):
        return 's' + ','.join(_fmt_o(v) for v in (it.start, it.stop, it.step))
    return 'i%d' % int(it)


def fmt_idx(idx):
    return ';'.join(fmt_item(i) for i in idx) if idx else '-'


def item_to_data(it):
    if it is None:
        return 'newaxis'
    if it is Ellipsis:
        return 'ellipsis'
    if isinstance(it, slice):
        return [it.start, it.stop, it.step]
    return int(it)


def item_from_data(d):
    if d == 'newaxis':
        return None
    if d == 'ellipsis':
        return Ellipsis
    if isinstance(d, list):
        return slice(*d)
    return int(d)


def fmt_num(x):
    x = float(x)
    if x != x:
        return 'nan'
    if x.is_integer():
        return str(int(x))
    return str(Fraction(x))


def fmt_list(l):
    return '[' + ','.join(str(v) for v in l) + ']'


def fmt_aff(a):
    a = np.asarray(a)
    tail = '' if a.shape == (4, 4) and list(a[3]) == [0, 0, 0, 1] else '!lastrow'
    return '[' + ','.join(fmt_num(v) for v in a[:3].ravel()) + ']' + tail


def fmt_ornt(o):
    o = np.asarray(o)
    if o.shape[0] == 0:
        return '-'
    rows = []
    for ax, fl in o:
        rows.append('nan' if (ax != ax or fl != fl) else f'{fmt_num(ax)},{fmt_num(fl)}')
    return ';'.join(rows)


def ornt_arg(o):
    """orientation (list of [ax, flip] or None rows) -> protocol token"""
    if not o:
        return '-'
    return ';'.join('nan' if r is None else f'{int(r[0])},{int(r[1])}' for r in o)


def ornt_np(o):
    return np.array([[np.nan, np.nan] if r is None else [float(r[0]), float(r[1])] for r in o]).reshape(len(o), 2)


def fmt_dim(d):
    return ','.join('_' if v is None else str(int(v)) for v in d)


def aff_arg(aff12):
    return ','.join(str(int(v)) for v in aff12)


def aff44(aff12):
    return np.vstack([np.array(aff12, dtype=float).reshape(3, 4), [0, 0, 0, 1]])


# ------------------------------------------------------------------ cases

def _opts(data, opts):
    irrelevant = ('odt',) if data['op'] == 'slice' else ('ict', 'sdim')
    if data['op'] == 'chain':
        irrelevant += ('odt',)
    for k in OPT_KEYS:
        if opts and opts.get(k) is not None and k not in irrelevant:
            data[k] = opts[k]
    return tuple((k, str(data[k])) for k in OPT_KEYS if k in data)


def state_suffix(data):
    """(' <kind> <hist>', 'h') when the case varies the image source / values / history: the protocol line
    then names the image kind (proxy, array, array of native floating dtype) and the history, and the model
    answers from its image-state model; ('', '') for the plain streams"""
    if not any(k in data for k in ('src', 'scl', 'vals', 'hist')):
        return '', ''
    kind = img_kind(make_img(data, dry=True))
    return f' {kind} {";".join(data.get("hist") or []) or "-"}', 'h'


def seq_ornt_finding(d):
    """the orientation is a nested Python sequence and the NIfTI header carries a dim_info label"""
    return (d.get('odt') in ('list', 'tuple') and d.get('cls', 'n1') in NIFTI and
            any(v is not None for v in d.get('dim', [])) and not any(r is None for r in d['ornt']) and
            d['ornt'] != [[0, 1], [1, 1], [2, 1]])


def mk_slice(shape, aff12, idx, cls='n1', stream='slicer', opts=None):
    data = {'op': 'slice', 'shape': list(shape), 'aff': [int(v) for v in aff12],
            'idx': [item_to_data(i) for i in idx], 'cls': cls, 'stream': stream}
    ok = _opts(data, opts)
    suf, h = state_suffix(data)
    line = f'C05 {h}slice {",".join(map(str, shape))} {aff_arg(aff12)} {fmt_idx(idx)}{suf}'
    trivial = all(isinstance(i, slice) and i == slice(None) for i in idx)
    key = None if trivial else ('slice', tuple(shape), tuple(aff12), fmt_idx(idx), cls, ok)
    return Case(line, data, key, stream)


def mk_reor(shape, aff12, ornt, dim, cls='n1', stream='reorient', opts=None):
    if cls in NO_DIM:
        dim = [None, None, None]
    data = {'op': 'reor', 'shape': list(shape), 'aff': [int(v) for v in aff12], 'ornt': ornt, 'dim': list(dim),
            'cls': cls, 'stream': stream}
    ok = _opts(data, opts)
    suf, h = state_suffix(data)
    line = f'C05 {h}reor {",".join(map(str, shape))} {aff_arg(aff12)} {ornt_arg(ornt)} {fmt_dim(dim)}{suf}'
    trivial = ornt == [[0, 1], [1, 1], [2, 1]]
    key = None if trivial else ('reor', tuple(shape), tuple(aff12), ornt_arg(ornt), fmt_dim(dim), cls, ok)
    return Case(line, data, key, stream)


def polar_R(affine):
    """the polar factor exactly as io_orientation computes it (orientations.py:54-71) — the external
    (SVD) part that the model takes as a parameter"""
    import numpy.linalg as npl
    affine = np.asarray(affine)
    q, p = affine.shape[0] - 1, affine.shape[1] - 1
    RZS = affine[:q, :p]
    zooms = np.sqrt(np.sum(RZS * RZS, axis=0))
    zooms[zooms == 0] = 1
    RS = RZS / zooms
    P, S, Qs = npl.svd(RS, full_matrices=False)
    tol = S.max() * max(RS.shape) * np.finfo(S.dtype).eps
    keep = S > tol
    return np.dot(P[:, keep], Qs[keep])


def scale_R(R):
    """float matrix -> (flat exact integers R*2^K, floor(1e-8*2^K)); None if not finite"""
    if not np.all(np.isfinite(R)):
        return None
    fr = [Fraction(float(v)) for v in np.asarray(R).ravel()]
    scale = max([f.denominator for f in fr] + [1])
    ints = [int(f * scale) for f in fr]
    tol = (Fraction(1e-8) * scale).__floor__()
    return ints, int(tol)


def mk_canon(shape, aff12, dim, enforce, cls='n1', stream='canonical', opts=None):
    if cls in NO_DIM:
        dim = [None, None, None]
    sc = scale_R(polar_R(aff44(aff12)))
    data = {'op': 'canon', 'shape': list(shape), 'aff': [int(v) for v in aff12], 'dim': list(dim),
            'enforce': int(enforce), 'cls': cls, 'stream': stream}
    ok = _opts(data, opts)
    line = None
    if sc is not None:
        suf, h = state_suffix(data)
        line = (f'C05 {h}canon {",".join(map(str, shape))} {aff_arg(aff12)} {",".join(map(str, sc[0]))} {sc[1]} '
                f'{fmt_dim(dim)} {int(enforce)}{suf}')
    return Case(line, data, ('canon', tuple(shape), tuple(aff12), fmt_dim(dim), int(enforce), cls, ok), stream)


def mk_chain(shape, aff12, dim, steps, cls='n1', stream='chain', opts=None):
    """a history of operations on one image (oracle only): steps = ['r', ornt] | ['s', idx-data] | ['c'] |
    ['x', axcodes] (reorient to the named axis codes through io_orientation + axcodes2ornt + ornt_transform)"""
    if cls in NO_DIM:
        dim = [None, None, None]
    data = {'op': 'chain', 'shape': list(shape), 'aff': [int(v) for v in aff12], 'dim': list(dim),
            'steps': steps, 'cls': cls, 'stream': stream}
    ok = _opts(data, opts)
    return Case(None, data, ('chain', tuple(shape), tuple(aff12), fmt_dim(dim), repr(steps), cls, ok), stream)


def mk_ioor(aff_rows, stream='io_orientation'):
    """aff_rows: (q+1) x (p+1) list of floats given as hex strings (exact)"""
    aff = np.array([[float.fromhex(v) for v in row] for row in aff_rows])
    q, p = aff.shape[0] - 1, aff.shape[1] - 1
    line = None
    try:
        sc = scale_R(polar_R(aff))
    except Exception:
        sc = None
    if sc is not None:
        line = f'C05 ioor {q} {p} {",".join(map(str, sc[0])) if sc[0] else "-"} {sc[1]}'
    data = {'op': 'ioor', 'aff': [list(r) for r in aff_rows], 'stream': stream}
    return Case(line, data, ('ioor', tuple(tuple(r) for r in aff_rows)), stream)


def mk_util(op, args, stream='ornt-utils'):
    """op in orn2ax (ornt), ax2orn (codes str), otrans (a, b), invaff (ornt, shape)"""
    if op == 'orn2ax':
        line = f'C05 orn2ax {ornt_arg(args["ornt"])}'
    elif op == 'ax2orn':
        line = f'C05 ax2orn {args["codes"] or "-"}'
    elif op == 'otrans':
        line = f'C05 otrans {ornt_arg(args["a"])} {ornt_arg(args["b"])}'
    elif op == 'invaff':
        line = f'C05 invaff {ornt_arg(args["ornt"])} {",".join(map(str, args["shape"]))}'
    else:
        raise ValueError(op)
    data = dict(args)
    data.update(op=op, stream=stream)
    return Case(line, data, (op, line), stream)


def case_from_data(d):
    op = d['op']
    st = d.get('stream')
    opts = {k: d[k] for k in OPT_KEYS if k in d}
    if op == 'slice':
        return mk_slice(tuple(d['shape']), d['aff'], tuple(item_from_data(i) for i in d['idx']), d.get('cls', 'n1'),
                        st or 'slicer', opts)
    if op == 'reor':
        return mk_reor(tuple(d['shape']), d['aff'], d['ornt'], d['dim'], d.get('cls', 'n1'), st or 'reorient', opts)
    if op == 'canon':
        return mk_canon(tuple(d['shape']), d['aff'], d['dim'], d['enforce'], d.get('cls', 'n1'), st or 'canonical',
                        opts)
    if op == 'chain':
        return mk_chain(tuple(d['shape']), d['aff'], d['dim'], d['steps'], d.get('cls', 'n1'), st or 'chain', opts)
    if op == 'ioor':
        return mk_ioor(d['aff'], st or 'io_orientation')
    return mk_util(op, {k: v for k, v in d.items() if k not in ('op', 'stream')}, st or 'ornt-utils')


# ------------------------------------------------------------------ implementation side

_TMP = {'dir': None, 'n': 0}


def _tmp_path(ext):
    """a fresh file name in a per-process scratch directory (removed at exit: proxies re-open their file on
    every read, so the files must outlive the oracle)"""
    import atexit
    import shutil
    import tempfile
    if _TMP['dir'] is None:
        _TMP['dir'] = tempfile.mkdtemp(prefix='c05_')
        atexit.register(shutil.rmtree, _TMP['dir'], True)
    _TMP['n'] += 1
    return os.path.join(_TMP['dir'], 'i%d%s' % (_TMP['n'], ext))


def make_data(n, dt, vals):
    """n pairwise different voxel values of dtype `dt` (exact Python integers / binary fractions)"""
    dt = np.dtype(dt)
    kind, size = dt.kind, dt.itemsize
    ks = range(n)
    if vals == 'b24' and ((kind in 'iu' and size >= 4) or (kind == 'f' and size == 8)):
        v = [2 ** 24 + 1 + 2 * k for k in ks]                   # odd, above 2**24: no float32 holds them
    elif vals == 'b53' and kind in 'iu' and size == 8:
        v = [(2 ** 63 if kind == 'u' else 2 ** 53) + 1 + 2 * k for k in ks]    # no float64 holds them
    elif vals == 'hi' and kind in 'iu' and 2 * n < int(np.iinfo(dt).max):
        v = [int(np.iinfo(dt).max) - 2 * k for k in ks]
    elif vals == 'neg' and kind == 'i' and size >= 4:
        v = [-((2 ** 53 if size == 8 else 2 ** 24) + 1 + 2 * k) for k in ks]
    elif vals == 'frac' and kind == 'f' and size >= 4:
        v = [k + (1 / 3 if size == 8 else 0.5) for k in ks]
    else:
        v = list(ks)
    return np.array(v, dtype=dt)


def img_kind(img):
    """protocol token of the image kind: p = proxy, a = array image, a2/a4/a8 = array image whose array has the
    native floating dtype of that size (np.asanyarray(arr, dtype=that) is then the array itself)"""
    a = img.dataobj
    if not isinstance(a, np.ndarray):
        return 'p'
    if a.dtype.kind == 'f' and a.dtype.isnative and a.dtype.itemsize in (2, 4, 8):
        return 'a%d' % a.dtype.itemsize
    return 'a'


def apply_hist(img, hist):
    """the calls a user made on the image before the operation under test"""
    fd = {'2': np.float16, '4': np.float32, '8': np.float64}
    for tok in hist or []:
        if tok == 'u':
            img.uncache()
            continue
        with np.errstate(all='ignore'):
            a = img.get_fdata(dtype=fd[tok[1]], caching={'f': 'fill', 'u': 'unchanged'}[tok[2]])
        if tok[3] == 'e':
            a[...] = a.ravel()[::-1].reshape(a.shape).copy()      # new[k] = old[n-1-k] in C order
        elif tok[3] == 'o':
            a[...] = np.roll(a.ravel(), -1).reshape(a.shape)      # new[k] = old[(k+1) % n] in C order
        elif tok[3] != '-':
            raise ValueError(tok)


def cache_tok(img):
    c = getattr(img, '_fdata_cache', None)
    if c is None:
        return 'cache=none'
    return 'cache=f%d%s' % (c.dtype.itemsize, 'a' if c is img.dataobj else '')


def _make_img(d, dry=False):
    """the input image of a case, BEFORE its history.  Everything except shape / affine / dim_info is
    CONFIGURATION the result must not depend on: image class, on-disk dtype, header sform/qform codes, byte
    order, proxy or array, where it was loaded from, the voxel values.  dry=True: never touch the disk (only
    used to learn the image kind)"""
    import nibabel as nib
    shape = tuple(d['shape'])
    n = int(np.prod(shape))
    dt = np.dtype(d.get('dt', 'i4'))
    if dt == np.uint8 and n > 256:
        dt = np.dtype('i2')
    aff = aff44(d['aff'])
    cls = d.get('cls', 'n1')
    src, vals = d.get('src'), d.get('vals', 'small')
    if cls in ('mgh', 'mghp') and len(shape) <= 4:
        klass, supported = nib.MGHImage, ('u1', 'i2', 'i4', 'f4')
    elif cls in ('spm', 'ana', 'mgh', 'mghp'):
        klass, supported = (nib.AnalyzeImage if cls == 'ana' else nib.Spm2AnalyzeImage), ('u1', 'i2', 'i4', 'f4', 'f8')
    else:
        klass = {'n2': nib.Nifti2Image, 'n2p': nib.Nifti2Image, 'pair': nib.Nifti1Pair}.get(cls, nib.Nifti1Image)
        supported = None
    if supported is not None and dt.str[1:] not in supported:
        dt = np.dtype(np.int32)
    scaled = bool(d.get('scl')) and src in ('fmap', 'file', 'gz') and klass not in (nib.MGHImage, nib.AnalyzeImage)
    if scaled:
        data = (np.arange(n) * 0.37 + 0.11).reshape(shape)     # floats, stored as int16 with slope and intercept
    else:
        data = make_data(n, dt, vals).reshape(shape)
    img = None
    if d.get('hfrom'):
        try:
            img = klass(data, aff, other_header(d['hfrom']))
            if img.get_data_dtype() != data.dtype and not scaled:
                img.set_data_dtype(data.dtype)
        except Exception:
            img = None          # (this class cannot adopt that header / dtype)
    if img is None:
        img = klass(data, aff)
    if scaled:
        img.set_data_dtype(np.int16)
    if cls in NIFTI:
        if 'dim' in d or 'sdim' in d:
            img.header.set_dim_info(*d.get('dim', d.get('sdim')))
        codes = d.get('codes')
        if codes is not None:
            # header-level setters: the image affine stays `aff`; with sform_code 0 the header's best affine is
            # the (shear-stripped) qform or, with both 0, the shape/zoom fallback
            hdr = img.header
            hdr.set_sform(aff, code=int(codes[0]))
            try:
                hdr.set_qform(aff, code=int(codes[1]))
            except Exception:
                hdr['qform_code'] = int(codes[1])
        if d.get('swap') and cls in ('n1p', 'n2p'):
            img = klass(data, aff, img.header.as_byteswapped())
            if scaled:
                img.set_data_dtype(np.int16)
    if src is None:
        # legacy spelling of "proxy": classes n1p / n2p / mghp are re-loaded from bytes
        if cls == 'mghp' and klass is nib.MGHImage:
            try:       # (MGH cannot serialise a 4-D shape with a trailing axis of length 1: keep the array image)
                p = nib.MGHImage.from_bytes(img.to_bytes())
            except Exception:
                p = None
            if p is not None and np.array_equal(p.affine, aff) and tuple(p.shape) == shape:
                img = p
        if cls in ('n1p', 'n2p'):
            p = klass.from_bytes(img.to_bytes())
            if np.array_equal(p.affine, aff) and tuple(p.shape) == shape:      # (a qform-only header reloads with a rounded affine: keep the array image)
                img = p
        return img
    if src == 'arr':
        return img
    try:
        if src == 'fmap' or dry:
            fm = klass.make_file_map({k: io.BytesIO() for k in klass.make_file_map()})
            img.to_file_map(fm)
            p = klass.from_file_map(fm)
        else:
            ext = '.mgh' if klass is nib.MGHImage else '.nii' if klass in (nib.Nifti1Image, nib.Nifti2Image) else '.img'
            if src == 'gz':
                ext = '.mgz' if ext == '.mgh' else ext + '.gz'
            path = _tmp_path(ext)
            img.to_filename(path)
            p = klass.from_filename(path, mmap=False) if d.get('mm') == 0 else klass.from_filename(path)
        if tuple(p.shape) != shape:
            p = None
    except Exception:
        p = None
    if p is None:
        return img                      # (not serialisable, e.g. MGH with a trailing axis of length 1)
    if np.array_equal(p.affine, aff):
        return p
    # the file format cannot hold this affine (Analyze, qform-only NIfTI ...): an image made of the loaded
    # PROXY, the wanted affine and the loaded header — `klass(other.dataobj, affine, other.header)`
    return klass(p.dataobj, aff, p.header)


def make_img(d, dry=False):
    """_make_img, falling back to plain values when the configured ones do not survive the file format as
    pairwise different values (the oracle locates source voxels through their values)"""
    img = _make_img(d, dry)
    if any(k in d for k in ('vals', 'scl', 'hfrom')):
        v = np.asanyarray(img.dataobj).ravel().tolist()
        if len(set(v)) != len(v) or any(x != x for x in v):
            return _make_img({k: x for k, x in d.items() if k not in ('vals', 'scl', 'hfrom')}, dry)
    return img


def other_header(kind):
    """the header of an unrelated image: other class, shape (7,5,3,2), float32, zooms, dim_info, xform codes"""
    import nibabel as nib
    k = {'n1': nib.Nifti1Image, 'n2': nib.Nifti2Image, 'mgh': nib.MGHImage, 'ana': nib.AnalyzeImage,
         'spm': nib.Spm2AnalyzeImage}[kind]
    o = k(np.zeros((7, 5, 3, 2), dtype=np.float32), np.diag([3., 5., 7., 1.]))
    if kind in ('n1', 'n2'):
        o.header.set_dim_info(2, 0, 1)
        o.header.set_qform(np.diag([3., 5., 7., 1.]), code=3)
        o.header.set_sform(np.diag([-3., 5., 7., 1.]), code=4)
        o.header.set_xyzt_units('mm', 'sec')
    return o.header


def prepare(d):
    """(image after its history, values of its data object before the history, ... after the history)"""
    img = make_img(d)
    orig = np.array(np.asanyarray(img.dataobj))
    apply_hist(img, d.get('hist'))
    ref = np.array(np.asanyarray(img.dataobj))
    return img, orig, ref


def decode(arr, ref):
    """element number (C order) in `ref` of every value of `arr`, compared EXACTLY (Python int / float
    equality: 2**53+1 is not float(2**53), 16777217 is not float32(16777216)); -1 = no such value"""
    lut = {}
    for k, v in enumerate(np.asanyarray(ref).ravel().tolist()):
        lut.setdefault(v, k)
    arr = np.asanyarray(arr)
    return np.array([lut.get(v, -1) for v in arr.ravel().tolist()], dtype=np.int64).reshape(arr.shape)


def get_dim(img):
    try:
        return list(img.header.get_dim_info())
    except AttributeError:
        return [None, None, None]


def data_list(img, ref):
    """the data of a result image as source element numbers (exact value match against `ref`)"""
    return [int(v) for v in decode(np.asanyarray(img.dataobj), ref).ravel()]


def spell_idx(idx, ict):
    """the same index expression written differently"""
    if ict == 'bare' and len(idx) == 1:
        return idx[0]
    if ict == 'np':
        def npi(v):
            return None if v is None else np.int64(v)
        return tuple(slice(npi(i.start), npi(i.stop), npi(i.step)) if isinstance(i, slice) else
                     (np.int64(i) if isinstance(i, int) else i) for i in idx)
    return idx


def _stateful(d):
    return any(k in d for k in ('src', 'scl', 'vals', 'hist'))


def impl(case):
    d = case.data
    op = d['op']
    from nibabel import orientations as ort
    if op in ('slice', 'reor', 'canon', 'chain'):
        img, orig, ref = prepare(d)
        case.extra = {'img': img, 'orig': orig, 'ref': ref}
        tail = (' ' + cache_tok(img)) if _stateful(d) else ''
    if op == 'slice':
        idx = spell_idx(tuple(item_from_data(i) for i in d['idx']), d.get('ict'))
        case.extra['idx_arg'] = idx
        try:
            out = img.slicer[idx]
        except (IndexError, ValueError) as e:
            return errname(e)
        case.extra['out'] = out
        return f'ok {fmt_list(out.shape)} {fmt_aff(out.affine)} {fmt_list(data_list(out, orig))}{tail}'
    if op == 'reor':
        try:
            o = ornt_np(d['ornt'])
            if d.get('odt') and not any(r is None for r in d['ornt']):
                if d['odt'] == 'list':
                    o = [[int(a), int(b)] for a, b in d['ornt']]
                elif d['odt'] == 'tuple':
                    o = tuple((int(a), int(b)) for a, b in d['ornt'])
                else:
                    o = o.astype(d['odt'])
            case.extra['ornt_arg'] = o
            out = img.as_reoriented(o)
        except (ort.OrientationError, ValueError, IndexError) as e:
            return errname(e)
        case.extra['out'] = out
        dim = get_dim(out) if d.get('cls', 'n1') not in NO_DIM else [None] * 3
        return (f'ok same={int(out is img)} {fmt_list(out.shape)} {fmt_aff(out.affine)} {fmt_list(data_list(out, orig))} '
                f'{fmt_dim(dim)}{tail}')
    if op == 'canon':
        import nibabel as nib
        o = ort.io_orientation(img.affine)
        try:
            out = nib.as_closest_canonical(img, enforce_diag=bool(d['enforce']))
        except (ort.OrientationError, ValueError, IndexError) as e:
            return f'{fmt_ornt(o)} {errname(e)}'
        case.extra['out'] = out
        dim = get_dim(out) if d.get('cls', 'n1') not in NO_DIM else [None] * 3
        return (f'ok {fmt_ornt(o)} same={int(out is img)} {fmt_list(out.shape)} {fmt_aff(out.affine)} '
                f'{fmt_list(data_list(out, orig))} {fmt_dim(dim)}{tail}')
    if op == 'chain':
        import nibabel as nib
        case.extra['targets'] = []
        cur = img
        try:
            for st in d['steps']:
                if st[0] == 'r':
                    cur = cur.as_reoriented(ornt_np(st[1]))
                elif st[0] == 's':
                    cur = cur.slicer[tuple(item_from_data(i) for i in st[1])]
                elif st[0] == 'c':
                    cur = nib.as_closest_canonical(cur)
                elif st[0] == 'x':
                    t = ort.ornt_transform(ort.io_orientation(cur.affine), ort.axcodes2ornt(tuple(st[1])))
                    cur = cur.as_reoriented(t)
                    case.extra['targets'].append((st[1], ''.join(ort.aff2axcodes(cur.affine))))
                elif st[0] == 'h':         # a (non-editing) call on the intermediate image
                    if st[1][-1] in 'eo':
                        raise ValueError(st)
                    apply_hist(cur, [st[1]])
                else:
                    raise ValueError(st)
        except (ort.OrientationError, ValueError, IndexError, TypeError) as e:
            return errname(e)
        case.extra['out'] = cur
        dim = get_dim(cur) if d.get('cls', 'n1') not in NO_DIM else [None] * 3
        return f'ok {fmt_list(cur.shape)} {fmt_aff(cur.affine)} {fmt_list(data_list(cur, ref))} {fmt_dim(dim)}'
    if op == 'ioor':
        aff = np.array([[float.fromhex(v) for v in row] for row in d['aff']])
        try:
            return fmt_ornt(ort.io_orientation(aff))
        except Exception as e:
            return errname(e)
    if op == 'orn2ax':
        try:
            cs = ort.ornt2axcodes(ornt_np(d['ornt']))
        except (ValueError, IndexError) as e:
            return errname(e)
        return ''.join('_' if c is None else c for c in cs) or '-'
    if op == 'ax2orn':
        try:
            return fmt_ornt(ort.axcodes2ornt(tuple(None if c == '_' else c for c in d['codes'])))
        except (ValueError, IndexError) as e:
            return errname(e)
    if op == 'otrans':
        try:
            return fmt_ornt(ort.ornt_transform(ornt_np(d['a']), ornt_np(d['b'])))
        except (ValueError, IndexError) as e:
            return errname(e)
    if op == 'invaff':
        try:
            return fmt_aff(ort.inv_ornt_aff(ornt_np(d['ornt']), d['shape']))
        except (ort.OrientationError, ValueError, IndexError) as e:
            return errname(e)
    raise ValueError(op)


# ------------------------------------------------------------------ oracle

def _world(aff, ijk):
    """exact world coordinates of voxel ijk (integer-valued affines): tuple of Fractions"""
    return tuple(sum(Fraction(float(aff[r, c])) * int(ijk[c]) for c in range(3)) + Fraction(float(aff[r, 3]))
                 for r in range(3))


def check_voxels(old_img, new_img, what, ref):
    """every output voxel keeps its value and its world position.  `ref` = the values of the input image's data
    object (np.asanyarray(img.dataobj), all different) when the operation was called: the source voxel of an
    output voxel is located through its value, compared exactly"""
    old_shape = old_img.shape
    raw = np.asanyarray(new_img.dataobj)
    new = decode(raw, ref)
    old_aff, new_aff = np.asarray(old_img.affine, dtype=float), np.asarray(new_img.affine, dtype=float)
    if new_aff.shape != (4, 4) or list(new_aff[3]) != [0, 0, 0, 1]:
        return f'{what}: new affine is not a homogeneous 4x4: {new_aff.tolist()}'
    if tuple(new.shape) != tuple(new_img.shape):
        return f'{what}: image shape {new_img.shape} != data shape {new.shape}'
    n_old = int(np.prod(old_shape))
    if len(new.shape) < 3:
        return f'{what}: output has fewer than three axes: shape {new.shape}'
    flat = new.ravel()
    lost = np.flatnonzero((flat < 0) | (flat >= n_old))
    if lost.size:
        j = np.unravel_index(int(lost[0]), new.shape)
        near = np.asanyarray(ref).ravel()
        k = int(np.argmin(np.abs(near.astype(np.longdouble) - np.longdouble(raw[j]))))
        return (f'{what}: output voxel {tuple(int(x) for x in j)} holds {raw[j].item()!r} ({raw.dtype}), which is not '
                f'the value of any voxel of the image data (nearest: {near[k].item()!r} ({near.dtype}) at '
                f'{tuple(int(x) for x in np.unravel_index(k, old_shape))}): the value was not kept')
    J = np.indices(new.shape).reshape(new.ndim, -1)[:3]                  # output voxel indices, C order
    S = np.array(np.unravel_index(flat, old_shape))[:3]                  # their source voxels
    integral = all(np.all(np.isfinite(a)) and np.all(a == np.rint(a)) and np.all(np.abs(a) < 2 ** 40)
                   for a in (old_aff, new_aff))
    if integral:           # exact in int64
        An, Ao = new_aff.astype(np.int64), old_aff.astype(np.int64)
        bad = np.flatnonzero(np.any(An[:3, :3] @ J + An[:3, 3:4] != Ao[:3, :3] @ S + Ao[:3, 3:4], axis=0))
        cand = [int(bad[0])] if bad.size else []
    else:
        cand = range(flat.size)
    for c in cand:         # exact rational arithmetic
        j, src = tuple(int(x) for x in J[:, c]), tuple(int(x) for x in S[:, c])
        w_new, w_old = _world(new_aff, j), _world(old_aff, src)
        if w_new != w_old:
            jj = np.unravel_index(c, new.shape)
            return (f'{what}: output voxel {tuple(int(x) for x in jj)} (value {raw[jj].item()!r}) is at world '
                    f'{tuple(str(x) for x in w_new)} but its source voxel '
                    f'{tuple(int(x) for x in np.unravel_index(int(flat[c]), old_shape))} was at '
                    f'{tuple(str(x) for x in w_old)}')
    return None


def same_values(a, b):
    a, b = np.asanyarray(a), np.asanyarray(b)
    return a.shape == b.shape and a.ravel().tolist() == b.ravel().tolist()


def is_signed_perm(aff):
    rzs = np.asarray(aff)[:3, :3]
    return bool(np.all((rzs != 0).sum(axis=0) == 1) and np.all((rzs != 0).sum(axis=1) == 1))


def expected_slicer_success(shape, idx):
    """True/False/None: must img.slicer[idx] succeed?  (None = not decided by the property)"""
    arr = np.empty(shape, dtype=np.int8)
    try:
        res = arr[idx]
    except (IndexError, ValueError):
        return False
    # spatial axes must be indexed by slices, before any newaxis
    n_real = 0
    items = list(idx)
    if any(i is Ellipsis for i in items):
        k = [i is Ellipsis for i in items].index(True)
        real_after = sum(1 for i in items[k + 1:] if i is not None)
        real_before = sum(1 for i in items[:k] if i is not None)
        items = items[:k] + [slice(None)] * (len(shape) - real_after - real_before) + items[k + 1:]
    for it in items:
        if n_real >= 3:
            break
        if it is None or not isinstance(it, slice):
            return False
        n_real += 1
    if 0 in res.shape:
        return False
    return True


def state_desc(d):
    """the state of the input image, for messages"""
    bits = [f'{k}={d[k]}' for k in ('cls', 'dt', 'src', 'scl', 'vals') if k in d and (k != 'cls' or d[k] != 'n1')]
    if d.get('hist'):
        bits.append('after ' + ', '.join(d['hist']))
    return (' [' + ' '.join(bits) + ']') if bits else ''


def oracle(case, out):
    d = case.data
    op = d['op']
    from nibabel import orientations as ort
    ex = case.extra or {}
    if op == 'slice':
        shape = tuple(d['shape'])
        idx = tuple(item_from_data(i) for i in d['idx'])
        want_ok = expected_slicer_success(shape, idx)
        if out.startswith('ERR'):
            if want_ok:
                return f'img.slicer{list(idx)} on shape {shape} raised {out} for a valid non-empty spatial crop'
            return None
        if not out.startswith('ok '):
            return f'unexpected outcome {out[:100]}'
        if want_ok is False:
            return f'img.slicer{list(idx)} on shape {shape} returned an image where an error is documented: {out[:100]}'
        img, new, ref = ex['img'], ex['out'], ex['ref']
        what = f'slicer shape={shape} idx={list(idx)} affine={d["aff"]}' + state_desc(d)
        bad = check_voxels(img, new, what, ref)
        if bad:
            return bad
        want = np.arange(int(np.prod(shape)), dtype=np.int64).reshape(shape)[idx]
        got = decode(np.asanyarray(new.dataobj), ref)
        if got.shape != want.shape or not np.array_equal(got, want) or not same_values(new.dataobj, ref[idx]):
            return f'{what}: slicer data differ from NumPy indexing of the image data'
        if not same_values(img.dataobj, ref) or not np.array_equal(img.affine, aff44(d['aff'])):
            return 'slicer modified the original image'
        # the second, public call site: slice_affine(idx) is the affine of slicer[idx]
        sa = img.slicer.slice_affine(ex.get('idx_arg', idx))
        if not np.array_equal(sa, new.affine):
            return f'{what}: slicer.slice_affine gives {np.asarray(sa).tolist()} but the sliced image has {np.asarray(new.affine).tolist()}'
        # frequency / phase / slice labels stay on their (spatial) axes: slicing never permutes axes
        if d.get('cls', 'n1') in NIFTI and 'sdim' in d:
            if get_dim(new) != list(d['sdim']) or get_dim(img) != list(d['sdim']):
                return f'{what}: dim_info {d["sdim"]} became {get_dim(new)} (original image now {get_dim(img)})'
        return None
    if op in ('reor', 'canon'):
        shape = tuple(d['shape'])
        if op == 'reor':
            ornt = d['ornt']
            has_nan = any(r is None for r in ornt)
            if out.startswith('ERR'):
                return None if has_nan else f'as_reoriented({ornt}) raised {out} for a valid orientation'
            if has_nan:
                return f'as_reoriented with a dropped axis returned an image: {out[:80]}'
            what = f'as_reoriented shape={shape} ornt={ornt} affine={d["aff"]}' + state_desc(d)
        else:
            if ' ERR' in out or out.startswith('ERR'):
                rzs = aff44(d['aff'])[:3, :3]
                if abs(np.linalg.det(rzs)) > 0.5 and not d['enforce']:
                    return f'as_closest_canonical raised on a non-singular affine: {out}'
                return None
            what = f'as_closest_canonical shape={shape} affine={d["aff"]}' + state_desc(d)
        img, new, ref = ex['img'], ex['out'], ex['ref']
        bad = check_voxels(img, new, what, ref)
        if bad:
            return bad
        got = decode(np.asanyarray(new.dataobj), ref)
        if got.size != int(np.prod(shape)) or len(set(got.ravel().tolist())) != got.size:
            return f'{what}: voxels lost or duplicated (output shape {got.shape})'
        if new is not img and not same_values(img.dataobj, ref):
            return f'{what}: the data of the original image changed'
        Jn = np.indices(got.shape).reshape(got.ndim, -1)
        Sn = np.array(np.unravel_index(got.ravel(), shape))
        if op == 'reor' and new is not img:
            # the cooperating call sites: apply_orientation on the image data gives the new data, and
            # inv_ornt_aff maps every new voxel index to the index of its source voxel
            oa = ex.get('ornt_arg', ornt_np(d['ornt']))
            if not same_values(ort.apply_orientation(ref, oa), new.dataobj):
                return f'{what}: the data are not apply_orientation(data, ornt)'
            M = np.asarray(ort.inv_ornt_aff(oa, shape), dtype=float)
            off = np.flatnonzero(np.any(M[:3, :3] @ Jn[:3] + M[:3, 3:4] != Sn[:3], axis=0))
            if off.size:
                c = int(off[0])
                return (f'{what}: inv_ornt_aff maps output voxel {tuple(int(x) for x in Jn[:3, c])} to '
                        f'{(M[:3, :3] @ Jn[:3, c] + M[:3, 3]).tolist()}, its source is {tuple(int(x) for x in Sn[:3, c])}')
        # non-spatial axes follow their axes
        moved = np.flatnonzero(np.any(Jn[3:] != Sn[3:], axis=0)) if got.ndim == len(shape) else np.array([0])
        if moved.size:
            c = int(moved[0])
            return (f'{what}: non-spatial index changed: output {tuple(int(x) for x in Jn[:, c])} holds source voxel '
                    f'{tuple(int(x) for x in Sn[:, c])}')
        # frequency / phase / slice labels follow their axes: the labelled axis keeps its world direction
        if d.get('cls', 'n1') not in NO_DIM and new is not img:
            old_dim, new_dim = list(d['dim']), get_dim(new)
            oa, na = np.asarray(img.affine), np.asarray(new.affine)
            for name, od, nd_ in zip(('freq', 'phase', 'slice'), old_dim, new_dim):
                if (od is None) != (nd_ is None):
                    return f'{what}: {name} label {od} became {nd_}'
                if od is None:
                    continue
                if not (np.array_equal(na[:3, nd_], oa[:3, od]) or np.array_equal(na[:3, nd_], -oa[:3, od])):
                    return (f'{what}: {name} label moved from voxel axis {od} to {nd_}, which is a different '
                            f'world direction ({oa[:3, od].tolist()} vs {na[:3, nd_].tolist()})')
            if get_dim(img) != old_dim:
                return f'{what}: dim_info of the original image changed'
        if op == 'canon':
            # canonicalising twice changes nothing whenever each voxel axis has its own dominant world axis
            import scipy.linalg as spl
            rzs = aff44(d['aff'])[:3, :3]
            if abs(np.linalg.det(rzs)) > 0.5:
                rs = rzs / np.sqrt((rzs * rzs).sum(axis=0))
                U = spl.polar(rs)[0]
                a = np.abs(U)
                rows = a.argmax(axis=0)
                srt = np.sort(a, axis=0)
                dominant = len(set(rows.tolist())) == 3 and np.all(srt[-1] - srt[-2] > 1e-6)
                if dominant:
                    o2 = ort.io_orientation(new.affine)
                    if not np.array_equal(o2, [[0, 1], [1, 1], [2, 1]]):
                        return f'{what}: canonical image still has orientation {o2.tolist()}'
                    import nibabel as nib
                    again = nib.as_closest_canonical(new)
                    if not (np.array_equal(again.affine, new.affine) and
                            same_values(again.dataobj, new.dataobj)):
                        return f'{what}: canonicalising twice changed the image'
                    d2 = np.diag(np.asarray(new.affine)[:3, :3] @ np.eye(3))
                    U2 = spl.polar(np.asarray(new.affine)[:3, :3] /
                                   np.sqrt((np.asarray(new.affine)[:3, :3] ** 2).sum(axis=0)))[0]
                    if not np.all(np.diag(U2) > 0):
                        return f'{what}: canonical affine does not point along +R,+A,+S: {np.asarray(new.affine).tolist()}'
        return None
    if op == 'chain':
        shape = tuple(d['shape'])
        what = f'history {d["steps"]} on shape={shape} affine={d["aff"]} cls={d.get("cls")}' + state_desc(d)
        if not out.startswith('ok '):
            return f'{what}: a step raised {out} although every step is valid on its own'
        img, new, ref = ex['img'], ex['out'], ex['ref']
        bad = check_voxels(img, new, what, ref)
        if bad:
            return bad
        got = decode(np.asanyarray(new.dataobj), ref)
        if len(set(got.ravel().tolist())) != got.size:
            return f'{what}: voxels duplicated'
        only_reor = all(st[0] != 's' for st in d['steps'])
        if only_reor and got.size != int(np.prod(shape)):
            return f'{what}: voxels lost (output shape {got.shape})'
        for want, have in ex.get('targets', []):
            if is_signed_perm(aff44(d['aff'])) and have != want:
                return f'{what}: reoriented to axis codes {want} but the result has axis codes {have}'
        if d.get('cls', 'n1') not in NO_DIM and only_reor and new is not img:
            oa, na = np.asarray(img.affine), np.asarray(new.affine)
            for name, od, nd_ in zip(('freq', 'phase', 'slice'), d['dim'], get_dim(new)):
                if (od is None) != (nd_ is None):
                    return f'{what}: {name} label {od} became {nd_}'
                if od is not None and not (np.array_equal(na[:3, nd_], oa[:3, od]) or
                                           np.array_equal(na[:3, nd_], -oa[:3, od])):
                    return f'{what}: {name} label moved from voxel axis {od} to {nd_}, a different world direction'
        if get_dim(img) != (list(d['dim']) if d.get('cls', 'n1') not in NO_DIM else [None] * 3) or \
                not np.array_equal(img.affine, aff44(d['aff'])):
            return f'{what}: the original image was modified'
        return None
    if op == 'ioor':
        aff = np.array([[float.fromhex(v) for v in row] for row in d['aff']])
        q, p = aff.shape[0] - 1, aff.shape[1] - 1
        # signed permutation x positive zooms: the orientation is known in closed form
        rzs = aff[:q, :p]
        if q == p and np.all(np.isfinite(rzs)) and np.all((rzs != 0).sum(axis=0) == 1) and \
                np.all((rzs != 0).sum(axis=1) == 1):
            want = ';'.join(f'{int(np.flatnonzero(rzs[:, c])[0])},{1 if rzs[:, c].sum() > 0 else -1}' for c in range(p))
            if out != want:
                return f'io_orientation of a signed-permutation-times-zoom affine: got {out} want {want}'
        return None
    if op == 'orn2ax':
        o = d['ornt']
        if out.startswith('ERR') or any(r is None for r in o):
            return None
        codes = tuple(None if c == '_' else c for c in out) if out != '-' else ()
        back = ort.axcodes2ornt(codes)
        if not np.array_equal(back, ornt_np(o).reshape(len(o), 2)):
            return f'axcodes2ornt(ornt2axcodes({o})) = {back.tolist()}'
        return None
    if op == 'ax2orn':
        if out.startswith('ERR') or '_' in d['codes']:
            return None
        codes = tuple(d['codes'])
        back = ort.ornt2axcodes(ort.axcodes2ornt(codes))
        if tuple(back) != codes:
            return f'ornt2axcodes(axcodes2ornt({codes})) = {back}'
        return None
    if op == 'otrans':
        a, b = d['a'], d['b']
        valid = (len(a) == len(b) and sorted(r[0] for r in a) == list(range(len(a))) and
                 sorted(r[0] for r in b) == list(range(len(b))))
        if out.startswith('ERR'):
            return f'ornt_transform raised {out} for valid orientations {a} -> {b}' if valid else None
        if not valid:
            return None
        t = ort.ornt_transform(ornt_np(a), ornt_np(b))
        tb = ort.ornt_transform(ornt_np(b), ornt_np(a))
        n = len(a)
        shape = tuple(range(2, 2 + n))
        arr = np.arange(int(np.prod(shape))).reshape(shape)
        fwd = ort.apply_orientation(arr, t)
        if not np.array_equal(ort.apply_orientation(fwd, tb), arr):
            return f'ornt_transform({a},{b}) followed by ornt_transform({b},{a}) is not the identity'
        if n == 3:
            m = ort.inv_ornt_aff(t, shape).dot(ort.inv_ornt_aff(tb, fwd.shape))
            if not np.array_equal(m, np.eye(4)):
                return f'inv_ornt_aff of ornt_transform({a},{b}) and of its reverse do not compose to the identity'
            # semantics: an image whose orientation is `a` becomes one whose orientation is `b`
            A = np.eye(4)
            A[:3, :3] = 0
            for i, (ax, fl) in enumerate(a):
                A[int(ax), i] = fl * (i + 2)
            A[:3, 3] = [5, -3, 7]
            B = A.dot(ort.inv_ornt_aff(t, shape))
            ob = ort.io_orientation(B)
            if not np.array_equal(ob, ornt_np(b)):
                return f'reorienting an {a} image by ornt_transform({a},{b}) gives orientation {ob.tolist()}'
        return None
    if op == 'invaff':
        if out.startswith('ERR'):
            return f'inv_ornt_aff raised {out}'
        o, shape = ornt_np(d['ornt']), tuple(d['shape'])
        arr = np.arange(int(np.prod(shape))).reshape(shape)
        tarr = ort.apply_orientation(arr, o)
        M = ort.inv_ornt_aff(o, shape)
        for j in np.ndindex(*tarr.shape[:3]):
            src = M.dot(list(j) + [1])[:3]
            if any(x != int(x) or not 0 <= x < n for x, n in zip(src, shape)) or \
                    not np.array_equal(arr[tuple(int(x) for x in src)], tarr[j]):
                return f'inv_ornt_aff({d["ornt"]},{shape}) maps transformed voxel {j} to {src.tolist()}, which holds another value'
        return None
    return None


def signature(case, what):
    d = case.data
    op = d['op']
    if op == 'slice':
        kinds = set()
        for it, n in zip(d['idx'][:3], d['shape'][:3]):
            if isinstance(it, list):
                a, b, c = it
                if (a is None and c is not None and c < 0) or (a is not None and a < 0):
                    kinds.add('negative-or-none-start')
                elif a is not None and a > n:
                    kinds.add('start-out-of-range')
                elif c is not None and c < 0:
                    kinds.add('negative-step')
        if 'value was not kept' in what:
            return 'slicer:values'
        if 'dim_info' in what:
            return 'slicer:dim_info'
        if 'slice_affine gives' in what:
            return 'slicer:slice_affine-call-site'
        if 'negative-or-none-start' in kinds:
            return 'slicer:negative-or-none-start'
        return 'slicer:' + ('+'.join(sorted(kinds)) or 'in-range')
    val = 'value was not kept' in what
    if op == 'reor' and seq_ornt_finding(d) and 'raised ERR:TypeError' in what:
        return 'reorient:sequence-ornt-dim_info-typeerror'
    if op == 'reor':
        return 'reorient:' + ('dim_info' if 'label' in what else 'values' if val else 'voxels')
    if op == 'chain':
        return 'history:' + ('axcodes' if 'axis codes' in what else 'dim_info' if 'label' in what else
                             'values' if val else 'voxels')
    if op == 'canon':
        return 'canonical:' + ('twice' if 'twice' in what or 'still has' in what else 'values' if val else 'voxels')
    return 'orientations:' + op


def shrink_candidates(case):
    d = case.data
    op = d['op']
    if op not in ('slice', 'reor', 'canon', 'chain'):
        return
    shape = list(d['shape'])
    ident = [1, 0, 0, 0, 0, 1, 0, 0, 0, 0, 1, 0]

    def rebuild(**kw):
        dd = dict(d)
        dd.update(kw)
        return case_from_data(dd)
    if d.get('cls', 'n1') != 'n1':
        yield rebuild(cls='n1')
    for k in OPT_KEYS:
        if k in d:
            dd = {kk: v for kk, v in d.items() if kk != k}
            yield case_from_data(dd)
    if len(d.get('hist') or []) > 1:
        for i in range(len(d['hist'])):
            yield rebuild(hist=d['hist'][:i] + d['hist'][i + 1:])
    if d.get('src') in ('file', 'gz'):
        yield rebuild(src='fmap')
    if op == 'chain':
        for i in range(len(d['steps'])):
            if len(d['steps']) > 1 and not any(st[0] == 's' for st in d['steps'][i + 1:]):
                yield rebuild(steps=d['steps'][:i] + d['steps'][i + 1:])
        if all(st[0] != 's' for st in d['steps']):
            for ax in range(len(shape)):
                if shape[ax] > 1:
                    s2 = list(shape)
                    s2[ax] -= 1
                    yield rebuild(shape=s2)
        return
    if op == 'slice':
        idx = list(d['idx'])
        if len(shape) > 3 and len(idx) <= len(shape) and not any(i in ('ellipsis', 'newaxis') for i in idx):
            yield rebuild(shape=shape[:-1], idx=idx[:len(shape) - 1])
        for ax in range(min(3, len(idx))):
            if idx[ax] != [None, None, None] and isinstance(idx[ax], list):
                i2 = list(idx)
                i2[ax] = [None, None, None]
                yield rebuild(idx=i2)
    if op != 'canon' and d['aff'] != ident:
        yield rebuild(aff=ident)
    if op != 'canon' and d['aff'][3::4] != [0, 0, 0]:
        a2 = list(d['aff'])
        a2[3::4] = [0, 0, 0]
        yield rebuild(aff=a2)
    if len(shape) > 3 and op != 'slice':
        yield rebuild(shape=shape[:-1])
    for ax in range(len(shape)):
        if shape[ax] > 1:
            s2 = list(shape)
            s2[ax] -= 1
            yield rebuild(shape=s2)
    if op in ('reor', 'canon') and any(v is not None for v in d['dim']):
        for k in range(3):
            if d['dim'][k] is not None:
                d2 = list(d['dim'])
                d2[k] = None
                yield rebuild(dim=d2)


# ------------------------------------------------------------------ generators

STEPS = [None, 1, 2, 3, -1, -2, -3]
PERMS3 = list(itertools.permutations(range(3)))
FLIPS3 = list(itertools.product((1, -1), repeat=3))
ALL48 = [[[p[i], f[i]] for i in range(3)] for p in PERMS3 for f in FLIPS3]
IDENT_AFF = [1, 0, 0, 0, 0, 1, 0, 0, 0, 0, 1, 0]


def bounds(n, pad=2):
    return [None] + list(range(-n - pad, n + pad + 1))


def rand_aff(rng, kind=None):
    """integer affine, non-singular linear part; 12 ints row major"""
    kind = kind or rng.choice(['oblique', 'oblique', 'oblique', 'shear', 'perm', 'diag'])
    while True:
        if kind == 'oblique':
            m = [[rng.randrange(-4, 5) for _ in range(3)] for _ in range(3)]
        elif kind == 'shear':
            m = [[rng.choice([1, 2, 3, -1, -2]) if r == c else (rng.randrange(-2, 3) if c > r else 0)
                  for c in range(3)] for r in range(3)]
        elif kind == 'perm':
            p = rng.choice(PERMS3)
            m = [[0] * 3 for _ in range(3)]
            for c in range(3):
                m[p[c]][c] = rng.choice([1, -1]) * rng.choice([1, 2, 3, 4])
        else:
            m = [[rng.choice([1, 2, 3, -1, -2, -3]) if r == c else 0 for c in range(3)] for r in range(3)]
        if round(np.linalg.det(np.array(m, dtype=float))) != 0:
            break
    t = [rng.randrange(-9, 10) for _ in range(3)]
    return [m[0][0], m[0][1], m[0][2], t[0], m[1][0], m[1][1], m[1][2], t[1], m[2][0], m[2][1], m[2][2], t[2]]


def rand_shape(rng, nd=None, cap=360):
    nd = nd or rng.choice([3, 3, 4, 4, 5])
    while True:
        shape = tuple(rng.choice([1, 2, 2, 3, 3, 4, 5]) for _ in range(3)) + \
            tuple(rng.choice([1, 2, 3]) for _ in range(nd - 3))
        if int(np.prod(shape)) <= cap:
            return shape


def rand_slice(rng, n, want_nonempty=True):
    for _ in range(20):
        s = slice(rng.choice(bounds(n)), rng.choice(bounds(n)), rng.choice(STEPS))
        if not want_nonempty or len(range(*s.indices(n))) > 0:
            return s
    return slice(None)


def rand_extra_item(rng, n):
    r = rng.random()
    if r < 0.35:
        return rng.randrange(-n, n)
    if r < 0.5:
        return slice(None)
    return rand_slice(rng, n)


def rand_slicer_idx(rng, shape):
    nd = len(shape)
    sp = [rand_slice(rng, shape[a], rng.random() < 0.93) if rng.random() < 0.85 else slice(None) for a in range(3)]
    r = rng.random()
    if r < 0.25:
        k = rng.randrange(1, 4)          # trailing axes implied
        return tuple(sp[:k])
    extra = [rand_extra_item(rng, shape[a]) for a in range(3, nd)]
    if r < 0.4 and nd > 3:
        # Ellipsis somewhere after the spatial axes (or in place of some)
        keep = rng.randrange(0, len(extra) + 1)
        items = sp + [Ellipsis] + extra[len(extra) - keep:]
    elif r < 0.5:
        k = rng.randrange(0, 4)
        items = sp[:k] + [Ellipsis] + extra[len(extra) - rng.randrange(0, len(extra) + 1):] if extra else sp[:k] + [Ellipsis]
    else:
        items = sp + extra[:rng.randrange(0, len(extra) + 1)]
    # newaxis after the spatial axes
    if rng.random() < 0.2:
        pos = rng.randrange(3, len(items) + 1) if len(items) >= 3 else len(items)
        if not any(i is Ellipsis for i in items[:pos]) and len([i for i in items[:pos] if i is not None]) >= 3:
            items.insert(pos, None)
    return tuple(items)


def rand_dim(rng):
    r = rng.random()
    if r < 0.15:
        return [None, None, None]
    if r < 0.75:
        p = list(rng.choice(PERMS3))
        return [p[0], p[1], p[2]] if rng.random() < 0.7 else [p[0], p[1], None]
    return [rng.choice([None, 0, 1, 2]) for _ in range(3)]


CODE_PAIRS = [(0, 0), (0, 1), (1, 0), (2, 0), (1, 1), (0, 2), (4, 3), (3, 4), (0, 4), (2, 2)]
DTS = ['i4', 'i2', 'f4', 'u1', 'f8', '>i2', '>f4', 'i8', 'u2']
BIG_DTS = ['i4', 'i8', 'u8', 'f8', 'u4', '>i4', '>f8', 'f4', 'i2', '>i8']      # dtypes that hold values float32 / float64 cannot


def base_aff(rng, shape):
    """the affine a NIfTI/Analyze header WITHOUT sform/qform implies (shape_zoom_affine, x flipped), with
    even zooms so that it is integral: what `img.affine` is for a file whose codes are both 0"""
    z = [rng.choice([2, 4]) for _ in range(3)]
    return [-z[0], 0, 0, z[0] * (shape[0] - 1) // 2, 0, z[1], 0, -(z[1] * (shape[1] - 1) // 2),
            0, 0, z[2], -(z[2] * (shape[2] - 1) // 2)]


def rand_opts(rng, cls, shape=None, force_codes=None, state=False):
    """configuration that must not matter; returns (opts, aff or None)"""
    o = {}
    aff = None
    if cls in NIFTI:
        r = rng.random()
        if force_codes is not None:
            o['codes'] = list(force_codes)
        elif r < 0.75:
            o['codes'] = list(rng.choice(CODE_PAIRS))
        if o.get('codes') == [0, 0] and shape is not None and rng.random() < 0.6:
            aff = base_aff(rng, shape)
        if cls in ('n1p', 'n2p') and rng.random() < 0.4:
            o['swap'] = 1
    if rng.random() < 0.6:
        o['dt'] = rng.choice(DTS)
    if rng.random() < 0.4:
        o['odt'] = rng.choice(['i8', 'i1', 'f4', 'i4', 'list', 'tuple'])
    if rng.random() < 0.25:
        o['hfrom'] = rng.choice(['n1', 'n2', 'mgh', 'ana', 'spm'])
    if rng.random() < 0.3:
        o['ict'] = rng.choice(['bare', 'np'])
    if cls in NIFTI and rng.random() < 0.6:
        o['sdim'] = rand_dim(rng)
    if state:
        o.update(rand_state(rng))
    return o, aff


def rand_hist(rng):
    r = rng.random()
    k = 1 if r < 0.55 else 2 if r < 0.85 else 3
    return [rng.choice(HIST_TOKENS) for _ in range(k)]


def rand_state(rng, p_file=0.12):
    """the state of the image object when the operation is called: where it comes from, which values it
    holds, what was called on it before"""
    o = {}
    if rng.random() < 0.7:
        r = rng.random()
        o['src'] = 'file' if r < p_file / 2 else 'gz' if r < p_file else rng.choice(['arr', 'fmap', 'fmap'])
        if o['src'] != 'arr' and rng.random() < 0.2:
            o['scl'] = 1
        if o['src'] == 'file' and rng.random() < 0.4:
            o['mm'] = 0
    if rng.random() < 0.6:
        o['vals'] = rng.choice(VALS)
        o['dt'] = rng.choice(BIG_DTS)
    if rng.random() < 0.7:
        o['hist'] = rand_hist(rng)
    return o


def rand_cls(rng, shape, newaxis=False):
    cls = rng.choice(['n1', 'n1', 'n2', 'n1p', 'n1p', 'n2p', 'pair', 'mgh', 'mghp', 'spm', 'ana'])
    if cls in ('mgh', 'mghp') and (len(shape) > 4 or newaxis):
        cls = 'spm'
    return cls


def rand_ok_spatial_idx(rng, shape):
    """an index expression the slicer must accept on `shape`"""
    sp = [rand_slice(rng, shape[a], True) for a in range(3)]
    k = rng.choice([1, 2, 3, 3, 3])
    idx = sp[:k]
    if k == 3 and len(shape) > 3 and rng.random() < 0.5:
        idx = idx + [rand_slice(rng, n, True) if rng.random() < 0.7 else rng.randrange(-n, n) for n in shape[3:]]
    elif rng.random() < 0.2:
        idx = idx + [Ellipsis]
    return tuple(idx)


def rand_chain(rng, shape, hist_steps=False):
    """2-4 steps, each valid on the image it meets; returns steps (JSON-able)"""
    steps = []
    cur = np.empty(shape, dtype=np.int8)
    for _ in range(rng.choice([2, 2, 3, 3, 4])):
        r = rng.random()
        if hist_steps and rng.random() < 0.25:      # a call on the intermediate image between two operations
            steps.append(['h', rng.choice([t for t in HIST_TOKENS if t[-1] not in 'eo'])])
        if r < 0.35:
            o = [list(x) for x in rng.choice(ALL48)]
            steps.append(['r', o])
            fl = cur
            cur = np.transpose(fl, list(np.argsort([x[0] for x in o])) + list(range(3, cur.ndim)))
        elif r < 0.65:
            idx = rand_ok_spatial_idx(rng, cur.shape)
            steps.append(['s', [item_to_data(i) for i in idx]])
            cur = cur[idx]
        elif r < 0.8:
            steps.append(['c'])
            cur = None
        else:
            steps.append(['x', ''.join(rng.choice(a) for a in rng.sample(['LR', 'PA', 'IS'], 3))])
            cur = None
        if cur is None:      # shape after canonical / axcodes depends on the affine: only shape-agnostic steps follow
            for _ in range(rng.choice([0, 1])):
                steps.append(['x', ''.join(rng.choice(a) for a in rng.sample(['LR', 'PA', 'IS'], 3))]
                             if rng.random() < 0.6 else ['c'])
            break
    return steps


def fhex(x):
    return float(x).hex()


def cases(rng, tier):
    out = []
    quick = tier == 'quick'
    # ---------------------------------------------------------------- slicer: exhaustive single axis
    affs = [IDENT_AFF, [2, 1, 0, -3, -1, 3, 1, 4, 0, 1, -2, 5]]
    for n in range(1, 5):
        k = 0
        for a in bounds(n):
            for b in bounds(n):
                for c in STEPS:
                    k += 1
                    axes = (k % 3,) if quick else (0, 1, 2)
                    for ax in axes:
                        shape = [2, 2, 2]
                        shape[ax] = n
                        idx = [slice(None)] * 3
                        idx[ax] = slice(a, b, c)
                        out.append(mk_slice(tuple(shape), affs[(k + ax) % 2], tuple(idx[:ax + 1]), stream='slicer-1axis'))
    # the historical defect inputs
    for idx in [(slice(None, None, -1),), (slice(-1, None),), (slice(None), slice(None, None, -2)),
                (slice(None), slice(-2, None)), (Ellipsis, slice(-7, None))]:
        out.append(mk_slice((2, 3, 4), affs[1], idx, stream='slicer-1axis'))
    # ---------------------------------------------------------------- slicer: random
    for _ in range({'quick': 3000, 'thorough': 60000, 'search': 12000}[tier]):
        shape = rand_shape(rng)
        cls = rng.choice(['n1', 'n1', 'n1', 'n2', 'mgh', 'n1p'])
        idx = rand_slicer_idx(rng, shape)
        if cls == 'mgh' and (len(shape) > 4 or any(i is None for i in idx)):
            cls = 'spm'
        out.append(mk_slice(shape, rand_aff(rng), idx, cls, 'slicer-random'))
    # ---------------------------------------------------------------- slicer: malformed / edge
    for _ in range({'quick': 400, 'thorough': 4000, 'search': 400}[tier]):
        shape = rand_shape(rng)
        idx = list(rand_slicer_idx(rng, shape))
        r = rng.random()
        if r < 0.3:
            idx[rng.randrange(0, min(3, len(idx)))] = rng.randrange(-shape[0] - 1, shape[0] + 1)     # scalar index
        elif r < 0.5:
            idx.insert(rng.randrange(0, min(3, len(idx)) + 1), None)                                     # early newaxis
        elif r < 0.65:
            pos = rng.randrange(0, len(idx))
            if isinstance(idx[pos], slice):
                idx[pos] = slice(idx[pos].start, idx[pos].stop, 0)                                       # zero step
        elif r < 0.8:
            idx = [i for i in idx if i is not Ellipsis] + [slice(None)] * (len(shape) + 1)              # too many
            idx = idx[:len(shape) + 1 + sum(1 for i in idx[:len(shape) + 1] if i is None)]
        elif r < 0.9:
            ax = rng.randrange(0, 3)
            n = shape[ax]
            idx = [slice(None)] * 3
            idx[ax] = rng.choice([slice(n, None), slice(0, 0), slice(None, None, -1) if False else slice(0, n, -1),
                                  slice(-n - 2, -n - 1)])                                                # empty
        else:
            if len(shape) > 3:
                idx = [slice(None)] * 3 + [rng.choice([shape[3], -shape[3] - 1])]                        # int out of range
        out.append(mk_slice(shape, rand_aff(rng), tuple(idx), 'n1', 'slicer-malformed'))
    # ---------------------------------------------------------------- as_reoriented: all 48
    shapes48 = [(2, 3, 4), (3, 1, 2), (2, 2, 3, 2)] if quick else [(2, 3, 4), (3, 1, 2), (1, 1, 1), (4, 2, 3), (2, 2, 3, 2),
                                                                  (2, 3, 2, 1, 2)]
    for shape in shapes48:
        for o in ALL48:
            cls = rng.choice(['n1', 'n1', 'n2', 'mgh', 'n1p'])
            if cls == 'mgh' and len(shape) > 4:
                cls = 'n1'
            out.append(mk_reor(shape, rand_aff(rng), [list(r) for r in o], rand_dim(rng), cls, 'reorient-48'))
    for _ in range({'quick': 800, 'thorough': 12000, 'search': 3000}[tier]):
        shape = rand_shape(rng)
        o = [list(r) for r in rng.choice(ALL48)]
        out.append(mk_reor(shape, rand_aff(rng), o, rand_dim(rng), rng.choice(['n1', 'n1', 'n2', 'n1p']), 'reorient-random'))
    for _ in range(40 if quick else 300):
        shape = rand_shape(rng)
        o = [list(r) for r in rng.choice(ALL48)]
        o[rng.randrange(3)] = None
        if rng.random() < 0.3:
            o[rng.randrange(3)] = None
        out.append(mk_reor(shape, rand_aff(rng), o, rand_dim(rng), 'n1', 'reorient-nan'))
    # ---------------------------------------------------------------- configuration must not matter:
    # header sform/qform codes (incl. 0/0 = fallback affine), class, dtype, byte order, proxy, ornt dtype
    for cp in CODE_PAIRS:                      # every code pair x a flip, a swap+flip and a rotation, 3-D and 4-D
        for o in ([[0, -1], [1, 1], [2, 1]], [[1, 1], [0, -1], [2, 1]], [[2, -1], [0, 1], [1, -1]]):
            for shape in ((2, 3, 4), (3, 2, 4, 2)):
                cls = rng.choice(['n1', 'n1p', 'n2', 'n2p', 'pair'])
                aff = base_aff(rng, shape) if cp == (0, 0) and rng.random() < 0.5 else rand_aff(rng)
                opts, _ = rand_opts(rng, cls, shape, force_codes=cp)
                out.append(mk_reor(shape, aff, [list(r) for r in o], rand_dim(rng), cls, 'reorient-config', opts))
        shape = rand_shape(rng, cap=120)
        cls = rng.choice(['n1', 'n1p', 'n2p'])
        opts, _ = rand_opts(rng, cls, shape, force_codes=cp)
        out.append(mk_canon(shape, base_aff(rng, shape) if cp == (0, 0) else rand_aff(rng), rand_dim(rng), False, cls,
                            'canonical-config', opts))
        opts, _ = rand_opts(rng, cls, shape, force_codes=cp)
        out.append(mk_slice(shape, base_aff(rng, shape) if cp == (0, 0) else rand_aff(rng),
                            rand_ok_spatial_idx(rng, shape), cls, 'slicer-config', opts))
    for _ in range({'quick': 500, 'thorough': 8000, 'search': 2000}[tier]):
        shape = rand_shape(rng, cap=240)
        cls = rand_cls(rng, shape)
        opts, aff = rand_opts(rng, cls, shape, state=rng.random() < 0.5)
        o = [list(r) for r in rng.choice(ALL48)]
        out.append(mk_reor(shape, aff or rand_aff(rng), o, rand_dim(rng), cls, 'reorient-config', opts))
    for _ in range({'quick': 300, 'thorough': 5000, 'search': 1000}[tier]):
        shape = rand_shape(rng, cap=160)
        cls = rand_cls(rng, shape)
        opts, aff = rand_opts(rng, cls, shape, state=rng.random() < 0.5)
        out.append(mk_canon(shape, aff or rand_aff(rng), rand_dim(rng), rng.random() < 0.1, cls, 'canonical-config', opts))
    for _ in range({'quick': 500, 'thorough': 8000, 'search': 2000}[tier]):
        shape = rand_shape(rng, cap=240)
        idx = rand_slicer_idx(rng, shape) if rng.random() < 0.5 else rand_ok_spatial_idx(rng, shape)
        cls = rand_cls(rng, shape, any(i is None for i in idx))
        opts, aff = rand_opts(rng, cls, shape, state=rng.random() < 0.5)
        out.append(mk_slice(shape, aff or rand_aff(rng), idx, cls, 'slicer-config', opts))
    # ---------------------------------------------------------------- the STATE of the image object when the
    # operation is called: image source (array / proxy from memory / file / compressed file / proxy with scaling)
    # x dtype and values float32 or float64 cannot hold x what was called on the image before, for EVERY operation
    hists = [[t] for t in HIST_TOKENS] + [['g4f-', 'u'], ['g8f-', 'g4f-'], ['g4f-', 'g8f-'], ['g4fe', 'g4f-'],
                                          ['g8fe', 'u'], ['g4u-', 'g8fe'], ['g8fe', 'g8fe', 'g4f-'], []]
    dt_vals = [('i4', 'b24'), ('i4', 'hi'), ('i8', 'b53'), ('i8', 'b24'), ('u8', 'b53'), ('f8', 'b24'), ('f8', 'frac'),
               ('f4', 'frac'), ('i2', 'small'), ('>i4', 'neg'), ('u4', 'hi'), ('>f8', 'frac'), ('i8', 'neg')]
    k = 0
    for opn in ('reor', 'canon', 'slice', 'chain'):
        for hist in hists:
            for dt, vals in dt_vals:
                k += 1
                if quick:
                    srcs = [('fmap', 'file', 'fmap', 'gz', 'fmap')[k % 5]] + (['arr'] if k % 3 == 0 else [])
                else:
                    srcs = ['fmap', 'arr', ('file', 'gz')[k % 2]]
                for src in srcs:
                    shape = rand_shape(rng, cap=60)
                    nifti_only = np.dtype(dt).str[1:] in ('i8', 'u8', 'u4')
                    cls = rng.choice(['n1', 'n1', 'n2', 'pair'] if nifti_only else
                                     ['n1', 'n1', 'n2', 'pair', 'spm', 'ana', 'mgh'])
                    if cls == 'mgh' and (len(shape) > 4 or np.dtype(dt).str[1:] == 'f8'):
                        cls = 'spm'
                    opts = {'src': src, 'dt': dt, 'vals': vals}
                    if hist:
                        opts['hist'] = list(hist)
                    if src != 'arr' and rng.random() < (0.15 if quick else 0.3):
                        opts['scl'] = 1
                    if src == 'file' and rng.random() < 0.4:
                        opts['mm'] = 0
                    if rng.random() < 0.15:
                        opts['hfrom'] = rng.choice(['n1', 'n2', 'mgh', 'ana', 'spm'])
                    if cls in NIFTI and rng.random() < 0.3:
                        opts['codes'] = list(rng.choice(CODE_PAIRS))
                    if opn == 'reor':
                        o = [list(r) for r in rng.choice(ALL48[1:])]
                        out.append(mk_reor(shape, rand_aff(rng), o, rand_dim(rng), cls, 'reorient-state', opts))
                    elif opn == 'canon':
                        out.append(mk_canon(shape, rand_aff(rng, rng.choice(['oblique', 'perm'])), rand_dim(rng), False,
                                            cls, 'canonical-state', opts))
                    elif opn == 'slice':
                        out.append(mk_slice(shape, rand_aff(rng), rand_ok_spatial_idx(rng, shape), cls, 'slicer-state',
                                            opts))
                    else:
                        out.append(mk_chain(shape, rand_aff(rng, rng.choice(['perm', 'oblique'])), rand_dim(rng),
                                            rand_chain(rng, shape, True), cls, 'chain-state', opts))
    # ---------------------------------------------------------------- histories (oracle only): reorient / slice /
    # canonicalise / reorient-to-axis-codes applied one after the other to the same image
    for _ in range({'quick': 500, 'thorough': 8000, 'search': 2000}[tier]):
        shape = rand_shape(rng, cap=160)
        cls = rng.choice(['n1', 'n1', 'n2', 'n1p', 'n2p', 'pair', 'spm', 'mgh'])
        st = rng.random() < 0.5
        steps = rand_chain(rng, shape, st)
        if cls == 'mgh' and len(shape) > 4:
            cls = 'spm'
        opts, aff = rand_opts(rng, cls, shape, state=st)
        opts.pop('odt', None)
        kind = rng.choice(['perm', 'perm', 'diag', 'oblique', 'shear'])
        out.append(mk_chain(shape, aff or rand_aff(rng, kind), rand_dim(rng), steps, cls, 'chain', opts))
    # ---------------------------------------------------------------- as_closest_canonical
    for _ in range({'quick': 1200, 'thorough': 20000, 'search': 4000}[tier]):
        shape = rand_shape(rng, cap=200)
        out.append(mk_canon(shape, rand_aff(rng), rand_dim(rng), rng.random() < 0.15, rng.choice(['n1', 'n1', 'n2', 'mgh'])
                            if len(shape) <= 4 else 'n1', 'canonical'))
    for o in ALL48:          # signed permutation x zoom affines: every orientation is reachable
        for shape in ([(2, 3, 4)] if quick else [(2, 3, 4), (3, 2, 2, 2)]):
            m = [0] * 12
            for c in range(3):
                m[4 * o[c][0] + c] = o[c][1] * rng.choice([1, 2, 4])
            m[3], m[7], m[11] = rng.randrange(-9, 10), rng.randrange(-9, 10), rng.randrange(-9, 10)
            out.append(mk_canon(shape, m, rand_dim(rng), rng.random() < 0.5, 'n1', 'canonical-48'))
    for _ in range(30 if quick else 300):   # singular affines: dropped axes
        a = rand_aff(rng)
        c = rng.randrange(3)
        for r in range(3):
            a[4 * r + c] = 0
        out.append(mk_canon(rand_shape(rng, cap=60), a, [None, None, None], False, 'spm', 'canonical-singular'))
    # ---------------------------------------------------------------- io_orientation on float affines
    for o in ALL48:
        A = [[0.0] * 4 for _ in range(4)]
        A[3][3] = 1.0
        for c in range(3):
            A[o[c][0]][c] = o[c][1] * 2.0 ** rng.randrange(-6, 7)
            A[c][3] = rng.uniform(-100, 100)
        out.append(mk_ioor([[fhex(v) for v in row] for row in A], 'io-signed-perm'))
    for _ in range({'quick': 1500, 'thorough': 30000, 'search': 5000}[tier]):
        r = rng.random()
        q, p = (3, 3) if r < 0.8 else rng.choice([(2, 2), (2, 3), (3, 2), (3, 4), (4, 3), (1, 3)])
        A = np.zeros((q + 1, p + 1))
        A[q, p] = 1
        kind = rng.random()
        if kind < 0.5:
            A[:q, :p] = [[rng.uniform(-3, 3) for _ in range(p)] for _ in range(q)]
        elif kind < 0.75:       # ties and near ties: small integers
            A[:q, :p] = [[rng.choice([-2, -1, 0, 1, 1, 2]) for _ in range(p)] for _ in range(q)]
        elif kind < 0.9 and q == p == 3:   # rotations about an axis by multiples of 45 degrees, scaled
            th = rng.choice([45, 90, 135, 30, 60]) * np.pi / 180
            ax = rng.randrange(3)
            Rm = np.eye(3)
            i, j = [k for k in range(3) if k != ax]
            Rm[i, i], Rm[i, j], Rm[j, i], Rm[j, j] = np.cos(th), -np.sin(th), np.sin(th), np.cos(th)
            A[:3, :3] = Rm * [rng.choice([0.5, 1, 2, 3]) for _ in range(3)]
        else:
            A[:q, :p] = [[rng.uniform(-3, 3) for _ in range(p)] for _ in range(q)]
            A[:q, rng.randrange(p)] = 0          # zero column
        A[:q, p] = [rng.uniform(-50, 50) for _ in range(q)]
        if not np.any(A[:q, :p]):
            continue
        out.append(mk_ioor([[fhex(v) for v in row] for row in A], 'io-random'))
    # ---------------------------------------------------------------- orientation utilities
    for o in ALL48:
        oo = [list(r) for r in o]
        out.append(mk_util('orn2ax', {'ornt': oo}))
        for shape in [(2, 3, 4), (1, 5, 2), (3, 3, 3, 2)]:
            out.append(mk_util('invaff', {'ornt': oo, 'shape': list(shape)}))
        for o2 in ALL48:
            out.append(mk_util('otrans', {'a': oo, 'b': [list(r) for r in o2]}))
    for codes in itertools.product('LRPAIS_', repeat=3):
        out.append(mk_util('ax2orn', {'codes': ''.join(codes)}))
    for codes in ['', 'R', 'LA', 'RASL', 'XAS', 'ras', 'R_', 'RAQ']:
        out.append(mk_util('ax2orn', {'codes': codes}))
    for _ in range(150 if quick else 1500):
        n = rng.choice([1, 2, 3, 4])
        def rnd_o(n):
            p = list(range(n))
            rng.shuffle(p)
            return [[p[i], rng.choice([1, -1])] for i in range(n)]
        a, b = rnd_o(n), rnd_o(n)
        r = rng.random()
        if r < 0.1:
            b = rnd_o(rng.choice([k for k in (1, 2, 3, 4) if k != n]))      # different lengths
        elif r < 0.2:
            b[rng.randrange(n)][0] = n + rng.randrange(0, 2)                 # axis missing from start
        out.append(mk_util('otrans', {'a': a, 'b': b}, 'ornt-utils-random'))
        o = rnd_o(min(n, 3))
        r = rng.random()
        if r < 0.1:
            o[rng.randrange(len(o))] = None
        elif r < 0.15:
            o[rng.randrange(len(o))][1] = rng.choice([0, 2])                 # bad direction
        elif r < 0.2:
            o[rng.randrange(len(o))][0] = 3                                  # no such label
        out.append(mk_util('orn2ax', {'ornt': o}, 'ornt-utils-random'))
    return out
