"""C01 — lossless voxel round-trip through every writable volume format.

Streams
  rt       save + load of one array through one (class, route, compression, endianness, on-disk dtype,
           data offset) cell; the model predicts the data-file length, the zero fill, the bytes of the
           data region, what follows it, and the loaded shape + bit patterns.
  perm     rt on every axis permutation of C-/F-contiguous buffers (rank 2-4) with the on-disk dtype and byte
           order equal to the in-memory ones (no cast, no swap) and with a cast.
  history  rt where the SAME image object was saved before with other on-disk dtypes (rescaled / refused / plain)
           to other destinations; the lossless save under test must still store exactly the cast bytes.
  dtypearg rt where the on-disk dtype is handed over as the `dtype=` argument of to_filename / to_file_map / to_stream /
           to_bytes / nib.save (spelled as dtype in either byte order, name string, scalar type) instead of being set in
           the header: class x header byte order x the way the header got it (endianness=, as_byteswapped, loaded) x
           spelling; the header dtype after the call is an observable too.
  resave   the image is saved, LOADED in a child process working in the file's directory (mmap True/False/'c'/'r';
           nib.load / from_filename / open file objects; path spelled absolute, relative, ./x, sub/../x, pathlib,
           through a symlink, with a double slash) and saved over its own file (same or another spelling, own file_map,
           get_filename(), nib.save; same object, re-wrapped dataobj, re-wrapped memmap array, re-wrapped base-class
           VIEWS of the memmap: np.asarray, asfortranarray, .view(np.ndarray), [...], .T.T); the final file is tested.
  donor    the image is built with the HEADER OF ANOTHER IMAGE (`klass(data, donor.affine, donor.header)`): class x
           relation of the donor's shape to the data's (trailing / leading length-1 axes added or removed, other rank,
           other lengths, same number of elements, equal, long vectors) x donor class (same / every other, MGH included)
           x donor dtype / byte order / zooms x donor fresh | loaded | already saved; also a random quarter of `rt`.
           The model runs from_header, update_header, set_data_dtype; the written `dim` / `glmin` are observables too.
  mf       volumeutils.maps_file on arrays made by chains of view / copy steps from memory maps (np.memmap r / c / r+,
           np.frombuffer(mmap), loaded proxies) and from plain buffers, against the model on the `.base` chain; the
           oracle demands True whenever np.shares_memory(array, map).
  long     LONG axes (> 2**16; (N,1,1), (1,N,1), (N,), (1,1,1,N), (N,2), (2,N); N incl. 131072, 163842, 196608,
           200000 and random ones) for some classes / dtypes / routes; values from a compact LCG spec.
  hshape   set_data_shape / get_data_shape of the Analyze-family headers against the model (limits of `dim`, the two
           FreeSurfer conventions of NIfTI-1), incl. the refusals.
  zero     rt on zero-size arrays (repaired by `fix: array_from_file returns an empty array ...`).
  refuse   rt with a data offset below the single-file minimum: both sides must refuse.
  sn       ArrayWriter / SlopeArrayWriter.scaling_needed against the model, all dtype pairs.
  codec    Opener._get_opener_argnames against the model on structured + random file names.
  opener   the file objects ImageOpener really opens for 'wb' and 'rb' on the table names.
  rd       array_from_file on truncated / exact / over-long data files (refusal on short files).
  mghshape MGH shape rules (constructor padding, header shape, save refusal).
Concurrent access to one file handle (threads slicing while the whole array is read) is C14, not checked here.
"""
import bz2
import gzip
import io
import itertools
import logging
import os
import tempfile
import warnings

import numpy as np

import common
from common import Case, errname

PID = 'C01'
LEAN_TARGETS = ['NibabelModel.Props.C01']
THEOREMS = [
    'Nb.C01.dec_enc',
    'Nb.C01.decElem_encElem',
    'Nb.C01.stored_is_cast',
    'Nb.C01.roundtrip_bytes',
    'Nb.C01.roundtrip_bytes_elementwise',
    'Nb.C01.roundtrip_through_codec',
    'Nb.C01.short_file_refused',
    'Nb.C01.int_cast_exact',
    'Nb.C01.mgh_layout',
    'Nb.C01.mgh_shape_accepted_iff',
    'Nb.C01.mgh_single_frame_4d_counterexample',
    'Nb.C01.zero_size_orig_counterexample',
    'Nb.C01.codec_by_suffix',
    'Nb.C01.codec_same_for_read_and_write',  # GLUE (codec_by_suffix twice; Opener.__init__ kwargs not modelled)
    'Nb.C01.table_codecs_canonical',
    'Nb.C01.dtype_override_plan',            # GLUE (by construction); real statement: dtype_override_roundtrip_iff
    'Nb.C01.dtype_override_roundtrip',       # GLUE (same); real statement: dtype_override_uses_header_order
    'Nb.C01.dtype_override_native_order_counterexample',
    'Nb.C01.resave_in_place',                # corollary of roundtrip_bytes; the decision is in resave_view_in_place
    'Nb.C01.resave_lazy_counterexample',
    'Nb.C01.mgh_resave_in_place',            # corollary; decision: mgh_resave_view_in_place
    'Nb.C01.float_out_never_scaled',
    'Nb.C01.same_dtype_exact',
    'Nb.C01.shape_roundtrip',
    'Nb.C01.nifti1_ico7_alias_counterexample',
    'Nb.C01.shape_rules_generated',
    'Nb.C01.mgh_constants_generated',
    'Nb.C01.header_shape_follows_data',
    'Nb.C01.reused_header_roundtrip',
    'Nb.C01.update_header_tolerant_counterexample',
    'Nb.C01.from_header_state',
    'Nb.C01.mgh_donor_irrelevant',
    'Nb.C01.donor_tables_generated',
    'Nb.C01.maps_file_iff',
    'Nb.C01.resave_view_in_place',
    'Nb.C01.maps_file_orig_counterexample',
    'Nb.C01.maps_file_arrays_only_counterexample',
    'Nb.C01.mgh_resave_view_in_place',
    'Nb.C01.resave_arrays_only_counterexample',
    'Nb.C01.dtype_override_uses_header_order',
    'Nb.C01.dtype_override_other_order_fails',
    'Nb.C01.code_tables_generated',
    'Nb.C01.dtype_override_roundtrip_iff',
    'Nb.C01.mgh_footer_offset_generated',
]
ASSUMPTIONS = [
    'hand-written Lean model (Model/C01.lean) of the scaling-free path: ArrayWriter/SlopeArrayWriter.scaling_needed, '
    'array_to_file/_write_data direct cast, AnalyzeImage.to_file_map layout, array_from_file (non-mmap branch), '
    'MGH shape rules + layout, Opener suffix choice; tied to the code by the correspondence streams of this run',
    'NumPy is trusted for: logical indexing of C/F/strided/negative-stride inputs, element casts between different '
    'float/complex widths and int->float (enter the model as already-cast bit patterns), np.can_cast (model table '
    're-validated exhaustively on the sn stream), np.memmap (the mmap read branch is compared as an observable only)',
    'compression codecs gzip/bz2/zstd: contract decompress(compress(b)) = b (theorem roundtrip_through_codec takes it '
    'as a hypothesis); the harness decompresses with the stdlib/pyzstd modules directly, not through nibabel',
    'Char.toLower (ASCII) stands for str.lower() on file-name extensions (names generated are ASCII)',
    'header bytes are opaque to the model (dummy bytes of the generated length); header field round-trip is C10 - except '
    'the shape fields (dim, glmin) and the (byte order, data-type code) pair, which Model/C01 now models '
    '(setShape/getShape, Hdr/saveDType) and the hshape / dtypearg streams tie to the code',
    'reused headers: Model/C01 now models from_header (copy for the same header class, native-order conversion with '
    'glmin hand-over otherwise), set_data_shape on a header in any prior state and the shape part of update_header; '
    'check_fix, zooms, affine fields and every other header field of a donor are not modelled (C10); the supported-dtype '
    'list of a class is the generator\'s (donor dtypes are drawn from the dtypes both classes accept)',
    'maps_file: NumPy\'s `.base` bookkeeping is trusted (the harness reads the chain off the real array); contract: an '
    'array reads from a mapped file iff its chain reaches np.memmap / mmap.mmap through ndarrays (np.frombuffer(mmap) '
    'breaks it with a memoryview link: open finding maps_file:frombuffer-mmap-memoryview)',
    'resave: the operating system contract "open(name, \'wb\') truncates the file a memory map refers to" is modelled as '
    'the empty file; path resolution (relative names, symlinks) is the OS\'s, exercised by the resave stream only',
]
RULE = ('rt: every valid (class x route x compression) cell x random (endianness, input dtype, on-disk dtype needing no '
        'scaling, rank 1-7 shape with length-1 axes, memory layout C/F/strided/negative/byte-swapped/unaligned/'
        'read-only, extremes + NaN payloads + infinities + signed zeros, default or explicit data offset); '
        'a case is non-trivial when the array has >= 2 elements; distinct by (class, route, compression, endianness, '
        'in dtype, out dtype, shape, layout, offset, values, history). perm: all axis permutations for rank 2-4 x C/F base x '
        'class x endianness with memory byte order == disk byte order. history: class x prior dtype x tested dtype. '
        'dtypearg: class x {<,>} x header source x dtype= spelling x route. resave: class x path spelling x mmap mode x '
        'random (loader, save spelling, re-wrapping, compression, > 1 page of data). long: fixed list of long shapes + '
        'random lengths in (2**16, 1.4e5) per seed. hshape: limits of dim/glmin, both FreeSurfer conventions, ranks 1-8. '
        'donor: class x 10 shape relations x {same class, two other classes} x cycled (state, route, dtype), random donor '
        'dtype / byte order / zooms. mf: 9 roots x (every step, asarray + every step, random chains of 2-5 steps). '
        'Concurrent access through a shared handle is C14. sn: all dtype pairs x value classes x {base, slope}. '
        'codec: every generated table name x roots + random names. mghshape: all shapes of rank 0-5 over {1,2,3}.')

PENDING_FINDINGS = [{
    'property': 'C01', 'signature': 'mgh:single-frame-4d-shape', 'status': 'open',
    'what': 'MGH cannot represent a trailing length-1 4th axis: saving shape (x,y,z,1) is refused '
            '(HeaderDataError "Data should be shape (x, y, z)") / would reload as (x,y,z)',
    'input': {'op': 'rt', 'cls': 'MGHImage', 'endian': '>', 'out': 'u1', 'offset': None, 'shape': [1, 1, 1, 1],
              'in': 'u1', 'layout': 'C', 'vals': [7], 'route': 'bytes', 'comp': '', 'stream': 'rt'},
}, {
    'property': 'C01', 'signature': 'nifti1:ico7-shape-alias', 'status': 'open',
    'what': 'NIfTI-1 (single and pair): an image whose shape begins (27307, 1, 6) is loaded back with shape '
            '(163842, 1, 1, ...): Nifti1Header.get_data_shape applies the FreeSurfer ico7 convention to every header '
            'whose dim[1:4] is (27307, 1, 6) (same voxels, different shape)',
    'input': {'op': 'rt', 'cls': 'Nifti1Image', 'endian': '<', 'out': 'u1', 'offset': None, 'shape': [27307, 1, 6],
              'in': 'u1', 'layout': 'C', 'vals': {'lcg': [77, 5, 256, 0]}, 'route': 'bytes', 'comp': '',
              'stream': 'long'},
}, {
    'property': 'C01', 'signature': 'maps_file:dlpack-capsule-owner', 'status': 'open',
    'what': 'volumeutils.maps_file() answers False for np.from_dlpack(memmap): the owner of the array is an opaque '
            'PyCapsule, so the walk over owners ends before the memory map; an image wrapping such an array saved over '
            'the mapped file truncates the file under the data (SIGBUS, 352-byte file)',
    'input': {'op': 'mf', 'recipe': ['proxy_c', 'dlpack']},
}]

logging.getLogger('nibabel').setLevel(logging.CRITICAL)
warnings.simplefilter('ignore')

CLASS_NAMES = ['Nifti1Image', 'Nifti1Pair', 'Nifti2Image', 'Nifti2Pair', 'AnalyzeImage', 'Spm99AnalyzeImage',
               'Spm2AnalyzeImage', 'MGHImage']
INT_DT = ['u1', 'i1', 'u2', 'i2', 'u4', 'i4', 'u8', 'i8']
FLOAT_DT = ['f2', 'f4', 'f8', 'f16']
CPLX_DT = ['c8', 'c16', 'c32']
ALL_DT = INT_DT + FLOAT_DT + CPLX_DT + ['rgb', 'rgba']
CODEC_OF_FUNC = {'_gzip_open': 'gz', 'BZ2File': 'bz2', '_zstd_open': 'zst', 'open': 'raw'}
CANON_CODEC = {'.gz': 'gz', '.mgz': 'gz', '.bz2': 'bz2', '.zst': 'zst'}

try:
    import pyzstd
    HAVE_ZSTD = True
except Exception:                                    # pragma: no cover
    pyzstd = None
    HAVE_ZSTD = False


def np_dtype(name):
    if name == 'rgb':
        return np.dtype([('R', 'u1'), ('G', 'u1'), ('B', 'u1')])
    if name == 'rgba':
        return np.dtype([('R', 'u1'), ('G', 'u1'), ('B', 'u1'), ('A', 'u1')])
    return np.dtype(name)


def comp_layout(name):
    """(kind, component width, number of components) of a protocol dtype name"""
    if name == 'rgb':
        return 'V', 1, 3
    if name == 'rgba':
        return 'V', 1, 4
    dt = np.dtype(name)
    if dt.kind == 'c':
        return 'c', dt.itemsize // 2, 2
    return dt.kind, dt.itemsize, 1


_CLS = {}


def klass(name):
    import nibabel as nib
    return getattr(nib, name)


def class_info():
    """layout facts of the writable volume classes, read off the working tree"""
    if _CLS:
        return _CLS
    import nibabel as nib
    from nibabel.filebasedimages import SerializableImage
    for name in CLASS_NAMES:
        c = getattr(nib, name)
        hc = c.header_class
        ok = []
        for dn in ALL_DT:
            try:
                hc().set_data_dtype(np_dtype(dn))
                ok.append(dn)
            except Exception:
                pass
        if name == 'MGHImage':
            from nibabel.freesurfer import mghformat
            layout, hlen, off, ftr = 'mgh', hc._hdrdtype.itemsize + (mghformat.DATA_OFFSET - hc._hdrdtype.itemsize), \
                mghformat.DATA_OFFSET, hc._ftrdtype.itemsize
            # header struct (90 bytes) is padded to DATA_OFFSET by writehdr_to
            b = io.BytesIO()
            hc().writehdr_to(b)
            hlen = len(b.getvalue())
            slope = inter = False
        else:
            img = c(np.zeros((1, 1, 1), 'u1'), np.eye(4))
            img.update_header()
            b = io.BytesIO()
            img.header.write_to(b)
            single = len(c.files_types) == 1
            layout = 'single' if single else 'pair'
            hlen = len(b.getvalue()) if single else 0
            fm = c.make_file_map()
            for k in fm:
                fm[k].fileobj = io.BytesIO()
            img.to_file_map(fm)
            off = len(fm['image'].fileobj.getvalue()) - 1
            ftr = 0
            slope, inter = bool(hc().has_data_slope), bool(hc().has_data_intercept)
        _CLS[name] = dict(layout=layout, hlen=hlen, off=off, ftr=ftr, slope=slope, inter=inter, dtypes=ok,
                          serial=issubclass(c, SerializableImage), ext=c.files_types[0][1],
                          valid_exts=tuple(c.valid_exts), suffixes=tuple(c._compressed_suffixes),
                          big_only=(name == 'MGHImage'), max_rank=(4 if name == 'MGHImage' else 7))
    return _CLS


# ------------------------------------------------------------------ regeneration (Leg T)

def shape_rules():
    """(class, rule, max of the `dim` integer type, max of the `glmin` integer type) off the working tree"""
    rules = {'AnalyzeHeader': 'analyze', 'Nifti1Header': 'nifti1', 'Nifti2Header': 'nifti2'}
    out = []
    for cn in CLASS_NAMES:
        hc = klass(cn).header_class
        if cn == 'MGHImage':
            continue
        owner_set = hc.set_data_shape.__qualname__.split('.')[0]
        owner_get = hc.get_data_shape.__qualname__.split('.')[0]
        rule = rules.get(owner_set, 'unknown:' + owner_set) if owner_set == owner_get else f'mixed:{owner_set}/{owner_get}'
        h = hc()
        dm = int(np.iinfo(h['dim'].dtype).max)
        gm = int(np.iinfo(h['glmin'].dtype).max) if 'glmin' in h.keys() else 0
        out.append((cn, rule, dm, gm))
    return out


def dtype_code(cn, dn):
    """the code `header_class._data_type_codes` gives the dtype (as set_data_dtype looks it up)"""
    return int(klass(cn).header_class._data_type_codes[np_dtype(dn)])


def mgh_footer_samples():
    hc = klass('MGHImage').header_class
    out = []
    for dn in class_info()['MGHImage']['dtypes']:
        for sh in ((1, 1, 1), (2, 3, 4), (5, 1, 7, 3), (163842, 1, 1), (3, 1, 1, 2), (7,), (2, 9)):
            h = hc()
            h.set_data_dtype(np_dtype(dn))
            h.set_data_shape(sh)
            kind, cw, k = comp_layout(dn)
            out.append((cw, k, sh, int(h.get_data_offset()), int(h.get_footer_offset())))
    return out


def _lean_str(s):
    return '"' + s.replace('\\', '\\\\').replace('"', '\\"') + '"'


def regen():
    from nibabel.openers import ImageOpener
    info = class_info()
    cmap = [(k, CODEC_OF_FUNC[v[0].__name__]) for k, v in ImageOpener.compress_ext_map.items() if k is not None]
    names = []
    for cn in CLASS_NAMES:
        ci = info[cn]
        exts = [e for e in ci['valid_exts'] if e != '.hdr']     # data-file extensions ('.hdr' holds no voxels)
        for ext in exts:
            for suf in ('',) + ci['suffixes']:
                key = suf if suf else ext
                codec = dict(cmap).get(key, 'raw')
                names.append((cn, ext, suf, codec))
    b = lambda x: 'true' if x else 'false'
    src = ['/-! GENERATED by harness/props/c01.py `regen()` from the nibabel working tree — do not edit. -/',
           'namespace Nb.C01.Gen', '',
           '/-- `ImageOpener.compress_ext_map` without the `None` default: (extension, codec) -/',
           'def compressExtMap : List (String × String) :=',
           '  [' + ', '.join(f'({_lean_str(k)}, {_lean_str(v)})' for k, v in cmap) + ']', '',
           '/-- `ImageOpener.compress_ext_icase` -/',
           f'def compressExtIcase : Bool := {b(ImageOpener.compress_ext_icase)}', '',
           '/-- writable volume classes of C01:',
           '    (class, layout, bytes written before the zero fill in the data file, default data offset,',
           '     footer length, has_data_slope, has_data_intercept) -/',
           'def classes : List (String × String × Nat × Nat × Nat × Bool × Bool) :=',
           '  [' + ',\n   '.join(
               f'({_lean_str(cn)}, {_lean_str(info[cn]["layout"])}, {info[cn]["hlen"]}, {info[cn]["off"]}, '
               f'{info[cn]["ftr"]}, {b(info[cn]["slope"])}, {b(info[cn]["inter"])})' for cn in CLASS_NAMES) + ']', '',
           '/-- every data-file name pattern a class accepts: (class, extension, compressed suffix or "",',
           '    codec of `compress_ext_map[suffix or extension]`, "raw" when absent) -/',
           'def dataFileNames : List (String × String × String × String) :=',
           '  [' + ',\n   '.join(f'({_lean_str(a)}, {_lean_str(e)}, {_lean_str(s)}, {_lean_str(c)})'
                                 for a, e, s, c in names) + ']', '',
           '/-- shape fields of the Analyze-family header classes: (class, which get/set_data_shape the header class',
           '    has, np.iinfo(hdr["dim"].dtype).max, np.iinfo(hdr["glmin"].dtype).max or 0 when there is no glmin) -/',
           'def shapeRules : List (String × String × Nat × Nat) :=',
           '  [' + ',\n   '.join(f'({_lean_str(cn)}, {_lean_str(r)}, {dm}, {gm})' for cn, r, dm, gm in shape_rules()) + ']', '',
           '/-- header class of every writable volume image class: (image class, `klass.header_class.__name__`) -/',
           'def headerClasses : List (String × String) :=',
           '  [' + ', '.join(f'({_lean_str(cn)}, {_lean_str(klass(cn).header_class.__name__)})' for cn in CLASS_NAMES) + ']', '',
           '/-- `MGHHeader()["dims"]` of a fresh MGH header -/',
           'def mghFreshDims : List Nat := [' + ', '.join(str(int(x)) for x in klass('MGHImage').header_class()['dims']) + ']', '',
           '/-- `header_class._data_type_codes`: per image class the dtypes `set_data_dtype` accepts with their',
           '    `datatype` / `type` code: (class, [(dtype name, code)]) -/',
           'def dtypeCodes : List (String × List (String × Nat)) :=',
           '  [' + ',\n   '.join(
               f'({_lean_str(cn)}, [' + ', '.join(f'({_lean_str(dn)}, {dtype_code(cn, dn)})' for dn in info[cn]['dtypes']) + '])'
               for cn in CLASS_NAMES) + ']', '',
           '/-- samples of `MGHHeader.get_footer_offset()` / `get_data_offset()`: (component width, components,',
           '    `dims` handed to set_data_shape, get_data_offset(), get_footer_offset()) -/',
           'def mghFooterSamples : List (Nat × Nat × List Nat × Nat × Nat) :=',
           '  [' + ', '.join(f'({cw}, {k}, [{", ".join(map(str, sh))}], {do}, {fo})' for cw, k, sh, do, fo in mgh_footer_samples()) + ']', '',
           'end Nb.C01.Gen', '']
    common.write_if_changed(os.path.join(common.LEAN, 'NibabelModel', 'Generated', 'C01FileTypes.lean'),
                            '\n'.join(src))
    return ['Generated.C01FileTypes.compressExtMap', 'Generated.C01FileTypes.classes',
            'Generated.C01FileTypes.dataFileNames', 'Generated.C01FileTypes.shapeRules',
            'Generated.C01FileTypes.headerClasses', 'Generated.C01FileTypes.mghFreshDims',
            'Generated.C01FileTypes.dtypeCodes', 'Generated.C01FileTypes.mghFooterSamples']


# ------------------------------------------------------------------ arrays

def expand_vals(vals, in_name, n):
    """`vals` is the explicit list, or (long arrays) the compact spec {'lcg': [a, c, m, lo]}: component number j
    (element-major) is lo + (a*j + c) % m - an int for integer dtypes, a bit pattern per component otherwise."""
    if not isinstance(vals, dict):
        return vals
    a, c, m, lo = vals['lcg']
    kind, cw, k = comp_layout(in_name)
    j = np.arange(n * k, dtype=np.int64)
    flat = (lo + (a * j + c) % m).tolist()
    if kind in 'iu':
        return flat
    return [flat[i * k:(i + 1) * k] for i in range(n)]


def base_array(in_name, shape, vals):
    """logical array (C-contiguous) of the input dtype from the JSON values.
    ints: Python ints; f2/f4/f8/c8/c16/rgb/rgba: component bit patterns; f16/c32: f8/c16 patterns, upcast."""
    kind, cw, k = comp_layout(in_name)
    n = int(np.prod(shape, dtype=object)) if len(shape) else 1
    vals = expand_vals(vals, {'f16': 'f8', 'c32': 'c16'}.get(in_name, in_name), n)
    if kind in 'iu':
        if n > 4096 and all(-2 ** 63 <= v < 2 ** 63 for v in (min(vals), max(vals))):
            return np.array(vals, dtype=np.int64).astype(np_dtype(in_name)).reshape(shape)
        a = np.array([int(v) for v in vals], dtype=object).astype(np_dtype(in_name)) if n else np.zeros(0, np_dtype(in_name))
        return a.reshape(shape)
    if in_name in ('f16', 'c32'):
        src = 'f8' if in_name == 'f16' else 'c16'
        return base_array(src, shape, vals).astype(np_dtype(in_name))
    u = np.array([[int(c) for c in el] for el in vals], dtype='u%d' % cw).reshape(n, k) if n else np.zeros((0, k), 'u%d' % cw)
    a = np.ascontiguousarray(u).view(np_dtype(in_name)).reshape(shape)
    return a


GEOMS = ['C', 'F', 'strided', 'neg', 'unaligned', 'bigstride']


def _geom(a, geom):
    nd = a.ndim
    if geom == 'C':
        return np.ascontiguousarray(a)
    if geom == 'F':
        return np.asfortranarray(a)
    if geom == 'strided':
        big = np.zeros(tuple(2 * s for s in a.shape), a.dtype)
        sl = (slice(None, None, 2),) * nd
        big[sl] = a
        return big[sl]
    if geom == 'bigstride':
        big = np.zeros(a.shape + (3,), a.dtype, order='F' if nd % 2 else 'C')
        big[..., 1] = a
        return big[..., 1]
    if geom == 'neg':
        rev = (slice(None, None, -1),) * nd
        return np.ascontiguousarray(a[rev])[rev]
    if geom == 'unaligned':
        buf = bytearray(a.nbytes + 1)
        v = np.frombuffer(buf, dtype=a.dtype, count=a.size, offset=1).reshape(a.shape)
        v[...] = a
        return v
    if geom.startswith('perm:'):
        # memory = C- or F-contiguous buffer holding the axes in the order `perm`, viewed back in logical
        # order (e.g. a series assembled volumes-first and viewed volumes-last)
        _, base, ptxt = geom.split(':')
        perm = tuple(int(x) for x in ptxt.split('.')) if ptxt else ()
        if sorted(perm) != list(range(nd)):
            return a                                   # (shrunk shape no longer matches: plain layout)
        t = a.transpose(perm)
        buf = np.ascontiguousarray(t) if base == 'C' else np.asfortranarray(t)
        return buf.transpose(np.argsort(perm))
    raise ValueError(geom)


def with_layout(a, layout):
    """an array logically equal to `a` with the requested memory layout.
    layout = <geometry>[+swap][+ro]; geometry in GEOMS or perm:<C|F>:<axis permutation, `.`-separated>;
    swap = non-native byte order in memory; ro = read-only.  (`swapped`, `readonly`: older spellings.)"""
    layout = {'swapped': 'F+swap', 'readonly': 'C+ro'}.get(layout, layout)
    parts = layout.split('+')
    geom, flags = parts[0], parts[1:]
    if a.size == 0:
        return a
    if 'swap' in flags and a.dtype.kind != 'V' and a.dtype.itemsize > 1:
        a = a.astype(a.dtype.newbyteorder('S'))
    v = _geom(a, geom)
    if 'ro' in flags:
        if v is a:
            v = a.copy()
        v.flags.writeable = False
    return v


def gen_layout(rng, rank):
    r = rng.random()
    if r < 0.45:
        p = list(range(rank))
        if rng.random() < 0.5:                      # rotations of the identity / the reversal
            k = rng.randrange(rank)
            p = p[k:] + p[:k]
            if rng.random() < 0.5:
                p.reverse()
        else:
            rng.shuffle(p)
        geom = f'perm:{rng.choice("CF")}:' + '.'.join(map(str, p))
    else:
        geom = rng.choice(GEOMS)
    if rng.random() < 0.5:
        geom += '+swap'
    if rng.random() < 0.1:
        geom += '+ro'
    return geom


def patterns(a, name):
    """list of component bit patterns per element, logical C order, of array `a` whose dtype is `name`"""
    kind, cw, k = comp_layout(name)
    if a.size == 0:
        return []
    nat = np.ascontiguousarray(a.astype(np_dtype(name)))
    u = nat.reshape(-1).view('u%d' % cw).reshape(-1, k)
    return u.tolist()


def fmt_elems(pats):
    if pats and len(pats[0]) == 1:
        return ','.join([str(el[0]) for el in pats])
    return ','.join(':'.join(str(c) for c in el) for el in pats) if pats else '-'


def fmt_shape(shape):
    return ','.join(map(str, shape)) if len(shape) else '-'


def in_int_range(name, v):
    ii = np.iinfo(np.dtype(name))
    return int(ii.min) <= v <= int(ii.max)


def needs_no_scaling(in_name, out_name, vals):
    """the generator's own statement of the property's domain (independent of nibabel and of the model)"""
    ik, _, _ = comp_layout(in_name)
    ok_, _, _ = comp_layout(out_name)
    if 'V' in (ik, ok_):
        return in_name == out_name
    if ok_ == 'c':
        return True
    if ik == 'c':
        return False
    if ok_ == 'f':
        return True
    if ik == 'f':            # float -> int: only arrays whose values are all (signed) zero
        return None          # decided by the caller from the values
    return all(in_int_range(out_name, int(v)) for v in vals)


# ------------------------------------------------------------------ cases

SPELLS = ['dtype', 'swapped', 'le', 'be', 'str', 'type']
HDR_SRCS = ['ctor', 'swap', 'loaded']


def spell_dtype(name, spell):
    """(object handed to `dtype=`, byte-order token of the protocol line)"""
    dt = np_dtype(name)
    if spell in ('str', 'type') and dt.kind == 'V':
        spell = 'dtype'
    if spell == 'dtype':
        return dt, '='
    if spell == 'swapped':
        return dt.newbyteorder('S'), ('>' if NATIVE == '<' else '<')
    if spell == 'le':
        return dt.newbyteorder('<'), '<'
    if spell == 'be':
        return dt.newbyteorder('>'), '>'
    if spell == 'str':
        return dt.name, '='
    if spell == 'type':
        return dt.type, '='
    raise ValueError(spell)


def mk_rt(cls, endian, out, offset, shape, in_name, layout, vals, route, comp, stream='rt', expect=None,
          history=None, opts=None):
    """opts (all optional):
      ovr     {'hdr0': header dtype before the save, 'spell': how `out` is handed to `dtype=`}: the on-disk dtype
              `out` is NOT set in the header but passed as the `dtype=` argument of the save call
      hdr_src how the header got its byte order: 'ctor' (endianness=), 'swap' (as_byteswapped), 'loaded' (header of
              an image loaded from a file of that byte order)
      saver   'method' (img.to_filename / to_file_map / to_bytes / to_stream) | 'nibsave' (nib.save, filename route)
      resave  {'mmap', 'load', 'lpath', 'spath', 'via', 'touch'}: the image is saved, LOADED (in a child process,
              cwd = the file's directory) and saved over its own file; the final file is the one under test
      donor   {'cls', 'shape', 'endian', 'dtype', 'state', 'setdt', 'zooms'}: the image is built with the HEADER OF ANOTHER
              IMAGE, `klass(data, donor.affine, donor.header)`; the donor is an image of class `cls` and shape `shape`
              whose header has byte order `endian` and dtype `dtype`, and is 'fresh' (in memory), 'loaded' (saved and
              loaded back) or 'saved' (in memory, already used in a save); setdt: `img.set_data_dtype(out)` follows the
              construction (else the donor's dtype IS the on-disk dtype); `endian` of the case is then the byte order
              the generator expects the file to have (the donor's for the same class, native otherwise)"""
    shape = tuple(int(s) for s in shape)
    data = {'op': 'rt', 'cls': cls, 'endian': endian, 'out': out, 'offset': offset, 'shape': list(shape),
            'in': in_name, 'layout': layout, 'vals': vals, 'route': route, 'comp': comp, 'stream': stream}
    if expect:
        data['expect'] = expect
    if history:
        data['history'] = history      # prior saves of the SAME image object: [{'out': dtype, 'route': route}]
    opts = {k: v for k, v in (opts or {}).items() if v not in (None, 'ctor', 'method')}
    data.update(opts)
    ik, _, _ = comp_layout(in_name)
    okd, _, _ = comp_layout(out)
    off = '_' if offset is None else str(offset)
    n = int(np.prod(shape, dtype=object)) if len(shape) else 1
    xv = expand_vals(vals, {'f16': 'f8', 'c32': 'c16'}.get(in_name, in_name), n)
    if opts.get('donor'):
        dn = opts['donor']
        head = (f'C01 rth {cls} {NATIVE} {dn["cls"]} {dn["endian"]} {dn["dtype"]} {fmt_shape(dn["shape"])} '
                f'{out if dn.get("setdt") else "_"}')
    elif opts.get('ovr'):
        obj_order = spell_dtype(out, opts['ovr']['spell'])[1]          # byte order of the dtype OBJECT ('=' = the machine's)
        head = f'C01 rtd {cls} {endian} {opts["ovr"]["hdr0"]} {out} {NATIVE if obj_order == "=" else obj_order}'
    elif opts.get('resave'):
        mapped, chain = rs_probe(cls, comp, opts['resave'])
        head = f'C01 rs {cls} {endian} {out} {mapped} {chain}'
    else:
        head = f'C01 rt {cls} {endian} {out}'
    if ik in 'iu' and okd in 'iu':
        line = f'{head} {off} {fmt_shape(shape)} {in_name} ' + (','.join(str(int(v)) for v in xv) if xv else '-')
    else:
        with np.errstate(all='ignore'):
            cast = base_array(in_name, shape, vals).astype(np_dtype(out))      # NumPy cast = model parameter
        line = f'{head} {off} {fmt_shape(shape)} raw {fmt_elems(patterns(cast, out))}'
    key = None if n < 2 else (cls, route, comp, endian, in_name, out, shape, layout, offset, repr(vals), repr(history),
                              repr(sorted(opts.items())))
    return Case(line, data, key, stream)


OPT_KEYS = ('ovr', 'hdr_src', 'saver', 'resave', 'donor')


def mk_sn(writer, in_name, out, vals):
    kind, cw, k = comp_layout(in_name)
    size = len(vals)
    if kind in 'iu':
        rng_tok = f'i:{min(vals)}:{max(vals)}' if vals else 'i:0:0'
    elif kind == 'V':
        rng_tok = 'fo'
    else:
        a = base_array(in_name, (size,), vals)
        if kind == 'c':
            rng_tok = 'fo'          # never consulted for complex input
        else:
            fin = a[np.isfinite(a)]
            rng_tok = 'fn' if fin.size == 0 else ('fz' if (fin.min() == 0 and fin.max() == 0) else 'fo')
    line = f'C01 sn {writer} {in_name} {out} {size} {rng_tok}'
    data = {'op': 'sn', 'writer': writer, 'in': in_name, 'out': out, 'vals': vals}
    return Case(line, data, ('sn', writer, in_name, out, rng_tok, size > 0), 'sn')


def mk_codec(name):
    line = 'C01 codec ' + (','.join(str(ord(c)) for c in name) if name else '-')
    return Case(line, {'op': 'codec', 'name': name}, ('codec', name), 'codec')


def mk_opener(name):
    line = 'C01 opener ' + ','.join(str(ord(c)) for c in name)
    return Case(line, {'op': 'opener', 'name': name}, ('opener', name), 'opener')


def mk_rd(cls, endian, out, shape, flen):
    line = f'C01 rd {cls} {endian} {out} {fmt_shape(shape)} {flen}'
    return Case(line, {'op': 'rd', 'cls': cls, 'endian': endian, 'out': out, 'shape': list(shape), 'flen': flen},
                ('rd', cls, out, tuple(shape), flen), 'rd')


def mk_hshape(cls, shape):
    return Case(f'C01 hshape {cls} {fmt_shape(shape)}', {'op': 'hshape', 'cls': cls, 'shape': list(shape)},
                ('hshape', cls, tuple(shape)), 'hshape')


MF_ROOTS = ['memmap_r', 'memmap_c', 'memmap_rp', 'mmapbuf', 'proxy', 'proxy_c', 'ndarray', 'bytes', 'bytearray']
MF_STEPS = ['asarray', 'asanyarray', 'view_nd', 'slice', 'T', 'reshape', 'newaxis', 'ascontig', 'view_u1', 'step2', 'copy',
            'array_nocopy', 'memmap_view', 'as_strided', 'window', 'memoryview', 'frombuffer', 'dlpack']


def mapped_file_of(a):
    """OS-level ground truth: path of the file-backed mapping the first byte of `a` lies in (None: anonymous memory)"""
    if not isinstance(a, np.ndarray) or a.size == 0:
        return None
    addr = a.__array_interface__['data'][0]
    try:
        with open('/proc/self/maps') as f:
            for line in f:
                parts = line.split(None, 5)
                lo, hi = (int(x, 16) for x in parts[0].split('-'))
                if lo <= addr < hi:
                    path = parts[5].strip() if len(parts) > 5 else ''
                    return path if path.startswith('/') and not path.startswith('/dev/zero') else None
    except OSError:                                   # pragma: no cover
        pass
    return None


def _mf_build(recipe, tmp):
    """(array, root array or None when nothing is mapped): the array made by `recipe` = [root, step, step, ...]"""
    import mmap as _mmap
    import nibabel as nib
    root = recipe[0]
    path = os.path.join(tmp, 'm.dat')
    with open(path, 'wb') as f:
        f.write(bytes(range(256)) * 64)
    keep = []
    if root.startswith('memmap'):
        a = np.memmap(path, dtype='<i2', mode={'memmap_r': 'r', 'memmap_c': 'c', 'memmap_rp': 'r+'}[root], shape=(8, 16, 4),
                      offset=32, order='F')
        mapped = a
    elif root == 'mmapbuf':
        fobj = open(path, 'rb')
        keep.append(fobj)
        mm = _mmap.mmap(fobj.fileno(), 0, access=_mmap.ACCESS_READ)
        a = np.frombuffer(mm, dtype='<i2', count=512, offset=32).reshape(8, 16, 4)
        mapped = a
    elif root.startswith('proxy'):
        ipath = os.path.join(tmp, 'v.nii')
        nib.Nifti1Image(np.arange(512, dtype='<i2').reshape(8, 16, 4), np.eye(4)).to_filename(ipath)
        a = np.asanyarray(nib.load(ipath, mmap='c' if root == 'proxy_c' else True).dataobj)
        mapped = a
    elif root == 'ndarray':
        a = np.arange(512, dtype='<i2').reshape(8, 16, 4)
        mapped = None
    elif root == 'bytes':
        a = np.frombuffer(bytes(1024), dtype='<i2').reshape(8, 16, 4)
        mapped = None
    else:
        a = np.frombuffer(bytearray(1024), dtype='<i2').reshape(8, 16, 4)
        mapped = None
    for st in recipe[1:]:
        if st == 'asarray':
            a = np.asarray(a)
        elif st == 'asanyarray':
            a = np.asanyarray(a)
        elif st == 'view_nd':
            a = a.view(np.ndarray)
        elif st == 'slice':
            a = a[1:]
        elif st == 'T':
            a = a.T
        elif st == 'reshape':
            a = a.reshape(a.shape[::-1], order='A') if (a.flags.c_contiguous or a.flags.f_contiguous) else a[...]
        elif st == 'newaxis':
            a = a[..., None]
        elif st == 'ascontig':
            a = np.ascontiguousarray(a) if a.flags.c_contiguous else np.asfortranarray(a) if a.flags.f_contiguous else a[...]
        elif st == 'view_u1':
            a = a.view('u1') if (a.flags.c_contiguous and a.ndim) else a[...]
        elif st == 'step2':
            a = a[::2]
        elif st == 'copy':
            a = np.array(a)
            mapped = None
        elif st == 'array_nocopy':
            a = np.array(a, copy=False) if a.size else a
        elif st == 'memmap_view':
            a = a.view(np.memmap) if isinstance(a, np.memmap) else a.view(np.ndarray)
        elif st == 'as_strided':
            from numpy.lib.stride_tricks import as_strided
            a = as_strided(a, shape=a.shape, strides=a.strides)
        elif st == 'window':
            from numpy.lib.stride_tricks import sliding_window_view
            a = sliding_window_view(a, (1,) * a.ndim)[(Ellipsis,) + (0,) * a.ndim] if a.ndim else a
        elif st == 'memoryview':
            a = np.asarray(memoryview(a)) if (a.flags.c_contiguous or a.flags.f_contiguous) and a.dtype.kind != 'V' else a[...]
        elif st == 'frombuffer':
            a = np.frombuffer(a, dtype=a.dtype).reshape(a.shape) if a.flags.c_contiguous else a[...]
        elif st == 'dlpack':
            try:
                a = np.from_dlpack(a) if a.flags.writeable else a[...]
            except Exception:
                a = a[...]
        else:
            raise ValueError(st)
    return a, mapped, keep


def _mf_chain(a):
    """the `.base` chain of `a` as the model sees it"""
    import mmap as _mmap
    out = []
    x = a
    while x is not None and len(out) < 64:
        if isinstance(x, np.memmap):
            out.append('M')
        elif isinstance(x, np.ndarray):
            out.append('N')
        elif isinstance(x, _mmap.mmap):
            out.append('B')
        elif isinstance(x, memoryview):
            out.append('V')
        else:
            out.append('O')
        # the owner link: `.obj` of a memoryview, the `.base` attribute of anything else (absent = end)
        x = x.obj if isinstance(x, memoryview) else getattr(x, 'base', None)
    return ''.join(out) or '-'


_MF_CACHE = {}


def mf_probe(recipe):
    """(chain, mapped, maps_file answer) of the array a recipe makes"""
    key = tuple(recipe)
    if key not in _MF_CACHE:
        from nibabel.volumeutils import maps_file
        with tempfile.TemporaryDirectory(prefix='c01_') as tmp:
            a, mapped, keep = _mf_build(recipe, tmp)
            chain = _mf_chain(a)
            is_mapped = (mapped is not None and a.size > 0 and bool(np.shares_memory(a, mapped))) or \
                mapped_file_of(a) is not None
            try:
                ans = 'true' if maps_file(a) else 'false'
            except Exception as e:
                ans = errname(e)
            del a, mapped
            for f in keep:
                f.close()
        _MF_CACHE[key] = (chain, is_mapped, ans)
    return _MF_CACHE[key]


def mk_mf(recipe):
    chain, is_mapped, _ = mf_probe(recipe)
    return Case(f'C01 mf {chain}', {'op': 'mf', 'recipe': list(recipe)}, ('mf', chain, is_mapped, recipe[0]), 'mf')


def mk_mghshape(shape):
    return Case(f'C01 mghshape {fmt_shape(shape)}', {'op': 'mghshape', 'shape': list(shape)},
                ('mghshape', tuple(shape)), 'mghshape')


def case_from_data(d):
    op = d['op']
    if op == 'rt':
        return mk_rt(d['cls'], d['endian'], d['out'], d.get('offset'), d['shape'], d['in'], d.get('layout', 'C'),
                     d['vals'], d.get('route', 'file_map'), d.get('comp', ''), d.get('stream', 'rt'), d.get('expect'),
                     d.get('history'), {k: d.get(k) for k in OPT_KEYS})
    if op == 'sn':
        return mk_sn(d['writer'], d['in'], d['out'], d['vals'])
    if op == 'codec':
        return mk_codec(d['name'])
    if op == 'mghshape':
        return mk_mghshape(d['shape'])
    if op == 'mf':
        return mk_mf(d['recipe'])
    if op == 'hshape':
        return mk_hshape(d['cls'], d['shape'])
    if op == 'opener':
        return mk_opener(d['name'])
    if op == 'rd':
        return mk_rd(d['cls'], d['endian'], d['out'], d['shape'], d['flen'])
    raise ValueError(d)


# ------------------------------------------------------------------ implementation side

def _decompress(path_or_bytes, comp):
    """independent of nibabel's Opener: stdlib / pyzstd directly"""
    raw = path_or_bytes if isinstance(path_or_bytes, bytes) else open(path_or_bytes, 'rb').read()
    if comp in ('.gz', '.mgz'):
        return gzip.decompress(raw)
    if comp == '.bz2':
        return bz2.decompress(raw)
    if comp == '.zst':
        return pyzstd.decompress(raw) if raw else b''      # ZstdFile closed without a write leaves 0 bytes
    return raw


def _wrap_stream(bio, comp, mode):
    if comp == '.gz':
        return gzip.GzipFile(fileobj=bio, mode=mode)
    if comp == '.bz2':
        return bz2.BZ2File(bio, mode=mode)
    return bio


def _prior_save(img, c, route, **kw):
    if route == 'bytes' and hasattr(img, 'to_bytes'):
        img.to_bytes(**kw)
    elif route == 'filename':
        with tempfile.TemporaryDirectory(prefix='c01_') as tmp:
            ext = '.mgh' if c.__name__ == 'MGHImage' else c.files_types[0][1]
            img.to_filename(os.path.join(tmp, 'prior' + ext), **kw)
    else:
        fm = c.make_file_map()
        for k in fm:
            fm[k].fileobj = io.BytesIO()
        img.to_file_map(fm, **kw)


def _fdata(loaded, out_name):
    """loaded.get_fdata() for real numeric on-disk types (None otherwise / on error text)"""
    if comp_layout(out_name)[0] not in 'iuf':
        return None
    try:
        return np.array(loaded.get_fdata())
    except Exception as e:                      # pragma: no cover
        return 'get_fdata raised ' + repr(e)[:100]


def dtype_name(dt):
    dt = np.dtype(dt)
    for nm in ALL_DT:
        if np_dtype(nm) == dt.newbyteorder('='):
            return nm
    return str(dt)


def make_header(c, d):
    """the header the image is built with: byte order d['endian'], obtained the way d['hdr_src'] says"""
    if d['cls'] == 'MGHImage':
        return c.header_class()
    src = d.get('hdr_src', 'ctor')
    e = d['endian']
    if src == 'swap':
        hdr = c.header_class(endianness='<' if e == '>' else '>').as_byteswapped(e)
    elif src == 'loaded':
        h0 = c.header_class(endianness=e)
        h0.set_data_dtype(np.uint8)
        tmpl = c(np.zeros((2, 1, 2), np.uint8), np.eye(4), h0)
        fm = c.make_file_map()
        for k in fm:
            fm[k].fileobj = io.BytesIO()
        tmpl.to_file_map(fm)
        hdr = c.from_file_map(fm).header
    else:
        hdr = c.header_class(endianness=e)
    assert hdr.endianness == e
    return hdr


def image_with_donor_header(c, d, arr, out_dt):
    """`klass(data, donor.affine, donor.header)`: the header comes from ANOTHER image (other shape / class / dtype /
    byte order; fresh, loaded from a file, or already used in a save)"""
    dn = d['donor']
    D = klass(dn['cls'])
    ddt = np_dtype(dn['dtype'])
    dh = D.header_class() if dn['cls'] == 'MGHImage' else D.header_class(endianness=dn['endian'])
    dh.set_data_dtype(ddt)
    aff = np.diag([2.0, 3.0, 4.0, 1.0]) if dn.get('zooms') else np.eye(4)
    dimg = D(np.zeros(tuple(dn['shape']), ddt), aff, dh)
    nz = len(dimg.header.get_zooms())
    if dn.get('zooms') and nz >= 4:
        dimg.header.set_zooms(tuple(dimg.header.get_zooms()[:3]) + (2.5,) + (1.0,) * (nz - 4))
    if dn.get('state', 'fresh') != 'fresh':
        fm = D.make_file_map()
        for k in fm:
            fm[k].fileobj = io.BytesIO()
        dimg.to_file_map(fm)
        if dn['state'] == 'loaded':
            dimg = D.from_file_map(fm)
    img = c(arr, dimg.affine, dimg.header)
    if dn.get('setdt'):
        img.set_data_dtype(out_dt)
    return img


def _in_child(fn):
    """run fn() in a forked child (a SIGBUS on a truncated memory map must not take the harness down);
    None when the child finished normally, else an ERR line"""
    r, w = os.pipe()
    pid = os.fork()
    if pid == 0:
        code = 0
        try:
            os.close(r)
            fn()
        except BaseException as e:                 # noqa: BLE001
            try:
                os.write(w, errname(e).encode()[:200])
            except Exception:
                pass
            code = 3
        finally:
            os._exit(code)
    os.close(w)
    msg = b''
    while True:
        b = os.read(r, 4096)
        if not b:
            break
        msg += b
    os.close(r)
    _, st = os.waitpid(pid, 0)
    if os.WIFSIGNALED(st):
        return 'ERR:signal%d' % os.WTERMSIG(st)
    if os.WEXITSTATUS(st) != 0:
        return msg.decode(errors='replace') or 'ERR:child'
    return None


class ChildFailed(Exception):
    pass


VIA_VIEWS = {
    'asarray': lambda dobj: np.asarray(dobj),
    'contig': lambda dobj: np.asfortranarray(np.asarray(dobj)),
    'ndview': lambda dobj: np.asanyarray(dobj).view(np.ndarray),
    'slice': lambda dobj: np.asanyarray(dobj)[...],
    'TT': lambda dobj: np.asarray(dobj).T.T,
    'asarray2': lambda dobj: np.asarray(np.asarray(dobj)[...]),
}
RS_PATHS = ['abs', 'rel', 'dot', 'dotdot', 'pathlib', 'symlink', 'dslash']


def _spell_path(work, base, how):
    """a spelling of the path of work/base; the child's cwd is `work`"""
    import pathlib
    if how == 'abs':
        return os.path.join(work, base)
    if how == 'rel':
        return base
    if how == 'dot':
        return './' + base
    if how == 'dotdot':
        return 'sub/../' + base
    if how == 'pathlib':
        return pathlib.Path(base)
    if how == 'symlink':
        return 'link_' + base
    if how == 'dslash':
        return work + '//' + base
    raise ValueError(how)


def _rs_load(c, lp, rs, keep):
    """the loaded (and possibly re-wrapped) image of a resave case"""
    import nibabel as nib
    mm = rs['mmap']
    how = rs['load']
    if how == 'nib.load':
        li = nib.load(lp, mmap=mm)
    elif how == 'fileobj':
        fm = c.filespec_to_file_map(lp)
        for k in fm:
            f = open(fm[k].filename, 'rb')
            keep.append(f)
            fm[k] = nib.fileholders.FileHolder(fileobj=f)
        li = c.from_file_map(fm, mmap=mm)
    else:
        li = c.from_filename(lp, mmap=mm)
    if rs.get('touch') == 'asarray':
        np.asanyarray(li.dataobj)
    elif rs.get('touch') == 'fdata':
        li.get_fdata()
    via = rs.get('via', 'same')
    if via == 'new':
        li = c(li.dataobj, li.affine, li.header)
    elif via == 'arr':
        li = c(np.asanyarray(li.dataobj), li.affine, li.header)
    elif via in VIA_VIEWS:
        # a VIEW of the loaded data (a plain ndarray that still reads from the file when the data are mapped)
        li = c(VIA_VIEWS[via](li.dataobj), li.affine, li.header)
    return li


_RS_PROBE = {}


def rs_probe(cls, comp, rs):
    """(mapped, owner chain) of the array `to_file_map` gets from `np.asanyarray(img.dataobj)` in a resave case with
    this class / compression / mmap mode / loader / re-wrapping: found by doing the load on a small file of the
    same kind (nothing is saved over it); `mapped` is the OS's answer (/proc/self/maps)"""
    key = (cls, comp, str(rs['mmap']), rs['load'], rs.get('via', 'same'))
    if key not in _RS_PROBE:
        c = klass(cls)
        with tempfile.TemporaryDirectory(prefix='c01_') as tmp:
            if cls == 'MGHImage':
                base = 'p' + ('.mgz' if comp == '.mgz' else '.mgh')
            else:
                base = 'p' + c.files_types[0][1] + comp
            path = os.path.join(tmp, base)
            c(np.arange(24, dtype=np.uint8).reshape(2, 3, 4), np.eye(4)).to_filename(path)
            keep = []
            li = _rs_load(c, path, dict(rs, touch=None), keep)
            a = np.asanyarray(li.dataobj)
            res = (1 if mapped_file_of(a) is not None else 0, _mf_chain(a))
            del a, li
            for f in keep:
                f.close()
        _RS_PROBE[key] = res
    return _RS_PROBE[key]


def _resave(c, d, img, tmp):
    """save `img`; in a child process (cwd = the directory of the file) load it and save the loaded image over its
    own file; returns the absolute file name"""
    import nibabel as nib
    rs = d['resave']
    work = os.path.join(os.path.realpath(tmp), 'work')
    os.makedirs(os.path.join(work, 'sub'))
    comp = d['comp']
    if d['cls'] == 'MGHImage':
        base = 'vol' + ('.mgz' if comp == '.mgz' else '.mgh')
    else:
        base = 'vol' + c.files_types[0][1] + comp
    fname = os.path.join(work, base)
    img.to_filename(fname)
    for ftype, ext in c.files_types:                       # symlinks for every file of the image
        b = 'vol' + ext + ('' if d['cls'] == 'MGHImage' else comp)
        if d['cls'] == 'MGHImage':
            b = base
        if os.path.exists(os.path.join(work, b)):
            os.symlink(b, os.path.join(work, 'link_' + b))

    def work_fn():
        os.chdir(work)
        lp = _spell_path(work, base, rs['lpath'])
        how = rs['load']
        keep = []
        li = _rs_load(c, lp, rs, keep)
        via = rs.get('via', 'same')
        sp = rs['spath']
        if sp == 'own' and via == 'same' and how != 'fileobj':
            li.to_file_map()
        elif sp == 'getname' and via == 'same' and how != 'fileobj':
            li.to_filename(li.get_filename())
        else:
            target = _spell_path(work, base, rs['lpath'] if sp in ('same', 'own', 'getname') else sp)
            if rs.get('saver') == 'nibsave':
                nib.save(li, target)
            else:
                li.to_filename(target)
        for f in keep:
            f.close()
    err = _in_child(work_fn)
    if err:
        raise ChildFailed(err)
    return fname


def save_load(d, arr):
    """run the real code: returns (decompressed data-file bytes, loaded image, loaded array)"""
    import nibabel as nib
    c = klass(d['cls'])
    out_dt = np_dtype(d['out'])
    ovr = d.get('ovr')
    kw = {}
    if d.get('donor'):
        img = image_with_donor_header(c, d, arr, out_dt)
    else:
        hdr = make_header(c, d)
        if ovr:
            hdr.set_data_dtype(np_dtype(ovr['hdr0']))
            kw['dtype'] = spell_dtype(d['out'], ovr['spell'])[0]
        else:
            hdr.set_data_dtype(out_dt)
        img = c(arr, np.eye(4), hdr)
    if d.get('offset') is not None:
        img.header.set_data_offset(d['offset'])
    # history: the same image object was saved before, with another on-disk dtype (possibly one that needs
    # rescaling, possibly refused; set in the header or handed over as `dtype=`), to another destination; those
    # saves are outside the property, the save below is the one under test
    for h in d.get('history') or []:
        try:
            if h.get('arg') and d['cls'] != 'MGHImage':
                _prior_save(img, c, h.get('route', 'file_map'), dtype=np_dtype(h['out']))
            else:
                img.set_data_dtype(np_dtype(h['out']))
                _prior_save(img, c, h.get('route', 'file_map'))
        except Exception:
            pass
    if d.get('history'):
        img.set_data_dtype(np_dtype(ovr['hdr0']) if ovr else out_dt)
    route, comp = d['route'], d['comp']
    nibsave = d.get('saver') == 'nibsave'

    def finish(loaded):
        loaded._c01_after = dtype_name(img.header.get_data_dtype()) + (
            '>' if d['cls'] == 'MGHImage' else img.header.endianness)
        return loaded
    if d.get('resave'):
        with tempfile.TemporaryDirectory(prefix='c01_') as tmp:
            fname = _resave(c, d, img, tmp)
            raw = _decompress(fname, comp)
            loaded = finish(c.from_filename(fname))
            got = np.array(np.asanyarray(loaded.dataobj))
            loaded._c01_fdata = _fdata(loaded, d['out'])
        return raw, loaded, got, None
    if route == 'filename':
        with tempfile.TemporaryDirectory(prefix='c01_') as tmp:
            if d['cls'] == 'MGHImage':
                fname = os.path.join(tmp, 'vol' + ('.mgz' if comp == '.mgz' else '.mgh'))
            else:
                fname = os.path.join(tmp, 'vol' + c.files_types[0][1] + comp)
            if nibsave:
                nib.save(img, fname, **kw)
            else:
                img.to_filename(fname, **kw)
            raw = _decompress(fname, comp)
            loaded = finish(c.from_filename(fname))
            got = np.array(np.asanyarray(loaded.dataobj))
            loaded._c01_fdata = _fdata(loaded, d['out'])
            via_load = nib.load(fname) if d['cls'] in ('Nifti1Image', 'Nifti2Image', 'MGHImage') else None
            alt = None if via_load is None else np.array(np.asanyarray(via_load.dataobj))
            del via_load
        return raw, loaded, got, alt
    if route == 'file_map':
        fm = c.make_file_map()
        for k in fm:
            fm[k].fileobj = io.BytesIO()
        img.to_file_map(fm, **kw)
        raw = fm['image'].fileobj.getvalue()
        loaded = finish(c.from_file_map(fm))
        return raw, loaded, np.array(np.asanyarray(loaded.dataobj)), None
    if route == 'stream':
        bio = io.BytesIO()
        w = _wrap_stream(bio, comp, 'wb')
        img.to_stream(w, **kw)
        if w is not bio:
            w.close()
        raw = _decompress(bio.getvalue(), comp)
        r = _wrap_stream(io.BytesIO(bio.getvalue()), comp, 'rb')
        loaded = finish(c.from_stream(r))
        return raw, loaded, np.array(np.asanyarray(loaded.dataobj)), None
    if route == 'bytes':
        raw = img.to_bytes(**kw)
        loaded = finish(c.from_bytes(raw))
        return raw, loaded, np.array(np.asanyarray(loaded.dataobj)), None
    raise ValueError(route)


def expected_offset(d):
    ci = class_info()[d['cls']]
    off = d.get('offset')
    if off is None or (ci['layout'] == 'single' and off == 0):
        return ci['off']
    return off


def impl(case):
    d = case.data
    op = d['op']
    if op == 'sn':
        from nibabel.arraywriters import ArrayWriter, SlopeArrayWriter, WriterError
        arr = base_array(d['in'], (len(d['vals']),), d['vals'])
        try:
            if d['writer'] == 'base':
                r = ArrayWriter(arr, np_dtype(d['out']), check_scaling=False).scaling_needed()
            else:
                r = SlopeArrayWriter(arr, np_dtype(d['out']), calc_scale=False).scaling_needed()
            return 'true' if r else 'false'
        except WriterError:
            return 'ERR:WriterError'
        except Exception as e:
            return errname(e)
    if op == 'codec':
        from nibabel.openers import ImageOpener
        import nibabel.freesurfer.mghformat  # noqa: F401  registers '.mgz'
        try:
            f = ImageOpener._get_opener_argnames(ImageOpener.__new__(ImageOpener), d['name'])[0]
            return CODEC_OF_FUNC.get(f.__name__, 'ERR:' + f.__name__)
        except Exception as e:
            return errname(e)
    if op == 'opener':
        from nibabel.openers import ImageOpener
        import nibabel.freesurfer.mghformat  # noqa: F401
        kinds = {'DeterministicGzipFile': 'gz', 'GzipFile': 'gz', 'IndexedGzipFile': 'gz', 'BZ2File': 'bz2',
                 'ZstdFile': 'zst', 'BufferedWriter': 'raw', 'BufferedReader': 'raw', 'FileIO': 'raw'}
        res = []
        with tempfile.TemporaryDirectory(prefix='c01_') as tmp:
            path = os.path.join(tmp, d['name'])
            for mode in ('wb', 'rb'):
                try:
                    with ImageOpener(path, mode) as f:
                        res.append(kinds.get(type(f.fobj).__name__, 'ERR:' + type(f.fobj).__name__))
                except Exception as e:
                    res.append(errname(e))
        return ' '.join(res)
    if op == 'rd':
        c = klass(d['cls'])
        shape = tuple(d['shape'])
        out_dt = np_dtype(d['out'])
        hdr = c.header_class(endianness=d['endian'])
        hdr.set_data_dtype(out_dt)
        img = c(np.zeros(shape, out_dt), np.eye(4), hdr)
        fm = c.make_file_map()
        for k in fm:
            fm[k].fileobj = io.BytesIO()
        img.to_file_map(fm)
        full = fm['image'].fileobj.getvalue()
        cut = full[:d['flen']] + b'\x55' * max(0, d['flen'] - len(full))
        fm['image'].fileobj = io.BytesIO(cut)
        try:
            loaded = c.from_file_map(fm)
            got = np.asanyarray(loaded.dataobj)
            case.extra = {'got': np.array(got)}
            return 'ok ' + str([int(x) for x in got.shape]).replace(', ', ',')
        except OSError:
            return 'ERR:OSError'
        except Exception as e:
            return errname(e)
    if op == 'hshape':
        from nibabel.spatialimages import HeaderDataError
        h = klass(d['cls']).header_class()
        try:
            h.set_data_shape(tuple(d['shape']))
        except HeaderDataError:
            return 'ERR:HeaderDataError'
        except Exception as e:
            return errname(e)
        nd = int(h['dim'][0])
        dims = [int(x) for x in h['dim'][1:nd + 1]]
        glmin = int(h['glmin']) if 'glmin' in h.keys() else 0
        try:
            gs = str([int(x) for x in h.get_data_shape()])
        except Exception as e:
            gs = errname(e)
        return f'dims={dims} glmin={glmin} shape={gs}'.replace(', ', ',')
    if op == 'mf':
        _MF_CACHE.pop(tuple(d['recipe']), None)
        chain, is_mapped, ans = mf_probe(d['recipe'])
        case.extra = {'mapped': is_mapped, 'chain': chain}
        return ans
    if op == 'mghshape':
        from nibabel import MGHImage
        try:
            img = MGHImage(np.zeros(tuple(d['shape']), 'u1'), np.eye(4))
        except ValueError:
            from nibabel.freesurfer.mghformat import MGHImage as M  # noqa: F401
            ishape = tuple(d['shape']) + (1,) * (3 - len(d['shape']))
            return f'{list(ishape)} ERR:ValueError -'.replace(', ', ',')
        ishape = [int(s) for s in img.shape]
        hs = [int(s) for s in img.header.get_data_shape()]
        try:
            img.to_bytes()
            st = 'ok'
        except Exception as e:
            st = errname(e)
        return f'{ishape} {hs} {st}'.replace(', ', ',')
    # ---- rt
    ci = class_info()[d['cls']]
    arr = with_layout(base_array(d['in'], tuple(d['shape']), d['vals']), d['layout'])
    keep = arr.copy()
    case.extra = {'arr': keep}
    try:
        with np.errstate(all='ignore'):
            raw, loaded, got, alt = save_load(d, arr)
    except ChildFailed as e:
        case.extra['exc'] = 'child process: ' + str(e)
        return str(e) if str(e).startswith('ERR') else 'ERR:child'
    except Exception as e:
        case.extra['exc'] = repr(e)[:300]
        return errname(e)
    fd = getattr(loaded, '_c01_fdata', None)
    if fd is None and d['route'] != 'filename' and not d.get('resave'):
        fd = _fdata(loaded, d['out'])
    case.extra.update(raw=raw, got=got, alt=alt, fdata=fd, hdr_dtype=loaded.header.get_data_dtype(), img_shape=tuple(loaded.shape),
                      input_after=arr)
    kind, cw, k = comp_layout(d['out'])
    off = expected_offset(d)
    n = int(np.prod(got.shape, dtype=object)) * cw * k
    pad = raw[ci['hlen']:off]
    want_native = np_dtype(d['out'])
    if got.dtype.newbyteorder('=') != want_native.newbyteorder('='):
        vals = 'DTYPE:' + str(got.dtype)
    else:
        vals = fmt_elems(patterns(got, d['out']))
    after = f' after={loaded._c01_after}' if d.get('ovr') else ''
    if d.get('donor'):
        lh = loaded.header
        if d['cls'] == 'MGHImage':
            after += f' hdr={[int(x) for x in lh["dims"]]} glmin=0'.replace(', ', ',')
        else:
            nd = int(lh['dim'][0])
            after += (f' hdr={[int(x) for x in lh["dim"][1:nd + 1]]} '
                      f'glmin={int(lh["glmin"]) if "glmin" in lh.keys() else 0}').replace(', ', ',')
    return (f'ok flen={len(raw)} pad0={1 if not any(pad) else 0} data={raw[off:off + n].hex()} '
            f'tail={max(0, len(raw) - off - n)} shape={[int(s) for s in got.shape]} vals={vals}').replace(', ', ',') + after


# ------------------------------------------------------------------ oracle

def own_decode(region, endian, cw, k, shape):
    """independent decoder: Fortran-order element list of (k components of cw bytes) -> dict index->pattern"""
    bo = 'little' if endian == '<' else 'big'
    isz = cw * k
    out = {}
    idxs = itertools.product(*[range(s) for s in reversed(shape)])       # last axis slowest = first fastest
    for q, ridx in enumerate(idxs):
        el = region[q * isz:(q + 1) * isz]
        out[tuple(reversed(ridx))] = [int.from_bytes(el[j * cw:(j + 1) * cw], bo) for j in range(k)]
    return out


def oracle(case, out):
    d = case.data
    op = d['op']
    if op == 'codec':
        ext = os.path.splitext(d['name'])[1].lower()
        want = CANON_CODEC.get(ext, 'raw')
        if out != want:
            return f'Opener picks codec {out} for file name {d["name"]!r}, expected {want} (same for rb and wb)'
        return None
    if op == 'sn':
        ik, _, _ = comp_layout(d['in'])
        okd, _, _ = comp_layout(d['out'])
        if out == 'false' and ik in 'iu' and okd in 'iu':
            bad = [v for v in d['vals'] if not in_int_range(d['out'], int(v))]
            if bad:
                return f'scaling_needed() is False for {d["in"]}->{d["out"]} but value {bad[0]} is outside the on-disk range'
        return None
    if op == 'mghshape':
        return None
    if op == 'mf':
        ex = case.extra or {}
        if ex.get('mapped') and out != 'true':
            return (f'maps_file() answers {out} for an array whose memory is a mapped file (recipe {d["recipe"]}, '
                    f'base chain {ex.get("chain")}): saving it over that file truncates the file under the data')
        return None
    if op == 'hshape':
        if out.startswith('ERR'):
            return None
        got = out.split('shape=')[1]
        if got != str(list(d['shape'])).replace(', ', ',') and not _ico7_alias(d):
            return f'{d["cls"]} header: set_data_shape({tuple(d["shape"])}) then get_data_shape() gives {got}'
        return None
    if op == 'opener':
        ext = os.path.splitext(d['name'])[1].lower()
        want = CANON_CODEC.get(ext, 'raw')
        if out != f'{want} {want}':
            return f'ImageOpener opens {d["name"]!r} as "{out}" for (wb, rb), expected {want} for both'
        return None
    if op == 'rd':
        ci = class_info()[d['cls']]
        kind, cw, k = comp_layout(d['out'])
        need = ci['off'] + int(np.prod(d['shape'], dtype=object)) * cw * k
        if d['flen'] < need:
            if not out.startswith('ERR'):
                return f'data file of {d["flen"]} bytes (needs {need}) was read back as data: {d["cls"]} {d["out"]} shape={d["shape"]} -> {out}'
        elif out != 'ok ' + str(list(d['shape'])).replace(', ', ','):
            return f'complete data file not readable: {d["cls"]} {d["out"]} shape={d["shape"]} flen={d["flen"]} -> {out}'
        return None
    # ---- rt
    ex = case.extra or {}
    if d.get('expect') == 'refuse':
        if out != 'ERR:HeaderDataError':
            return f'data offset {d["offset"]} below the header of {d["cls"]} was not refused: {out[:80]}'
        return None
    if d.get('expect') == 'refuse-donor':
        # a header whose dtype the target class has no code for: the constructor must refuse it loudly, never
        # build an image that would be written with another dtype
        if out != 'ERR:HeaderDataError':
            return (f'{d["cls"]} accepted the header of a {d["donor"]["cls"]} whose dtype {d["donor"]["dtype"]} it '
                    f'does not support: {out[:80]}')
        return None
    arr = ex.get('arr')
    if arr is None:
        arr = base_array(d['in'], tuple(d['shape']), d['vals'])
    cell = f'{d["cls"]} route={d["route"]} comp={d["comp"] or "none"} endian={d["endian"]} {d["in"]}->{d["out"]} ' \
           f'shape={tuple(d["shape"])} layout={d["layout"]} offset={d.get("offset")}' + \
           (f' after prior saves {d["history"]}' if d.get('history') else '') + \
           ''.join(f' {k}={d[k]}' for k in OPT_KEYS if d.get(k))
    if out.startswith('ERR'):
        return f'save/load raised {out} ({ex.get("exc", "")}) for an in-domain image: {cell}'
    out_dt = np_dtype(d['out'])
    with np.errstate(all='ignore'):
        want = np.ascontiguousarray(arr.astype(out_dt))
    want_shape = tuple(d['shape'])
    if d['cls'] == 'MGHImage' and len(want_shape) < 3:        # documented MGHImage.__init__ padding to 3-D
        want_shape = want_shape + (1,) * (3 - len(want_shape))
    got, raw = ex['got'], ex['raw']
    if tuple(got.shape) != want_shape:
        return f'shape changed: saved {want_shape}, loaded dataobj shape {tuple(got.shape)}: {cell}'
    if ex['img_shape'] != want_shape:
        return f'image shape changed: saved {want_shape}, loaded img.shape {ex["img_shape"]}: {cell}'
    if got.dtype.newbyteorder('=') != out_dt.newbyteorder('='):
        return f'loaded dtype {got.dtype} is not the on-disk dtype {out_dt}: {cell}'
    if np.dtype(ex['hdr_dtype']).newbyteorder('=') != out_dt.newbyteorder('='):
        return f'loaded header dtype {ex["hdr_dtype"]} != {out_dt}: {cell}'
    want = want.reshape(want_shape)
    gb = np.ascontiguousarray(got.astype(out_dt)).tobytes()
    if gb != want.tobytes():
        wp, gp = patterns(want, d['out']), patterns(got, d['out'])
        i = next((i for i, (a, b) in enumerate(zip(wp, gp)) if a != b), -1)
        return f'loaded values differ bit-wise from data.astype({d["out"]}) at flat C index {i}: want {wp[i]} got {gp[i]}: {cell}'
    fd = ex.get('fdata')
    if isinstance(fd, str):
        return f'{fd}: {cell}'
    if fd is not None:
        with np.errstate(all='ignore'):
            wf = want.astype(np.float64)
        if tuple(fd.shape) != want_shape or not np.array_equal(fd, wf, equal_nan=True):
            return f'loaded get_fdata() differs from data.astype({d["out"]}).astype(float64): {cell}'
    if ex.get('alt') is not None:
        alt = ex['alt']
        if tuple(alt.shape) != want_shape or np.ascontiguousarray(alt.astype(out_dt)).tobytes() != want.tobytes():
            return f'nib.load() of the same file gives different data/shape than {d["cls"]}.from_filename: {cell}'
    # independent decode of the file bytes
    kind, cw, k = comp_layout(d['out'])
    ci = class_info()[d['cls']]
    off = expected_offset(d)
    n = int(np.prod(want_shape, dtype=object))
    region = raw[off:off + n * cw * k]
    if len(region) != n * cw * k:
        return f'data file too short: {len(raw)} bytes, need {off}+{n * cw * k}: {cell}'
    if len(raw) != off + n * cw * k + ci['ftr']:
        return f'data file length {len(raw)} != offset {off} + data {n * cw * k} + footer {ci["ftr"]}: {cell}'
    if any(raw[ci['hlen']:off]):
        return f'fill between header end {ci["hlen"]} and data offset {off} is not zero: {cell}'
    endian = '>' if d['cls'] == 'MGHImage' else d['endian']
    wp = patterns(want, d['out'])
    if n > 4096:
        # long arrays: own ENcoder instead of the index->pattern dictionary (same independence, linear time):
        # Fortran-order walk over the flat C positions, every component written out with int.to_bytes
        bo = 'little' if endian == '<' else 'big'
        forder = np.arange(n).reshape(want_shape).T.reshape(-1).tolist()
        exp = b''.join(comp.to_bytes(cw, bo) for q in forder for comp in wp[q])
        if exp != region:
            j = next(i for i in range(len(exp)) if exp[i] != region[i]) // (cw * k)
            idx = tuple(int(x) for x in np.unravel_index(forder[j], want_shape))
            return (f'stored bytes of element number {j} of the data block (index {idx}) are '
                    f'{region[j * cw * k:(j + 1) * cw * k].hex()}, expected {exp[j * cw * k:(j + 1) * cw * k].hex()} '
                    f'(= data.astype({d["out"]})): {cell}')
    else:
        dec = own_decode(region, endian, cw, k, want_shape)
        for q, idx in enumerate(itertools.product(*[range(s) for s in want_shape])):
            if dec[idx] != wp[q]:
                return f'stored bytes at index {idx} decode to {dec[idx]}, expected {wp[q]} (= data.astype({d["out"]})): {cell}'
    if ex['input_after'].tobytes() != arr.tobytes():
        return f'saving modified the input array: {cell}'
    return None


def _ico7_alias(d):
    return d['cls'] in ('Nifti1Image', 'Nifti1Pair') and list(d['shape'][:3]) == [27307, 1, 6]


def signature(case, what):
    d = case.data
    if d['op'] == 'mf' and 'dlpack' in d['recipe'] and 'answers false' in what and 'chain N' in what and \
            what.split('base chain ')[1].split(')')[0].endswith('O'):
        return 'maps_file:dlpack-capsule-owner'
    if d['op'] != 'rt':
        return 'c01:' + d['op']
    if _ico7_alias(d) and 'shape changed' in what and \
            f'shape {tuple([163842, 1, 1] + list(d["shape"][3:]))}' in what:
        return 'nifti1:ico7-shape-alias'
    if (d['cls'] == 'MGHImage' and len(d['shape']) == 4 and d['shape'][-1] == 1 and
            (('raised ERR:HeaderDataError' in what and 'Data should be shape' in what) or
             ('shape changed' in what and f'loaded dataobj shape {tuple(d["shape"][:3])}' in what))):
        return 'mgh:single-frame-4d-shape'
    w = what.split(':', 1)[0]
    kind = ('raise' if w.startswith('save/load raised') else
            'shape' if ('shape changed' in w) else
            'dtype' if 'dtype' in w else
            'layout' if ('file length' in w or 'fill between' in w or 'too short' in w) else
            'codec' if 'nib.load' in w else
            'input-modified' if 'modified the input' in w else
            'refuse' if 'not refused' in w else 'values')
    return f'rt:{d["cls"]}:{kind}'


def _known_class(d):
    if d['op'] == 'rt' and _ico7_alias(d):
        return 'ico7'
    return d['op'] == 'rt' and d['cls'] == 'MGHImage' and len(d['shape']) == 4 and d['shape'][-1] == 1


def shrink_candidates(case):
    """smaller cases; never slides into (or out of) the input class of the known MGH finding, so that a
    different failure cannot be shrunk into the known one and be swallowed"""
    for c in _shrink_candidates(case):
        if _known_class(c.data) == _known_class(case.data):
            yield c


def _shrink_candidates(case):
    d = case.data
    if d['op'] != 'rt':
        return
    shape, vals = list(d['shape']), d['vals']

    def rebuild(nshape, nvals, **kw):
        nd = dict(d)
        nd.update(shape=list(nshape), vals=nvals, **kw)
        return case_from_data(nd)
    for key in OPT_KEYS:                                   # drop one option dimension at a time
        if d.get(key) and not (key == 'ovr'):
            yield rebuild(shape, vals, **{key: None})
    if d.get('resave'):
        rs = d['resave']
        for k2, plain in (('lpath', 'abs'), ('spath', 'same'), ('via', 'same'), ('touch', None), ('load', 'from_filename'),
                          ('saver', None)):
            if rs.get(k2, plain) != plain:
                yield rebuild(shape, vals, resave=dict(rs, **{k2: plain}))
    if d.get('ovr') and d['ovr']['spell'] != 'dtype':
        yield rebuild(shape, vals, ovr=dict(d['ovr'], spell='dtype'))
    if isinstance(vals, dict):                             # long arrays (compact value spec): shorten the long axes
        for ax in range(len(shape)):
            for nl in (shape[ax] // 2, shape[ax] - shape[ax] // 8, shape[ax] - 2, shape[ax] - 1):
                if shape[ax] > 16 and 0 < nl < shape[ax]:
                    yield rebuild(shape[:ax] + [nl] + shape[ax + 1:], vals)
        for key, plain in (('layout', 'C'), ('route', 'file_map')):
            if d[key] != plain:
                yield rebuild(shape, vals, **({key: plain, 'comp': ''} if key == 'route' else {key: plain}))
        return
    a = np.empty(len(vals), dtype=object)
    for i, v in enumerate(vals):
        a[i] = v
    a = a.reshape(shape) if shape else a
    # drop / halve axes
    for ax in range(len(shape)):
        if shape[ax] > 1:
            sl = [slice(None)] * len(shape)
            sl[ax] = slice(0, shape[ax] - 1)
            sub = a[tuple(sl)]
            yield rebuild(sub.shape, list(sub.reshape(-1)))
    for ax in range(len(shape)):
        if shape[ax] == 1 and len(shape) > 1 and not (d['cls'] == 'MGHImage' and len(shape) == 4 and ax == 3):
            ns = shape[:ax] + shape[ax + 1:]
            yield rebuild(ns, vals)
    if d.get('history'):
        yield rebuild(shape, vals, history=None)
        if len(d['history']) > 1:
            yield rebuild(shape, vals, history=d['history'][:1])
            yield rebuild(shape, vals, history=d['history'][1:])
    if d['layout'] != 'C':
        yield rebuild(shape, vals, layout='C')
        if '+' in d['layout']:
            yield rebuild(shape, vals, layout=d['layout'].split('+')[0])
    if d['route'] != 'file_map':
        yield rebuild(shape, vals, route='file_map', comp='')
    if d.get('offset') is not None:
        yield rebuild(shape, vals, offset=None)


# ------------------------------------------------------------------ generators

def int_extremes(name):
    ii = np.iinfo(np.dtype(name))
    return int(ii.min), int(ii.max)


def gen_int_vals(rng, in_name, out_name, n):
    """ints representable in both dtypes (out_name None: only the input dtype), extremes first"""
    lo, hi = int_extremes(in_name)
    if out_name is not None and comp_layout(out_name)[0] in 'iu':
        lo2, hi2 = int_extremes(out_name)
        lo, hi = max(lo, lo2), min(hi, hi2)
    special = [lo, hi, 0, 1, hi - 1, lo + 1, hi // 2, hi // 2 + 1]
    if lo < 0:
        special += [-1, -2]
    special += [v for v in (127, 128, 255, 256, 32767, 32768, 65535, 65536, 2 ** 31 - 1, 2 ** 31, 2 ** 32 - 1, 2 ** 32,
                            2 ** 53, 2 ** 53 + 1, 2 ** 63 - 1, 2 ** 63, -128, -129, -32768, -32769, -2 ** 31, -2 ** 31 - 1)
                if lo <= v <= hi]
    out = []
    for _ in range(n):
        r = rng.random()
        if r < 0.55:
            out.append(rng.choice(special))
        elif r < 0.8:
            out.append(rng.randint(max(lo, -300), min(hi, 300)))
        else:
            out.append(rng.randint(lo, hi))
    return out


F_SPECIAL = {
    'f2': [0x0000, 0x8000, 0x7c00, 0xfc00, 0x7e00, 0x7e01, 0xfe00, 0x7d55, 0x0001, 0x8001, 0x03ff, 0x0400, 0x7bff,
           0xfbff, 0x3c00, 0xbc00, 0x3555],
    'f4': [0x00000000, 0x80000000, 0x7f800000, 0xff800000, 0x7fc00000, 0x7fc00001, 0xffc00000, 0x7fa00000, 0x7f800001,
           0x00000001, 0x80000001, 0x007fffff, 0x00800000, 0x7f7fffff, 0xff7fffff, 0x3f800000, 0xbf800000, 0x4b800000,
           0x4f000000, 0x3eaaaaab],
    'f8': [0x0000000000000000, 0x8000000000000000, 0x7ff0000000000000, 0xfff0000000000000, 0x7ff8000000000000,
           0x7ff8000000000001, 0xfff8000000000000, 0x7ff4000000000000, 0x7ff0000000000001, 0x0000000000000001,
           0x8000000000000001, 0x000fffffffffffff, 0x0010000000000000, 0x7fefffffffffffff, 0xffefffffffffffff,
           0x3ff0000000000000, 0xbff0000000000000, 0x4340000000000000, 0x43e0000000000000, 0x3fd5555555555555,
           0x47efffffe0000000, 0x36a0000000000000],
}


def gen_float_pattern(rng, name):
    """one component bit pattern of float dtype `name` (f2/f4/f8)"""
    w = np.dtype(name).itemsize
    if rng.random() < 0.6:
        return rng.choice(F_SPECIAL[name])
    if rng.random() < 0.5:       # a small integer-valued float
        return int(np.array([rng.randint(-1000, 1000)], dtype=name).view('u%d' % w)[0])
    return rng.getrandbits(8 * w)


def gen_vals(rng, in_name, out_name, n, zeros_only=False):
    kind, cw, k = comp_layout(in_name)
    if kind in 'iu':
        return gen_int_vals(rng, in_name, out_name, n)
    if kind == 'V':
        return [[rng.choice([0, 1, 127, 128, 254, 255, rng.randrange(256)]) for _ in range(k)] for _ in range(n)]
    src = {'f16': 'f8', 'c32': 'f8', 'c8': 'f4', 'c16': 'f8'}.get(in_name, in_name)
    if zeros_only:
        z = [0, 1 << (8 * np.dtype(src).itemsize - 1)]
        return [[rng.choice(z) for _ in range(k)] for _ in range(n)]
    return [[gen_float_pattern(rng, src) for _ in range(k)] for _ in range(n)]


def gen_shape(rng, max_rank, zero=False):
    rank = rng.choice([1, 2, 3, 3, 4, 4, 5, 6, 7])
    rank = min(rank, max_rank)
    if zero:                  # Analyze-family headers refuse the rank-1 shape (0,) (HeaderDataError): out of domain
        rank = max(rank, 2)
    while True:
        shape = [rng.choice([1, 1, 2, 2, 3, 4, 5]) for _ in range(rank)]
        if int(np.prod(shape)) <= 96:
            break
    if zero:
        shape[rng.randrange(rank)] = 0
    return tuple(shape)


def out_choices(cls_dtypes, in_name):
    """on-disk dtypes of the class reachable from `in_name` without scaling for SOME values"""
    ik, _, _ = comp_layout(in_name)
    outs = []
    for o in cls_dtypes:
        okd, _, _ = comp_layout(o)
        if 'V' in (ik, okd):
            if in_name == o:
                outs.append(o)
        elif ik == 'c':
            if okd == 'c':
                outs.append(o)
        else:
            outs.append(o)
    return outs


def gen_rt(rng, cls, route, comp, stream='rt', zero=False):
    ci = class_info()[cls]
    endian = '>' if ci['big_only'] else rng.choice('<>')
    for _ in range(50):
        in_name = rng.choice(INT_DT * 2 + ['f4', 'f8', 'f4', 'f8', 'f2', 'f16', 'c8', 'c16', 'c32', 'rgb', 'rgba'])
        outs = out_choices(ci['dtypes'], in_name)
        if outs:
            break
    out = rng.choice(outs)
    if in_name in outs and rng.random() < 0.35:       # no cast at all: the writer may hand NumPy's buffer straight on
        out = in_name
    shape = gen_shape(rng, ci['max_rank'], zero=zero)
    if cls == 'MGHImage' and zero:
        return None
    n = int(np.prod(shape, dtype=object))
    ik, okd = comp_layout(in_name)[0], comp_layout(out)[0]
    vals = gen_vals(rng, in_name, out, n, zeros_only=(ik == 'f' and okd in 'iu'))
    offset = None
    # (zero-size data: a plain file is not extended by the seek to an explicit offset, a gzip stream is;
    #  nothing is read back in either case - keep the default offset there)
    if ci['layout'] != 'mgh' and not zero and rng.random() < 0.3:
        offset = ci['off'] + rng.choice([0, 16, 16, 32, 48, 1, 7, 208])
    layout = gen_layout(rng, len(shape))
    history = None
    if not zero and rng.random() < 0.3:
        history = [gen_prior(rng, cls) for _ in range(rng.choice([1, 1, 2]))]
    opts = {}
    if ci['layout'] != 'mgh':
        # the on-disk dtype handed over as the `dtype=` argument of the save call instead of being set in the header
        if rng.random() < 0.25:
            opts['ovr'] = {'hdr0': rng.choice(ci['dtypes']), 'spell': rng.choice(SPELLS)}
        if rng.random() < 0.3:
            opts['hdr_src'] = rng.choice(HDR_SRCS)
    if route == 'filename' and rng.random() < 0.25:
        opts['saver'] = 'nibsave'
    if not zero and 'ovr' not in opts and rng.random() < 0.25 and not (cls == 'MGHImage' and len(shape) == 4 and shape[3] == 1):
        # the header of ANOTHER image (other shape / class / dtype / byte order / state) is handed to the constructor
        dn = gen_donor(rng, cls, shape, out)
        if dn is not None:
            opts.pop('hdr_src', None)
            opts['donor'] = dn
            endian = donor_endian(cls, dn)
    return mk_rt(cls, endian, out, offset, shape, in_name, layout, vals, route, comp, stream, history=history, opts=opts)


DONOR_RELS = ['trail+1', 'trail+2', 'trail-1', 'lead+1', 'lead-1', 'rank', 'lens', 'sameN', 'same', 'long']
DONOR_STATES = ['fresh', 'loaded', 'saved']


def shape_fits(cls, shape):
    """the generator's own statement of which shapes a header class can hold (format limits: int16 `dim` of
    Analyze / NIfTI-1 with its long-vector convention, 4 numbers in MGH, 7 axes otherwise)"""
    shape = tuple(shape)
    if not shape or min(shape) < 1:
        return False
    if cls == 'MGHImage':
        return len(shape) <= 4 and max(shape) < 2 ** 31
    if len(shape) > 7:
        return False
    if cls.startswith('Nifti2') or max(shape) <= 32767:
        return True
    return (cls.startswith('Nifti1') and len(shape) >= 3 and shape[1:3] == (1, 1) and max(shape[3:] + (0,)) <= 32767
            and shape[0] < 2 ** 31)


def donor_shape(rng, shape, rel):
    """a donor shape standing in relation `rel` to the data shape"""
    s = list(shape)
    n = int(np.prod(s))
    if rel == 'trail+1':
        return s + [1]
    if rel == 'trail+2':
        return s + [1, 1]
    if rel == 'trail-1':
        return s[:-1] if (s[-1] == 1 and len(s) > 1) else s + [1]
    if rel == 'lead+1':
        return [1] + s
    if rel == 'lead-1':
        return s[1:] if (s[0] == 1 and len(s) > 1) else [1] + s
    if rel == 'rank':
        while True:
            r = list(gen_shape(rng, 7))
            if len(r) != len(s):
                return r
    if rel == 'lens':
        r = [x + rng.choice([1, 2]) if rng.random() < 0.6 else max(1, x - 1) for x in s]
        return r if r != s else [x + 1 for x in s]
    if rel == 'sameN':
        cands = [list(reversed(s)), [n], [n, 1, 1], [1, n], [x for x in s if x != 1] or [1], s[1:] + s[:1]]
        cands = [c for c in cands if c != s]
        return rng.choice(cands) if cands else s + [1]
    if rel == 'long':
        return list(rng.choice([(70000, 1, 1), (163842, 1, 1), (1, 70000, 1), (70000, 1, 1, 2), (40000, 2), (65536, 1, 1)]))
    return s


def gen_donor(rng, cls, shape, out, rel=None, dcls=None, state=None):
    """opts['donor'] for an image of class `cls`, data shape `shape`, on-disk dtype `out` (None: no valid donor)"""
    info = class_info()
    ci = info[cls]
    for _ in range(40):
        dc = dcls or (cls if rng.random() < 0.5 else rng.choice(CLASS_NAMES))
        di = info[dc]
        r = rel or rng.choice(DONOR_RELS)
        ds = donor_shape(rng, shape, r)
        rep = ds + [1] * (3 - len(ds)) if dc == 'MGHImage' else ds          # MGHImage pads to 3-D
        if dc == 'MGHImage' and len(rep) == 4 and rep[3] == 1:
            rep3 = rep[:3]                                                 # ... and its header forgets a 4th 1
        else:
            rep3 = rep
        if not (shape_fits(dc, ds) and shape_fits(dc, rep)):
            if rel and r in ('trail+1', 'trail+2', 'lead+1') and len(ds) > di['max_rank']:
                rel = 'trail-1' if r != 'lead+1' else 'lead-1'
            elif rel == 'long':
                rel = 'lens'
            continue
        if cls != 'MGHImage' and not (shape_fits(cls, rep) and shape_fits(cls, rep3)):
            if rel == 'long':
                rel = 'lens'
            continue
        st = state or rng.choice(DONOR_STATES)
        if dc == 'MGHImage' and len(rep) == 4 and rep[3] == 1:
            st = 'fresh'                                                   # (not saveable: the known MGH finding)
        foreign_mgh = (cls == 'MGHImage' and dc != cls)
        # donor dtype: the on-disk dtype itself (kept through from_header), or another one + set_data_dtype(out)
        keep = (not foreign_mgh) and out in di['dtypes'] and rng.random() < 0.5
        if keep:
            ddt, setdt = out, False
        else:
            both = [t for t in di['dtypes'] if foreign_mgh or t in ci['dtypes']]
            if not both:
                continue
            ddt, setdt = rng.choice(both), True
        dend = '>' if di['big_only'] else rng.choice('<>')
        dn = {'cls': dc, 'shape': [int(x) for x in ds], 'endian': dend, 'dtype': ddt, 'state': st, 'setdt': setdt}
        if rng.random() < 0.4:
            dn['zooms'] = True
        return dn
    return None


def donor_endian(cls, dn):
    """byte order the saved file is expected to have: the donor's when the header is copied (same class), the
    machine's when it is converted"""
    if cls == 'MGHImage':
        return '>'
    return dn['endian'] if dn['cls'] == cls else NATIVE


def donor_stream(rng, tier):
    """the image is built with the header of ANOTHER image: class x relation between the donor's shape and the data's
    (trailing / leading length-1 axes added or removed, other rank, other lengths, same number of elements, same,
    long vectors) x donor class {same, two others} x donor state / dtype / byte order / zooms"""
    out = []
    info = class_info()
    j = 0
    for cls in CLASS_NAMES:
        ci = info[cls]
        others = [c for c in CLASS_NAMES if c != cls]
        for rel in DONOR_RELS:
            for dsel in range({'quick': 3, 'thorough': 8, 'search': 3}[tier]):
                j += 1
                dcls = cls if dsel % 3 == 0 else others[(j + dsel) % len(others)]
                odts = [t for t in ('i2', 'f4', 'u1', 'i4', 'f8', 'c8', 'rgb') if t in ci['dtypes']]
                o = odts[j % len(odts)]
                for _ in range(20):
                    shape = gen_shape(rng, min(ci['max_rank'], 5))
                    if not (cls == 'MGHImage' and len(shape) == 4 and shape[3] == 1):
                        break
                else:
                    continue
                dn = gen_donor(rng, cls, shape, o, rel=rel, dcls=dcls, state=DONOR_STATES[j % 3])
                if dn is None:
                    continue
                vals = gen_vals(rng, o, o, int(np.prod(shape)))
                routes = ['file_map', 'filename'] + (['bytes', 'stream'] if ci['serial'] else [])
                route = routes[j % len(routes)]
                comp = ''
                if route == 'filename' and j % 2:
                    comp = '.mgz' if cls == 'MGHImage' else '.gz'
                hist = [gen_prior(rng, cls)] if j % 7 == 0 else None
                out.append(mk_rt(cls, donor_endian(cls, dn), o, None, shape, o, gen_layout(rng, len(shape)), vals, route,
                                 comp, 'donor', history=hist, opts={'donor': dn}))
    # ---- donors whose dtype the target class has no code for: from_header must refuse (HeaderDataError)
    for cls in CLASS_NAMES:
        ci = info[cls]
        if cls == 'MGHImage':
            continue                                    # MGHHeader.from_header never converts a foreign header
        for dcls in CLASS_NAMES:
            if dcls == cls:
                continue
            bad = [t for t in info[dcls]['dtypes'] if t not in ci['dtypes']]
            for ddt in (bad if tier != 'quick' else bad[:1] + ([rng.choice(bad)] if len(bad) > 1 else [])):
                shape = gen_shape(rng, 4)
                dn = {'cls': dcls, 'shape': list(donor_shape(rng, shape, rng.choice(['same', 'trail+1', 'lens']))),
                      'endian': '>' if info[dcls]['big_only'] else rng.choice('<>'), 'dtype': ddt,
                      'state': rng.choice(DONOR_STATES), 'setdt': True}
                if not (shape_fits(dcls, dn['shape']) and shape_fits(cls, dn['shape'])):
                    dn['shape'] = list(shape)
                o = 'u1'
                out.append(mk_rt(cls, donor_endian(cls, dn), o, None, shape, o, 'C', gen_vals(rng, o, o, int(np.prod(shape))),
                                 'file_map', '', 'donor', expect='refuse-donor', opts={'donor': dn}))
    return out


def gen_prior(rng, cls):
    """a prior save of the same image object: another on-disk dtype (small integer types make most data need
    rescaling), to a throw-away destination"""
    ci = class_info()[cls]
    small = [t for t in ('u1', 'i2', 'i1', 'u2') if t in ci['dtypes']]
    out = rng.choice(small) if rng.random() < 0.6 else rng.choice(ci['dtypes'])
    routes = ['file_map', 'file_map', 'filename'] + (['bytes'] if ci['serial'] else [])
    h = {'out': out, 'route': rng.choice(routes)}
    if ci['layout'] != 'mgh' and rng.random() < 0.4:
        h['arg'] = True                    # prior save used `dtype=` instead of set_data_dtype
    return h


NATIVE = '<' if np.little_endian else '>'


def perm_stream(rng, tier):
    """every axis permutation of C- and F-contiguous buffers for rank 2-4, saved with the on-disk dtype and byte
    order identical to the in-memory ones (no cast, no swap: the writer sees NumPy's own buffer), and with a cast"""
    out = []
    info = class_info()
    shapes = {2: [(3, 4)], 3: [(2, 3, 4), (3, 1, 4)], 4: [(2, 3, 2, 3), (2, 3, 4, 2)]}
    for cls in CLASS_NAMES:
        ci = info[cls]
        dts = [t for t in ('i2', 'f4', 'u1', 'i4', 'c8', 'f8', 'rgb') if t in ci['dtypes']]
        j = 0
        for rank, shs in shapes.items():
            for shape in shs:
                n = int(np.prod(shape))
                for perm in itertools.permutations(range(rank)):
                    for base in 'CF':
                        for endian in ('>' if ci['big_only'] else '<>'):
                            j += 1
                            if tier == 'quick' and rank == 4 and shape != shapes[4][0] and j % 3:
                                continue
                            dt = dts[j % len(dts)]
                            same = (j % 4 != 0)
                            in_name = dt if same else {'i2': 'u1', 'f4': 'i2', 'u1': 'u1', 'i4': 'i2', 'c8': 'f4',
                                                       'f8': 'f4', 'rgb': 'rgb'}[dt]
                            layout = f'perm:{base}:' + '.'.join(map(str, perm))
                            if endian != NATIVE:
                                layout += '+swap'             # memory byte order == on-disk byte order
                            vals = gen_vals(rng, in_name, dt, n)
                            route = ['file_map', 'bytes', 'filename'][j % 3]
                            if route == 'bytes' and not ci['serial']:
                                route = 'file_map'
                            comp = ''
                            if route == 'filename' and cls != 'MGHImage' and j % 2:
                                comp = '.gz'
                            out.append(mk_rt(cls, endian, dt, None, shape, in_name, layout, vals, route, comp, 'perm'))
    return out


def history_stream(rng, tier):
    """the same image object saved before (with a dtype that needs rescaling / is refused / needs none), then
    saved losslessly: class x prior dtype x dtype under test, deterministic"""
    out = []
    info = class_info()
    for cls in CLASS_NAMES:
        ci = info[cls]
        small = [t for t in ('u1', 'i2') if t in ci['dtypes']]
        for in_name, test_out in (('f4', 'f4'), ('f8', 'f8'), ('i4', 'i4'), ('i4', 'f4'), ('i2', 'i2'), ('f4', 'f8'),
                                  ('u1', 'i2')):
            if test_out not in ci['dtypes']:
                continue
            for prior in small + ['f4']:
                if prior == test_out:
                    continue
                for k in range({'quick': 1, 'thorough': 4, 'search': 1}[tier]):
                    shape = gen_shape(rng, min(ci['max_rank'], 4))
                    n = int(np.prod(shape))
                    if in_name.startswith('f'):     # multiples of 1/8: exact in float, not integers
                        fl = np.array([rng.randint(-800, 800) / 8.0 for _ in range(n)], dtype=in_name)
                        vals = [[int(x)] for x in fl.view('u%d' % fl.dtype.itemsize)]
                    else:
                        vals = gen_int_vals(rng, in_name, test_out, n)
                    endian = '>' if ci['big_only'] else rng.choice('<>')
                    hist = [{'out': prior, 'route': rng.choice(['file_map', 'filename'])}]
                    if k % 2:
                        hist.append(gen_prior(rng, cls))
                    route = rng.choice(['file_map', 'filename'] + (['bytes', 'stream'] if ci['serial'] else []))
                    out.append(mk_rt(cls, endian, test_out, None, shape, in_name, gen_layout(rng, len(shape)), vals,
                                     route, '', 'history', history=hist))
    return out


def dtypearg_stream(rng, tier):
    """the `dtype=` argument of to_filename / to_file_map / to_stream / to_bytes / nib.save crossed with the header's
    byte order, the way the header got it, and the way the dtype is spelled: class x {<,>} x hdr_src x spelling"""
    out = []
    info = class_info()
    pairs = [('i4', 'i2'), ('f8', 'f4'), ('i2', 'f4'), ('u1', 'u1'), ('c16', 'c8'), ('i2', 'i4'), ('f4', 'f8'), ('u2', 'u2'),
             ('rgb', 'rgb'), ('i8', 'i8'), ('f4', 'c8')]
    j = 0
    for cls in CLASS_NAMES:
        ci = info[cls]
        if ci['layout'] == 'mgh':
            continue                        # MGHImage.to_file_map has no `dtype=`
        routes = ['file_map', 'filename', 'filename'] + (['bytes', 'stream'] if ci['serial'] else [])
        ok_pairs = [p for p in pairs if p[1] in ci['dtypes']]
        for rep in range({'quick': 1, 'thorough': 4, 'search': 1}[tier]):
            for endian in '<>':
                for src in HDR_SRCS:
                    for spell in SPELLS:
                        j += 1
                        in_name, o = ok_pairs[j % len(ok_pairs)]
                        hdr0 = [t for t in ci['dtypes'] if t != o][(j // 3) % (len(ci['dtypes']) - 1)]
                        shape = gen_shape(rng, 5)
                        vals = gen_vals(rng, in_name, o, int(np.prod(shape)))
                        route = routes[j % len(routes)]
                        comp = '.gz' if (route in ('filename', 'stream') and j % 4 == 1) else ''
                        opts = {'ovr': {'hdr0': hdr0, 'spell': spell}, 'hdr_src': src}
                        if route == 'filename' and j % 2:
                            opts['saver'] = 'nibsave'
                        hist = [dict(gen_prior(rng, cls), arg=True)] if j % 5 == 0 else None
                        out.append(mk_rt(cls, endian, o, None, shape, in_name, gen_layout(rng, len(shape)), vals, route,
                                         comp, 'dtypearg', history=hist, opts=opts))
    return out


def resave_stream(rng, tier):
    """an image LOADED from disk (memory-mapped or not) and saved over its own file, the path spelled in different
    ways for loading and saving (the child process works in the file's directory)"""
    out = []
    info = class_info()
    j = 0
    for cls in CLASS_NAMES:
        ci = info[cls]
        comps = [''] * 3 + (['.mgz'] if cls == 'MGHImage' else ['.gz'])
        for rep in range({'quick': 1, 'thorough': 6, 'search': 1}[tier]):
            for lpath in RS_PATHS:
                for mm in ((True, 'r') if tier == 'quick' else (True, False, 'c', 'r')):
                    j += 1
                    if tier == 'quick' and mm == 'r' and j % 3:
                        continue
                    comp = comps[rng.randrange(len(comps))]
                    load = rng.choice(['nib.load', 'from_filename', 'from_filename', 'fileobj'])
                    if load == 'fileobj' and comp:
                        load = 'from_filename'
                    if load == 'nib.load' and 'Analyze' in cls:
                        # nib.load sniffs a plain Analyze pair as another class of the family; re-wrapping its
                        # header in `cls` (via new/arr) converts it to a native-endian header: a different scenario
                        load = 'from_filename'
                    spath = rng.choice(['same', 'same', 'own', 'getname'] + RS_PATHS)
                    o = rng.choice([t for t in ('i2', 'f4', 'u1', 'i4', 'f8', 'c8', 'rgb') if t in ci['dtypes']])
                    rs = {'mmap': mm, 'load': load, 'lpath': lpath, 'spath': spath,
                          'via': rng.choice(['same', 'same', 'new', 'arr'] + sorted(VIA_VIEWS)),
                          'touch': rng.choice([None, None, 'asarray', 'fdata' if comp_layout(o)[0] in 'iuf' else None])}
                    if rng.random() < 0.25:
                        rs['saver'] = 'nibsave'

                    if j % 4 == 0:             # more than one page of data
                        shape = rng.choice([(40, 30, 3), (25, 20, 2, 3), (3000,), (64, 33)])
                        if cls != 'MGHImage' and len(shape) == 1:
                            shape = (3000, 1)
                    else:
                        shape = gen_shape(rng, min(ci['max_rank'], 5))
                    vals = gen_vals(rng, o, o, int(np.prod(shape)))
                    endian = '>' if ci['big_only'] else rng.choice('<>')
                    opts = {'resave': rs}
                    if ci['layout'] != 'mgh' and rng.random() < 0.3:
                        opts['hdr_src'] = rng.choice(HDR_SRCS)
                    out.append(mk_rt(cls, endian, o, None, shape, o, 'C', vals, 'filename', comp, 'resave', opts=opts))
    return out


LONG_QUICK = [
    # (class, shape, in, out, endian, route, comp, layout)
    ('Nifti1Image', (163842, 1, 1), 'i2', 'i2', '<', 'bytes', '', 'C'),          # FreeSurfer ico7 overlay
    ('Nifti1Pair', (131072, 1, 1), 'i4', 'i2', '>', 'file_map', '', 'F'),
    ('Nifti2Image', (200000,), 'f4', 'f4', '<', 'file_map', '', 'C'),
    ('Nifti2Pair', (1, 131072, 1), 'u1', 'u1', '>', 'filename', '.gz', 'C'),
    ('MGHImage', (163842, 1, 1), 'f4', 'f4', '>', 'filename', '', 'C'),
    ('MGHImage', (1, 1, 1, 70000), 'i2', 'i2', '>', 'bytes', '', 'F'),
    ('Nifti2Image', (1, 1, 1, 196608), 'u1', 'i2', '<', 'stream', '', 'C'),
    ('Nifti2Image', (70000, 2), 'i2', 'i2', '>', 'bytes', '', 'C'),
    ('Nifti2Pair', (2, 1, 70000), 'i2', 'i4', '<', 'file_map', '', 'perm:C:2.1.0'),
]


def lcg_spec(rng, in_name, out_name):
    kind, cw, k = comp_layout(in_name)
    if kind in 'iu':
        lo, hi = int_extremes(in_name)
        if comp_layout(out_name)[0] in 'iu':
            lo2, hi2 = int_extremes(out_name)
            lo, hi = max(lo, lo2), min(hi, hi2)
        m = min(hi - lo + 1, 1 << 31)
        return {'lcg': [2 * rng.randrange(1000, 40000) + 1, rng.randrange(1000), m, lo]}
    src = {'f16': 'f8', 'c32': 'f8', 'c8': 'f4', 'c16': 'f8'}.get(in_name, in_name)
    bits = 8 * (1 if kind == 'V' else np.dtype(src).itemsize)
    return {'lcg': [2 * rng.randrange(10 ** 6, 10 ** 8) + 1, rng.randrange(1000), 1 << min(bits, 62), 0]}


def long_stream(rng, tier):
    """LONG axes (> 2**16 elements along one axis; effectively 1-D data as surface overlays have, and 2-D): the
    per-slab loop of _write_data and the shape fields of the headers see sizes the small cases never reach"""
    out = []
    info = class_info()
    todo = list(LONG_QUICK)
    nrand = {'quick': 2, 'thorough': 24, 'search': 1}[tier]
    for _ in range(nrand):
        cls = rng.choice(['Nifti1Image', 'Nifti1Pair', 'Nifti2Image', 'Nifti2Pair', 'MGHImage'])
        ci = info[cls]
        n = rng.choice([rng.randrange(65537, 140000), 2 * rng.randrange(32769, 70000), 3 * rng.randrange(21846, 45000),
                        65536 * 2, 65536 * 3, 65537, 200000, 163842])
        if cls.startswith('Nifti1'):
            shape = (n, 1, 1) + rng.choice([(), (), (1,)])           # the only long shape an int16 `dim` can hold
        elif cls == 'MGHImage':
            shape = rng.choice([(n, 1, 1), (1, n, 1), (1, 1, n), (1, 1, 1, n), (n,), (n, 1)])
        else:
            shape = rng.choice([(n, 1, 1), (1, n, 1), (n,), (1, 1, 1, n), (n, 1), (1, n), (1, 1, n, 1, 1),
                                (n // 2, 2), (2, n // 2), (1, n // 2, 1, 2)])
        in_name = rng.choice(['i2', 'u1', 'i4', 'f4', 'f8', 'c8', 'i8', 'u2'])
        outs = out_choices(ci['dtypes'], in_name)
        if not outs:                                   # (e.g. complex input, MGH)
            continue
        o = in_name if (in_name in outs and rng.random() < 0.6) else rng.choice(
            [t for t in outs if comp_layout(t)[0] in 'iu' or comp_layout(in_name)[0] not in 'iu' or True])
        if comp_layout(in_name)[0] in 'fc' and comp_layout(o)[0] in 'iu':
            o = in_name if in_name in outs else 'f4'
        route, comp = rng.choice([c for c in cells() if c[0] == cls])[1:]
        endian = '>' if ci['big_only'] else rng.choice('<>')
        layout = rng.choice(['C', 'F', 'C+swap', 'strided', 'neg'])
        todo.append((cls, shape, in_name, o, endian, route, comp, layout))
    if tier == 'thorough':
        for cls in ('Nifti1Image', 'Nifti2Image', 'Nifti2Pair', 'MGHImage'):
            for n in (131072, 163842, 196608, 200000):
                for dt in ('u1', 'i2', 'f4'):
                    if dt in info[cls]['dtypes']:
                        todo.append((cls, (n, 1, 1), dt, dt, '>' if cls == 'MGHImage' else rng.choice('<>'),
                                     rng.choice(['file_map', 'filename']), '', 'C'))
    # the ico7 alias of NIfTI-1 (open finding nifti1:ico7-shape-alias) and its neighbours
    todo.append((rng.choice(['Nifti1Image', 'Nifti1Pair']), (27307, 1, 6), 'u1', 'u1', rng.choice('<>'), 'file_map', '', 'C'))
    if tier != 'quick':
        todo.append(('Nifti2Image', (27307, 1, 6), 'u1', 'u1', '<', 'bytes', '', 'C'))
        todo.append(('Nifti1Image', (27307, 1, 6, 2), 'u1', 'u1', '>', 'bytes', '', 'F'))
        todo.append(('Nifti1Image', (27307, 6, 1), 'u1', 'u1', '>', 'bytes', '', 'C'))
    for cls, shape, in_name, o, endian, route, comp, layout in todo:
        if o not in info[cls]['dtypes']:
            continue
        out.append(mk_rt(cls, endian, o, None, shape, in_name, layout, lcg_spec(rng, in_name, o), route, comp, 'long'))
    return out


def cells():
    out = []
    info = class_info()
    for cls in CLASS_NAMES:
        ci = info[cls]
        if cls == 'MGHImage':
            comps = ['', '.mgz']
        else:
            comps = [''] + [s for s in ci['suffixes'] if s != '.zst' or HAVE_ZSTD]
        for comp in comps:
            out.append((cls, 'filename', comp))
        out.append((cls, 'file_map', ''))
        if ci['serial']:
            # a user-supplied BZ2File opened for writing refuses `seek(0)` in FileHolder.get_prepare_fileobj
            # (loud refusal before anything is written) - not a route; GzipFile accepts it
            for comp in ['', '.gz']:
                out.append((cls, 'stream', comp))
            out.append((cls, 'bytes', ''))
    return out


def rand_name(rng):
    parts = ['', 'a', 'vol', 'x.y', '.hidden', '..', 'dir.gz/', 'dir.d/', '/tmp/', 'A B', 'ü']
    exts = ['', '.nii', '.img', '.hdr', '.mgh', '.mgz', '.MGZ', '.gz', '.GZ', '.Gz', '.bz2', '.BZ2', '.zst', '.ZST', '.z',
            '.Z', '.gzip', '.bz', '.', '.nii.gz', '.gz.nii', '.mgh.gz', '.tar.bz2', 'gz', '.gz.', '.gz/', '.zst ']
    return ''.join(rng.choice(parts) for _ in range(rng.randint(0, 3))) + ''.join(rng.choice(exts) for _ in range(rng.randint(0, 2)))


def cases(rng, tier):
    out = []
    info = class_info()
    per_cell = {'quick': 48, 'thorough': 400, 'search': 60}[tier]
    for cls, route, comp in cells():
        for _ in range(per_cell):
            out.append(gen_rt(rng, cls, route, comp))
    out.extend(perm_stream(rng, tier))
    out.extend(history_stream(rng, tier))
    out.extend(dtypearg_stream(rng, tier))
    out.extend(resave_stream(rng, tier))
    out.extend(donor_stream(rng, tier))
    out.extend(long_stream(rng, tier))
    # ---- the MGH single-frame 4-D class (known finding) and its neighbours
    for shape in [(1, 1, 1, 1), (2, 3, 2, 1), (2, 1, 1, 1), (2, 3, 2, 2), (1, 1, 1, 2), (2, 3, 1), (1, 1, 1), (3,), (2, 2)]:
        n = int(np.prod(shape))
        out.append(mk_rt('MGHImage', '>', 'i2', None, shape, 'i2', 'C', gen_int_vals(rng, 'i2', 'i2', n),
                         rng.choice(['bytes', 'file_map', 'filename']), '', 'rt'))
    # ---- zero-size arrays
    for _ in range({'quick': 40, 'thorough': 400, 'search': 40}[tier]):
        cls, route, comp = rng.choice([c for c in cells() if c[0] != 'MGHImage'])
        c = gen_rt(rng, cls, route, comp, stream='zero', zero=True)
        if c is not None:
            out.append(c)
    # ---- refused offsets (single-file header would be overwritten)
    for cls in ('Nifti1Image', 'Nifti2Image'):
        for off in (1, 100, info[cls]['hlen'] - 1, info[cls]['hlen'] - 4):
            out.append(mk_rt(cls, rng.choice('<>'), 'u1', off, (2, 2), 'u1', 'C', [1, 2, 3, 4], 'file_map', '',
                             'refuse', expect='refuse'))
    # ---- scaling_needed: all dtype pairs x value classes x writer
    nper = {'quick': 1, 'thorough': 6, 'search': 1}[tier]
    for a in ALL_DT:
        for o in ALL_DT:
            if o in ('f2', 'f16', 'c32') and tier == 'quick' and a not in ('u1', 'i8', 'f8'):
                continue
            for writer in ('base', 'slope'):
                ik = comp_layout(a)[0]
                variants = [[]]
                for _ in range(nper):
                    n = rng.randint(1, 5)
                    variants.append(gen_vals(rng, a, None, n))
                    if ik in 'iu' and comp_layout(o)[0] in 'iu':
                        variants.append(gen_int_vals(rng, a, o, n))         # in range of both
                        lo, hi = int_extremes(o)
                        for edge in (lo - 1, lo, hi, hi + 1):
                            if in_int_range(a, edge):
                                variants.append([edge] + gen_int_vals(rng, a, o, n - 1))
                    if ik in 'iuf':
                        variants.append(gen_vals(rng, a, None, n, zeros_only=True) if ik == 'f' else [0] * n)
                    if ik == 'f':
                        src = {'f16': 'f8'}.get(a, a)
                        nan = F_SPECIAL[src][4]
                        inf = F_SPECIAL[src][2]
                        variants.append([[nan]] * n)
                        variants.append([[rng.choice([nan, inf, F_SPECIAL[src][3]])] for _ in range(n)])
                        variants.append([[nan], [0]])
                for v in variants:
                    out.append(mk_sn(writer, a, o, v))
    # ---- codec by file name
    import nibabel.freesurfer.mghformat  # noqa: F401
    from nibabel.openers import ImageOpener
    seen = set()
    for cls in CLASS_NAMES:
        ci = info[cls]
        for ext in ci['valid_exts']:
            for suf in ('',) + ci['suffixes']:
                for root in ('vol', '/tmp/d.gz/vol', 'a.b', '.hidden', 'x.bz2', ''):
                    for f in (str, str.upper, str.title):
                        nm = root + f(ext + suf)
                        if nm not in seen:
                            seen.add(nm)
                            out.append(mk_codec(nm))
    for k in ImageOpener.compress_ext_map:
        if k is not None:
            for root in ('', 'v', '.', '..', 'a/', 'a/.', 'v.nii', 'V.NII'):
                for nm in (root + k, root + k.upper(), root + k + '/x', root + k + '.'):
                    if nm not in seen:
                        seen.add(nm)
                        out.append(mk_codec(nm))
    for _ in range({'quick': 400, 'thorough': 4000, 'search': 400}[tier]):
        nm = rand_name(rng)
        if nm not in seen and '\x00' not in nm:
            seen.add(nm)
            out.append(mk_codec(nm))
    # ---- the file objects really opened for the table names
    for cls in CLASS_NAMES:
        ci = info[cls]
        for ext in ci['valid_exts']:
            for suf in ('',) + ci['suffixes']:
                if suf == '.zst' and not HAVE_ZSTD:
                    continue
                for root in ('vol', 'a.b', 'x.gz', '.h'):
                    nm = root + ext + suf
                    if ('o', nm) not in seen:
                        seen.add(('o', nm))
                        out.append(mk_opener(nm))
    # ---- truncated / exact / over-long data files
    for cls in CLASS_NAMES:
        if cls == 'MGHImage':
            continue
        ci = info[cls]
        for _ in range({'quick': 12, 'thorough': 120, 'search': 12}[tier]):
            o = rng.choice(ci['dtypes'])
            shape = gen_shape(rng, 4)
            kind, cw, k = comp_layout(o)
            need = ci['off'] + int(np.prod(shape)) * cw * k
            flen = max(ci['off'], need - rng.choice([0, 0, 1, 1, 2, cw * k, rng.randint(1, max(1, need - ci['off']))]))
            if rng.random() < 0.15:
                flen = need + rng.randint(1, 9)
            out.append(mk_rd(cls, rng.choice('<>'), o, shape, flen))
    # ---- shape fields of the Analyze-family headers: limits of `dim`, the two FreeSurfer conventions of NIfTI-1
    for cls in CLASS_NAMES:
        if cls == 'MGHImage':
            continue
        shapes = [(27307, 1, 6), (27307, 1, 6, 2), (163842, 1, 1), (163842, 1, 1, 3), (163842, 1), (163842,), (1, 163842, 1),
                  (163842, 1, 2), (163842, 2, 1), (32767, 1, 1), (32768, 1, 1), (32768, 1, 1, 32767), (32768, 1, 1, 32768),
                  (32768, 1), (32768,), (1, 32768, 1), (1, 1, 32768), (2 ** 31 - 1, 1, 1), (2 ** 31, 1, 1), (2 ** 63 - 1, 1, 1),
                  (2 ** 63, 1, 1), (2 ** 63 - 1,), (2 ** 63,), (27307, 1), (27307, 1, 5), (0, 1, 1), (2, 0, 3), (1,) * 7,
                  (1,) * 8, (2,) * 7, (32767,) * 7, (65536, 1, 1, 1, 1, 1, 1), (65536, 1, 1, 1, 1, 1, 1, 1)]
        for _ in range({'quick': 30, 'thorough': 300, 'search': 30}[tier]):
            rank = rng.randint(1, 8)
            pool = [1, 1, 1, 2, 3, 6, 27307, 32767, 32768, 163842, 65536, rng.randint(0, 70000), 2 ** 31 - 1, 2 ** 31]
            shapes.append(tuple(rng.choice(pool[:6] if rng.random() < 0.5 else pool) for _ in range(rank)))
            shapes.append((rng.choice(pool),) + (1, 1) + tuple(rng.choice(pool[:6]) for _ in range(rng.randint(0, 4))))
        for sh in shapes:
            out.append(mk_hshape(cls, sh))
    # ---- maps_file: every root x chains of view / copy steps
    seen_mf = set()
    for root in MF_ROOTS:
        recs = [[root]] + [[root, st] for st in MF_STEPS] + [[root, 'asarray', st] for st in MF_STEPS]
        for _ in range({'quick': 6, 'thorough': 60, 'search': 6}[tier]):
            recs.append([root] + [rng.choice(MF_STEPS) for _ in range(rng.randint(2, 5))])
        for rec in recs:
            if tuple(rec) not in seen_mf:
                seen_mf.add(tuple(rec))
                out.append(mk_mf(rec))
    # ---- MGH shape rules, exhaustive small
    for rank in range(0, 6):
        for shape in itertools.product([1, 2, 3], repeat=rank):
            if tier == 'quick' and rank == 5 and rng.random() < 0.8:
                continue
            out.append(mk_mghshape(shape))
    return [c for c in out if c is not None]
