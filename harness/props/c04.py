"""C04 — the voxel-to-world affine survives save/load to the format's precision.

Real code exercised: Nifti1Image / Nifti1Pair / Nifti2Image / AnalyzeImage / Spm99AnalyzeImage (+ .mat) /
Spm2AnalyzeImage / MGHImage construction (with or without a supplied header), to_file_map, from_file_map,
header.get_sform/get_qform(coded=True), quaternions.quat2mat / mat2quat, volumeutils.shape_zoom_affine.
"""
import io
import itertools
import math
import os
import re
import warnings
from fractions import Fraction as Fr

import numpy as np

from common import Case, errname, write_if_changed, LEAN

PID = 'C04'
LEAN_TARGETS = ['NibabelModel.Props.C04']
THEOREMS = [
    'Nb.C04.best_affine_priority',
    'Nb.C04.sform_roundtrip',
    'Nb.C04.quat2mat_orthogonal',
    'Nb.C04.quat2mat_det',
    'Nb.C04.quat2mat_rotation',
    'Nb.C04.quat2mat_neg',
    'Nb.C04.mat2quat_K_identity',
    'Nb.C04.mat2quat_K_eigen',
    'Nb.C04.mat2quat_K_orthogonal_complement',
    'Nb.C04.mat2quat_top_eigenvector_unique',
    'Nb.C04.mat2quat_quat2mat',
    'Nb.C04.qform_decode',
    'Nb.C04.qform_roundtrip',
    'Nb.C04.qform_orig_counterexample',
    'Nb.C04.mgh_roundtrip',
    'Nb.C04.mgh_image_roundtrip',
    'Nb.C04.spm_shift_inverse',
    'Nb.C04.spm_mat_roundtrip',
    'Nb.C04.spm_mat_roundtrip_flips',
    'Nb.C04.spm_image_roundtrip',
    'Nb.C04.spm_image_roundtrip_M_mismatch',
    'Nb.C04.gen_spm_consts_ok',
    'Nb.C04.mgh_forward_error',
    'Nb.C04.qform_forward_error',
    'Nb.C04.nifti_roundtrip_exact_of_representable',
    'Nb.C04.nifti2_roundtrip_identity',
    'Nb.C04.foreign_header_conversion',
    'Nb.C04.fallback_affine',
    'Nb.C04.fallback_affine_centre',
    'Nb.C04.nifti_roundtrip_no_header',
    'Nb.C04.nifti_roundtrip_header_not_close',
    'Nb.C04.nifti_roundtrip_header_close_keeps_header',
    'Nb.C04.update_header_allclose_counterexample',
    'Nb.C04.check_fix_codes',
    'Nb.C04.sform_code_survives_load',
    'Nb.C04.gen_xform_codes_ok',
    'Nb.C04.analyze_roundtrip_zooms',
    'Nb.C04.gen_thresholds_ok',
    'Nb.C04.skeletons_agree',
    'Nb.C04.best_affine_skeleton',
    'Nb.C04.update_header_skeleton',
    'Nb.C04.spm_write_skeleton',
    'Nb.C04.spm_read_skeleton',
]
ASSUMPTIONS = [
    'hand-written Lean model (Model/C04.lean) of nifti1 get_best_affine/set_sform/get_sform/set_qform/get_qform, '
    'quaternions fillpositive/quat2mat/mat2quat, spatialimages update_header/_affine2header, analyze '
    'get_base_affine, spm99analyze get_origin_affine + .mat read/write, mghformat _affine2header/get_affine, '
    'volumeutils.shape_zoom_affine; tied to the code by the exact-stream differential run of this check',
    'NumPy numerics are parameters of the model (storage rounding, sqrt, SVD polar factor, eigh top '
    'eigenvector, np.allclose) with the contracts written in Model/C04.lean `Ext`; the theorems assume these '
    'contracts; IEEE rounding inside NumPy is not modelled — precision clauses are checked by the oracle on '
    'the general stream, not proved',
    'the executable float32 rounding `roundF32` of the driver is validated in this run against numpy.float32 '
    '(stream r32)',
    'header bytes written = header fields read back (property C10); scipy.io savemat/loadmat round-trips '
    'float64 matrices exactly',
    'forward-error theorems (mgh_forward_error, qform_forward_error) assume the storage rounding satisfies '
    '|rnd x - x| <= u|x| (L.RelRnd); for numpy.float32 with u = 2^-24 on the normal range this is validated in '
    'this run by the r32 stream; NumPy float64 dot products / sqrt / eigh / svd are not modelled (the model '
    'evaluates them exactly) — their error is covered by the oracle tolerances only',
    'header.default_x_flip is modelled for Analyze / SPM (three moments: construction, save, loading class); for '
    'NIfTI it is generated only where a coded sform / qform makes it irrelevant (oracle only, no model line)',
    'decision skeletons: the bodies of Nifti1Header.get_best_affine, SpatialImage.update_header, '
    'Spm99AnalyzeImage.to_file_map / from_file_map are regenerated from the AST as verbatim statement trees; the table '
    'Model/C04.lean `atomTable` (Python statement text -> meaning) and the evaluators evalBest / evalUpdate / evalWrite / '
    'evalRead are hand-written and trusted to say what each statement does (checked against the code by the rt streams)',
    'conversion routes (from_image, nib.save to another extension) and save histories are oracle-only / model-line-'
    'unchanged dimensions: the model says history does not matter',
    'cross-class header conversion (AnalyzeHeader.from_header) is modelled for the affine-carrying fields only '
    '(NHdr.convertN, NHdr.ofZooms, AHdr.ofZooms, clipZooms), tied by the exact-xclass / n2-f64 / general-sform-code '
    'streams',
]
RULE = ('exact stream: affines = (signed permutation or small integer matrix) x power-of-two zooms x dyadic '
        'translations, x 7 image classes x {no header, header with equal / allclose-near / far affine} x '
        'default_x_flip at construction / save / load (instance attribute, header subclass, class attribute, other '
        'loading class) x supplied header of the own or of ANOTHER class (N1/N1P/N2/AN/S99/S2/MGH) x header byte '
        'order x np.allclose boundary variants (relative 2^-17 / 2^-16, absolute 2^-27 / 2^-26) x '
        'sform/qform codes 0..5 (qform-coded affines restricted to rotations whose quaternion is rational: '
        'identity, 180 deg about an axis, 120 deg about a diagonal, each with/without reflection) x .mat '
        'contents {mat+M, M only, mat only, 4x4xN mat, none}; NIfTI-2 stream of affines float32 cannot hold; '
        'general stream: random rotations (incl. exact and near 180 deg) x '
        'zooms 1e-6..1e6 x reflection x shear x translations up to 1e7, with header qform variants; component '
        'streams for float32 rounding, quat2mat, mat2quat, shape_zoom_affine. PHASE 3b: zoom magnitudes 2^-20..2^20 '
        '(all tiny / all huge / mixed) in the exact streams and 1e-6..1e5 triples in the general ones; general-xclass: '
        '9 NIfTI flavour pairs x 35 (sform, qform) code pairs x handedness x route (header= / from_image / nib.save to '
        'the other extension) with the affine in the slot get_best_affine selects; general-xfamily: from_image / '
        'nib.save across format families; +hist: the same cases saved over earlier images (other class of the extension '
        'family, other affine, with / without .mat) on the same REAL file names. A case is non-trivial when the '
        'affine is not the identity; distinct by (class, shape, affine, header spec incl. source class and byte order, mat mode, x-flip configuration).')

CLASSES = ['N1', 'N1P', 'N2', 'AN', 'S99', 'S2', 'MGH']
NIFTI = ('N1', 'N1P', 'N2')
SPM = ('S99', 'S2')

SIG_ALLCLOSE = 'update_header:allclose-keeps-header-affine'
SIG_SPM = 'spm-mat:translation-ulp'
SIG_DEFAULT = 'update_header:allclose-keeps-default-header'
SIG_N1N2 = 'nifti1-to-nifti2:float32-quaternion-refused'
_T9 = [-7 / 9, 4 / 9, 4 / 9, 0.0, 4 / 9, -1 / 9, 8 / 9, 0.0, 4 / 9, 8 / 9, -1 / 9, 0.0]     # 180 deg about (1, 2, 2)/3

PENDING_FINDINGS = [
    {'property': 'C04', 'signature': SIG_ALLCLOSE, 'status': 'open',
     'what': 'a supplied header whose affine is np.allclose to (but different from) the image affine is kept by '
             'SpatialImage.update_header: zoom 2.00001 saved with a header holding 2.0 reloads as 2.0 '
             '(NIfTI-1, NIfTI-2, Analyze/SPM zooms, MGH)',
     'input': {'op': 'rt', 'cls': 'N2', 'shape': [2, 3, 4],
               'A': [2.00001, 0.0, 0.0, 0.0, 0.0, 2.0, 0.0, 0.0, 0.0, 0.0, 2.0, 0.0],
               'hdr': {'q': [0, None], 's': [2, [2.0, 0.0, 0.0, 0.0, 0.0, 2.0, 0.0, 0.0, 0.0, 0.0, 2.0, 0.0]]},
               'mat': 'both', 'stream': 'finding', 'exact': False, 'line': False}},
    {'property': 'C04', 'signature': SIG_SPM, 'status': 'open',
     'what': 'SPM .mat reload: the stored matrix is A·from_111 and the loader multiplies by to_111, so the '
             'translation column comes back as (t - sum(col)) + sum(col) in floating point: off by <= 4 float64 '
             'ulps of |t|+sum|col| for non-dyadic affines',
     'input': {'op': 'rt', 'cls': 'S99', 'shape': [2, 3, 4],
               'A': [0.3, 0.0, 0.0, 0.9, 0.0, 1.0, 0.0, 0.0, 0.0, 0.0, 1.0, 0.0],
               'hdr': None, 'mat': 'both', 'stream': 'finding', 'exact': False, 'line': False}},
    {'property': 'C04', 'signature': SIG_DEFAULT, 'status': 'open',
     'what': 'no header supplied: an image affine that is np.allclose to (but different from) the DEFAULT header '
             'affine for the shape is not stored at all by AnalyzeImage / Spm99/Spm2AnalyzeImage (zooms stay 1.0) and '
             'MGHImage (delta, Mdc, Pxyz_c stay at their defaults): zoom 1.0000038 reloads as 1.0',
     'input': {'op': 'rt', 'cls': 'AN', 'shape': [3, 4, 5],
               'A': [-1.0000038146972656, 0.0, 0.0, 1.0000038146972656, 0.0, 1.0, 0.0, -1.5, 0.0, 0.0, 1.0, -2.0],
               'hdr': None, 'mat': 'both', 'stream': 'finding', 'exact': True, 'line': True}},
    {'property': 'C04', 'signature': SIG_N1N2, 'status': 'open',
     'what': 'a NIfTI-1 (float32) header whose coded qform is a rotation by (nearly) 180 degrees, converted for a '
             'NIfTI-2 image (Nifti2Image(data, affine, nifti1_header), Nifti2Image.from_image(nifti1_img)): the float32 '
             'quaternion has b^2+c^2+d^2 = 1 + O(1e-8), which the NIfTI-2 threshold (3 * float64 eps) refuses: '
             "get_qform() raises ValueError('w2 should be positive') on the converted / saved / reloaded image for about "
             'half of all 180 degree rotations (and the constructor itself raises when the sform code is 0)',
     'input': {'op': 'rt', 'cls': 'N2', 'shape': [2, 3, 4], 'A': _T9,
               'hdr': {'q': [1, _T9], 's': [2, _T9], 'from': 'N1'},
               'mat': 'both', 'stream': 'finding', 'exact': False, 'line': False}},
]


def _nib():
    import logging
    import nibabel as nib
    logging.getLogger('nibabel.global').setLevel(logging.CRITICAL)   # header-check fixes are logged, not raised
    from nibabel.freesurfer.mghformat import MGHImage
    return {'N1': nib.Nifti1Image, 'N1P': nib.Nifti1Pair, 'N2': nib.Nifti2Image, 'AN': nib.AnalyzeImage,
            'S99': nib.Spm99AnalyzeImage, 'S2': nib.Spm2AnalyzeImage, 'MGH': MGHImage}


# ------------------------------------------------------------------ formatting

def fr(x):
    return str(Fr(float(x)))


def fmt_aff12(a12):
    return ','.join(fr(v) for v in a12)


def aff12_of(M):
    """4x4 (or 3x4) array -> 12 python floats, row major"""
    return [float(M[i][j]) for i in range(3) for j in range(4)]


def mat_of(a12):
    A = np.eye(4)
    A[:3, :] = np.array(a12, dtype=np.float64).reshape(3, 4)
    return A


# NIfTI-1 standard (nifti1.h) xform codes — the oracle's own table, NOT read from nibabel
STD_XFORM = {0: ('unknown', 'NIFTI_XFORM_UNKNOWN'), 1: ('scanner', 'NIFTI_XFORM_SCANNER_ANAT'),
             2: ('aligned', 'NIFTI_XFORM_ALIGNED_ANAT'), 3: ('talairach', 'NIFTI_XFORM_TALAIRACH'),
             4: ('mni', 'NIFTI_XFORM_MNI_152'), 5: ('template', 'NIFTI_XFORM_TEMPLATE_OTHER')}


def std_code(tok):
    """integer code of a code token (int or alias string) by the standard; None = not a valid code"""
    if isinstance(tok, str):
        for c, names in STD_XFORM.items():
            if tok in names:
                return c
        return None
    return int(tok) if int(tok) in STD_XFORM else None


def code_tok(rng, c, p_alias=0.35):
    """the integer code or, sometimes, one of its string aliases"""
    if c in STD_XFORM and rng.random() < p_alias:
        return rng.choice(STD_XFORM[c])
    return c


def fmt_code(tok, raw=None):
    return str(tok) + ('' if raw is None else f'!{int(raw)}')


def hdr_src(cls, h):
    """class of the supplied header object (the image's own class unless `from` says otherwise)"""
    return cls if h is None else (h.get('from') or cls)


def fmt_hdr(cls, h):
    if h is None:
        return '-'
    src = hdr_src(cls, h)
    if src != cls:
        return src + '@' + fmt_hdr(src, {k: v for k, v in h.items() if k != 'from'})
    if cls in NIFTI:
        raw = h.get('raw') or {}

        def one(t, r):
            code, a = t
            return fmt_code(code, r) + ':' + ('-' if a is None else fmt_aff12(a))
        return 'q=' + one(h['q'], raw.get('q')) + ';s=' + one(h['s'], raw.get('s'))
    if cls == 'MGH':
        return 'a=' + fmt_aff12(h['a'])
    return 'z=' + ','.join(fr(v) for v in h['z']) + ';o=' + ','.join(str(int(v)) for v in h['o'])


def mk_rt(cls, shape, a12, hdr=None, mat='both', stream='exact', exact=True, line=True, fl='TTT', flhow='sub',
          route='ctor', hist=None):
    """route: how the image that is saved comes about: 'ctor' = `Klass(data, A, header)`; 'from_image' = an image of the
    header's class (`from`) holding A is converted with `Klass.from_image`; 'save_ext' = that image is handed to
    `nib.save` under the file extension of `cls` (real files).  hist: earlier images `[cls0, shape0, A0]` saved to the
    SAME file names before the image under test (real files) — the model line does not mention it: history must
    not matter.  fl: header.default_x_flip (T/F) at construction, at save, on the loading class; flhow: how a non-default
    flag is brought about ('sub' = header/image subclasses + instance attribute, 'patch' = class attribute)"""
    a12 = [float(v) for v in a12]
    if cls == 'MGH':
        fl = 'TTT'
    data = {'op': 'rt', 'cls': cls, 'shape': [int(s) for s in shape], 'A': a12, 'hdr': hdr, 'mat': mat,
            'stream': stream, 'exact': bool(exact), 'line': bool(line), 'fl': fl, 'flhow': flhow}
    if route != 'ctor':
        data['route'] = route
    if hist:
        data['hist'] = [[c0, [int(v) for v in s0], [float(v) for v in a0]] for c0, s0, a0 in hist]
    ln = None
    # the NIfTI flows are modelled for the default flag only; conversion routes are oracle-only
    if line and route == 'ctor' and not (cls in NIFTI and fl != 'TTT'):
        ln = f'C04 rt {cls} ' + ','.join(str(int(s)) for s in shape) + ' ' + fmt_aff12(a12) + ' ' + \
             fmt_hdr(cls, hdr) + ' ' + mat + ' ' + fl
    ident = a12 == [1.0, 0, 0, 0, 0, 1.0, 0, 0, 0, 0, 1.0, 0]
    end = '' if hdr is None else hdr.get('end', '')
    key = None if ident else (cls, tuple(shape), tuple(a12), fmt_hdr(cls, hdr) + end, mat, fl, flhow, route,
                              repr(data.get('hist')))
    return Case(ln, data, key, stream)


def mk_comp(op, args, stream, line=True):
    data = {'op': op, 'args': args, 'stream': stream, 'line': bool(line)}
    ln = None
    if line:
        if op == 'r32':
            ln = 'C04 r32 ' + fr(args[0])
        elif op in ('q2m', 'm2q'):
            ln = f'C04 {op} ' + ','.join(fr(v) for v in args)
        elif op == 'fp':
            ln = f'C04 fp {args[0]} ' + ','.join(fr(v) for v in args[1])
        elif op in ('hq', 'hs'):
            cls, a12, code = args
            ln = f'C04 {op} {cls} ' + fmt_aff12(a12) + ' ' + fmt_code(code)
        elif op == 'szaff':
            shape, zooms, flip = args
            ln = 'C04 szaff ' + (','.join(str(int(s)) for s in shape) or '-') + ' ' + \
                 (','.join(fr(z) for z in zooms) or '-') + ' ' + ('1' if flip else '0')
    return Case(ln, data, (op, repr(args)), stream)


def case_from_data(d):
    if d['op'] == 'rt':
        return mk_rt(d['cls'], d['shape'], d['A'], d.get('hdr'), d.get('mat', 'both'), d.get('stream', 'exact'),
                     d.get('exact', False), d.get('line', False), d.get('fl', 'TTT'), d.get('flhow', 'sub'),
                     d.get('route', 'ctor'), d.get('hist'))
    return mk_comp(d['op'], d['args'], d.get('stream', d['op']), d.get('line', True))


# ------------------------------------------------------------------ implementation side

_SUB = {}


def flip_class(cls, flip):
    """the image class whose header class has default_x_flip = flip (a subclass pair when flip is False)"""
    K = _nib()[cls]
    if flip or cls == 'MGH':
        return K
    if cls not in _SUB:
        H = type('Neuro' + K.header_class.__name__, (K.header_class,), {'default_x_flip': False})
        _SUB[cls] = type('Neuro' + K.__name__, (K,), {'header_class': H})
    return _SUB[cls]


def build_header(cls, shape, h, K=None):
    """the header object handed to the image constructor (None = no header); `from` = class it is made on,
    `end` = its byte order"""
    if h is None:
        return None
    src = hdr_src(cls, h)
    if K is None or src != cls:
        K = _nib()[src]
    cls = src
    if cls == 'MGH':
        return K(np.zeros(shape, dtype=np.int16), mat_of(h['a'])).header
    hdr = K.header_class(endianness=h['end']) if h.get('end') else K.header_class()
    hdr.set_data_shape(shape)
    hdr.set_data_dtype(np.int16)
    if cls in NIFTI:
        qc, qa = h['q']
        sc, sa = h['s']
        hdr.set_qform(None if qa is None else mat_of(qa), code=qc)
        hdr.set_sform(None if sa is None else mat_of(sa), code=sc)
        raw = h.get('raw') or {}
        if raw.get('q') is not None:      # a code written behind the API's back (foreign / damaged file)
            hdr['qform_code'] = int(raw['q'])
        if raw.get('s') is not None:
            hdr['sform_code'] = int(raw['s'])
        return hdr
    z = list(h['z'])[:min(len(shape), 3)]
    hdr.set_zooms(tuple(z) + tuple(1.0 for _ in range(len(shape) - len(z))))
    if cls in SPM:
        hdr['origin'][:3] = [int(v) for v in h['o']]
    return hdr


class _patched_flip:
    """`HeaderClass.default_x_flip = False` as a class attribute for the duration of one round trip"""

    def __init__(self, H, on):
        self.H, self.on = H, on

    def __enter__(self):
        if self.on:
            self.had = 'default_x_flip' in self.H.__dict__
            self.old = self.H.__dict__.get('default_x_flip')
            self.H.default_x_flip = False

    def __exit__(self, *a):
        if self.on:
            if self.had:
                self.H.default_x_flip = self.old
            else:
                del self.H.default_x_flip


def flips_of(d):
    return tuple(c == 'T' for c in d.get('fl', 'TTT'))


FILE_EXT = {'N1': '.nii', 'N2': '.nii', 'N1P': '.img', 'AN': '.img', 'S99': '.img', 'S2': '.img', 'MGH': '.mgh'}


def _edit_mat(mat, raw):
    """the `.mat` file contents for the non-default `.mat` modes, from what nibabel wrote (`raw` bytes)"""
    if mat == 'none':
        return b''
    import scipy.io as sio
    mats = sio.loadmat(io.BytesIO(raw))
    out = io.BytesIO()
    if mat == 'monly':
        sio.savemat(out, {'M': mats['M']}, format='4')
    elif mat == 'matonly':
        sio.savemat(out, {'mat': mats['mat']}, format='4')
    elif mat == 'mat3d':
        stack = np.stack([mats['mat'], mats['mat'] * 2.0 + 1.0], axis=2)
        sio.savemat(out, {'mat': stack, 'M': mats['M']}, format='5')
    else:
        raise ValueError(mat)
    return out.getvalue()


def roundtrip(cls, shape, A, hspec, mat, fl=(True, True, True), flhow='sub', ex=None, route='ctor', hist=None):
    import nibabel as nib
    fi, fs, fload = fl
    patch = flhow == 'patch' and fl == (False, False, False) and cls != 'MGH'
    Ki = flip_class(cls, fi or patch)
    Kl = flip_class(cls, fload or patch)
    with _patched_flip(_nib()[cls].header_class, patch):
        if route == 'ctor':
            hdr = build_header(cls, shape, hspec, Ki)
            img0 = None
        else:
            # an image of the header's own class holding A, converted afterwards
            src = hdr_src(cls, hspec)
            own = None if hspec is None else {k: v for k, v in hspec.items() if k != 'from'}
            img0 = _nib()[src](np.zeros(shape, dtype=np.int16), A, build_header(src, shape, own))
            hdr = img0.header
        if hdr is not None and ex is not None:
            # the supplied header as the image class sees it (converted when of another class), and its affine
            # under the flag in force at construction / save / load
            seen = Ki.header_class.from_header(hdr)
            if seen.get_data_shape() != tuple(shape):
                seen.set_data_shape(shape)
            ex['hdr_best_f'] = {}
            for f in (True, False):
                if cls != 'MGH':
                    seen.default_x_flip = f
                ex['hdr_best_f'][f] = np.array(seen.get_best_affine(), dtype=np.float64)
            ex['hdr_best'] = ex['hdr_best_f'][fi]
        if route == 'ctor':
            img = Ki(np.zeros(shape, dtype=np.int16), A, hdr)
        elif route == 'from_image':
            img = Ki.from_image(img0)
        else:
            img = img0
        if fs != fi:
            img.header.default_x_flip = fs          # instance attribute set between construction and save
        if hist or route == 'save_ext':
            # real files: earlier images saved to the same names, then the image under test
            import tempfile
            with tempfile.TemporaryDirectory(prefix='c04_') as td:
                path = os.path.join(td, 'x' + FILE_EXT[cls])
                for c0, s0, a0 in (hist or []):
                    nib.save(_nib()[c0](np.zeros(tuple(s0), dtype=np.int16), mat_of(a0)), path)
                if route == 'save_ext':
                    nib.save(img, path)
                else:
                    img.to_filename(path)
                if cls in SPM and mat != 'both':
                    mp = os.path.join(td, 'x.mat')
                    raw = open(mp, 'rb').read()
                    open(mp, 'wb').write(_edit_mat(mat, raw))
                out = Kl.from_filename(path)
                out.affine, out.header      # both are read eagerly; the data proxy is not used
                return out
        fm = Ki.make_file_map()
        for k in fm:
            fm[k].fileobj = io.BytesIO()
        img.to_file_map(fm)
        if cls in SPM and mat != 'both':
            fm['mat'].fileobj.seek(0)
            fm['mat'].fileobj = io.BytesIO(_edit_mat(mat, fm['mat'].fileobj.read()))
        for k in fm:
            fm[k].fileobj.seek(0)
        return Kl.from_file_map(fm)


def show_arr(a):
    return ','.join(fr(v) for v in np.asarray(a, dtype=np.float64).ravel())


def show_aff(M):
    return ','.join(fr(M[i, j]) for i in range(3) for j in range(4))


def canon_sign(q):
    for v in q:
        if v != 0:
            return [-x for x in q] if v < 0 else list(q)
    return list(q)


def impl(case):
    d = case.data
    warnings.simplefilter('ignore')
    if d['op'] == 'rt':
        return impl_rt(case)
    from nibabel import quaternions as nq
    from nibabel.volumeutils import shape_zoom_affine
    a = d['args']
    if d['op'] == 'r32':
        return fr(np.float32(np.float64(a[0])))
    if d['op'] == 'q2m':
        M = nq.quat2mat([float(v) for v in a])
        case.extra = {'M': M}
        return show_arr(M)
    if d['op'] == 'm2q':
        M = np.array(a, dtype=np.float64).reshape(3, 3)
        q = nq.mat2quat(M)
        case.extra = {'q': q, 'M2': nq.quat2mat(q)}
        q32 = canon_sign([float(np.float32(v)) for v in q])
        return ','.join(fr(v) for v in q32) + ' ' + show_arr(nq.quat2mat(q32))
    if d['op'] == 'fp':
        h = _nib()[a[0]].header_class()
        h['quatern_b'], h['quatern_c'], h['quatern_d'] = a[1]
        try:
            q = h.get_qform_quaternion()
        except ValueError:
            return 'ERR:ValueError'
        return 'w0' if q[0] == 0 else 'wpos'
    if d['op'] in ('hq', 'hs'):
        cls, a12, code = a
        h = _nib()[cls].header_class()
        A = mat_of(a12)
        ex = {}
        case.extra = ex
        try:
            if d['op'] == 'hs':
                h.set_sform(A, code=code)
                s_, sc = h.get_sform(coded=True)
                ex.update(s=s_, sc=sc)
                return f's={sc}:' + ('None' if s_ is None else show_aff(s_))
            h.set_qform(A, code=code)
            q, qc = h.get_qform(coded=True)
            ex.update(q=h.get_qform(), qc=qc,
                      qfields={'bcd': [h['quatern_b'].item(), h['quatern_c'].item(), h['quatern_d'].item()],
                               'pixdim': [v.item() for v in h['pixdim'][:4]],
                               'qoff': [h['qoffset_x'].item(), h['qoffset_y'].item(), h['qoffset_z'].item()]})
            return f'q={qc}:' + ('None' if q is None else show_aff(q))
        except Exception as e:
            ex['err'] = repr(e)
            return errname(e)
    if d['op'] == 'szaff':
        shape, zooms, flip = a
        try:
            return show_aff(shape_zoom_affine(shape, zooms, bool(flip)))
        except ValueError:
            return 'ERR:ValueError'
    raise ValueError(d['op'])


def impl_rt(case):
    d = case.data
    cls, shape, A = d['cls'], tuple(d['shape']), mat_of(d['A'])
    ex = {}
    case.extra = ex
    hdr = d['hdr']
    try:
        with warnings.catch_warnings():
            warnings.simplefilter('ignore')
            img = roundtrip(cls, shape, A, hdr, d['mat'], flips_of(d), d.get('flhow', 'sub'), ex,
                            d.get('route', 'ctor'), d.get('hist'))
    except Exception as e:
        ex['err'] = repr(e)
        return errname(e)
    L = np.array(img.affine, dtype=np.float64)
    ex['aff'] = L
    h = img.header
    if cls not in NIFTI and (hdr is None or (cls == 'MGH' and hdr_src(cls, hdr) != 'MGH')):
        dh = _nib()[cls].header_class()
        dh.set_data_shape(shape)
        ex['default_aff_f'] = {}
        for f in (True, False):
            if cls != 'MGH':
                dh.default_x_flip = f
            ex['default_aff_f'][f] = np.array(dh.get_best_affine(), dtype=np.float64)
        hh = h.copy()
        if cls != 'MGH':
            hh.default_x_flip = flips_of(d)[2]      # (a class-attribute patch is no longer in force here)
        ex['loaded_hdr_aff'] = np.array(hh.get_best_affine(), dtype=np.float64)
    out = 'aff=' + show_aff(L)
    if cls in NIFTI:
        try:
            s, sc = h.get_sform(coded=True)
            q, qc = h.get_qform(coded=True)
        except Exception as e:
            ex['err'] = repr(e)
            return errname(e)
        ex.update(s=s, sc=sc, q=q, qc=qc,
                  qfields={'bcd': [h['quatern_b'].item(), h['quatern_c'].item(), h['quatern_d'].item()],
                           'pixdim': [v.item() for v in h['pixdim'][:4]],
                           'qoff': [h['qoffset_x'].item(), h['qoffset_y'].item(), h['qoffset_z'].item()]})
        out += f' s={sc}:' + ('None' if s is None else show_aff(s))
        out += f' q={qc}:' + ('None' if q is None else show_aff(q))
    elif cls == 'MGH':
        ex.update(delta=np.array(h['delta'], dtype=np.float64), mdc=np.array(h['Mdc'], dtype=np.float64),
                  c=np.array(h['Pxyz_c'], dtype=np.float64))
        out += ' delta=' + show_arr(h['delta']) + ' mdc=' + show_arr(h['Mdc']) + ' c=' + show_arr(h['Pxyz_c'])
    else:
        ex['z'] = np.array(h['pixdim'][1:4], dtype=np.float64)
        if cls in SPM:
            ex['origin'] = [int(v) for v in h['origin'][:3]]
        out += ' z=' + show_arr(h['pixdim'][1:4])
    return out


# ------------------------------------------------------------------ oracle (independent reference)

def F(x):
    return Fr(float(x))


def ulp32(x):
    return float(np.spacing(np.float32(abs(float(x)))))


def fsqrt(x, digits=40):
    """sqrt of a non-negative Fraction as a Fraction, to ~`digits` decimal digits"""
    if x <= 0:
        return Fr(0)
    sc = 10 ** (2 * digits)
    return Fr(math.isqrt(x.numerator * sc // x.denominator), 10 ** digits)


def ref_quat2rot(w, x, y, z):
    """rotation of the unit quaternion (w,x,y,z)/|q| over Fractions — textbook formula, written
    independently of nibabel's (no shared sub-expressions)"""
    n = w * w + x * x + y * y + z * z
    return [[(w * w + x * x - y * y - z * z) / n, 2 * (x * y - w * z) / n, 2 * (x * z + w * y) / n],
            [2 * (x * y + w * z) / n, (w * w - x * x + y * y - z * z) / n, 2 * (y * z - w * x) / n],
            [2 * (x * z - w * y) / n, 2 * (y * z + w * x) / n, (w * w - x * x - y * y + z * z) / n]]


def ref_rot2quat(R):
    """unit quaternion with w >= 0 of a (near-)rotation matrix given as 3x3 Fractions (Shepperd's method,
    independent of the eigenvector route the code uses)"""
    tr = R[0][0] + R[1][1] + R[2][2]
    cands = [tr, R[0][0], R[1][1], R[2][2]]
    i = max(range(4), key=lambda k: cands[k])
    if i == 0:
        w = fsqrt(1 + tr) / 2
        q = [w, (R[2][1] - R[1][2]) / (4 * w), (R[0][2] - R[2][0]) / (4 * w), (R[1][0] - R[0][1]) / (4 * w)]
    elif i == 1:
        x = fsqrt(1 + R[0][0] - R[1][1] - R[2][2]) / 2
        q = [(R[2][1] - R[1][2]) / (4 * x), x, (R[0][1] + R[1][0]) / (4 * x), (R[0][2] + R[2][0]) / (4 * x)]
    elif i == 2:
        y = fsqrt(1 + R[1][1] - R[0][0] - R[2][2]) / 2
        q = [(R[0][2] - R[2][0]) / (4 * y), (R[0][1] + R[1][0]) / (4 * y), y, (R[1][2] + R[2][1]) / (4 * y)]
    else:
        z = fsqrt(1 + R[2][2] - R[0][0] - R[1][1]) / 2
        q = [(R[1][0] - R[0][1]) / (4 * z), (R[0][2] + R[2][0]) / (4 * z), (R[1][2] + R[2][1]) / (4 * z), z]
    if q[0] < 0:
        q = [-v for v in q]
    return q


def det3(R):
    return (R[0][0] * (R[1][1] * R[2][2] - R[1][2] * R[2][1]) - R[0][1] * (R[1][0] * R[2][2] - R[1][2] * R[2][0])
            + R[0][2] * (R[1][0] * R[2][1] - R[1][1] * R[2][0]))


def col_norms(A):
    return [fsqrt(sum(F(A[i, j]) ** 2 for i in range(3))) for j in range(3)]


def is_rot_zoom(A, tol=1e-6):
    """columns mutually orthogonal (so A = R·diag(z) with R orthogonal)"""
    M = A[:3, :3]
    n = np.sqrt((M * M).sum(axis=0))
    if np.any(n == 0):
        return False
    G = (M / n).T @ (M / n)
    return bool(np.all(np.abs(G - np.eye(3)) < tol))


def store_round(cls, A):
    if cls == 'N2' or cls in SPM:
        return np.array(A, dtype=np.float64)
    return np.array(A, dtype=np.float64).astype(np.float32).astype(np.float64)


# the loader recovers w = sqrt(1 - b^2 - c^2 - d^2) in long double: absolute error ~1e-19/(2w), and w may be as
# small as sqrt(3 eps) before it is declared 0, so rotation entries are good to ~1e-11 near 180 degrees (NIfTI-2)
QTOL = 5e-11


def check_qform_fields(cls, A, ex, pcls=None):
    """stored quatern/pixdim/qoffset within 2 storage ulps of the ideal decomposition of A, and the affine
    rebuilt by the loader equal to the exact evaluation of the stored fields.  `pcls`: the class whose field
    precision the values went through (a NIfTI-1 header converted for a NIfTI-2 image holds float32 values)"""
    pcls = pcls or cls
    prec = (lambda v: float(np.spacing(abs(float(v))))) if pcls == 'N2' else ulp32
    qf = ex['qfields']
    zs = col_norms(A)
    R = [[F(A[i, j]) / zs[j] for j in range(3)] for i in range(3)]
    d = det3(R)
    qfac = 1 if d > 0 else -1
    if qfac < 0:
        for i in range(3):
            R[i][2] = -R[i][2]
    q = ref_rot2quat(R)
    # quaternion sign is free when w == 0: compare up to a global sign
    st = [F(v) for v in qf['bcd']]
    tolq = 2 * prec(1.0) + 1e-14
    dpos = max(abs(float(st[k] - q[k + 1])) for k in range(3))
    dneg = max(abs(float(st[k] + q[k + 1])) for k in range(3))
    wref = float(q[0])
    dq = dpos if wref > 4 * math.sqrt(tolq) else min(dpos, dneg)
    # near w = 0 the (b,c,d) part of ±q is what is stored; error of eigh ~1e-16 plus storage rounding
    if dq > tolq:
        return f'stored quatern_b,c,d {qf["bcd"]} differ from the ideal {[float(v) for v in q[1:]]} by {dq:.3g} (> {tolq:.3g})'
    if F(qf['pixdim'][0]) != qfac:
        return f'stored qfac {qf["pixdim"][0]} but det sign is {qfac}'
    for k in range(3):
        if abs(float(F(qf['pixdim'][k + 1]) - zs[k])) > 2 * prec(float(zs[k])) + 1e-15 * float(zs[k]):
            return f'stored pixdim[{k + 1}]={qf["pixdim"][k + 1]!r} differs from column norm {float(zs[k])!r} by more than 2 ulps'
        if F(qf['qoff'][k]) != F(store_round(pcls, A)[k, 3]):
            return f'stored qoffset[{k}]={qf["qoff"][k]!r} is not the rounded translation {A[k, 3]!r}'
    # exact evaluation of the stored fields
    b, c, dd = st
    w2 = 1 - (b * b + c * c + dd * dd)
    thr = F(3 * np.finfo(np.float64 if cls == 'N2' else np.float32).eps)
    w = Fr(0) if abs(w2) < thr else fsqrt(w2)
    if w2 <= -thr:
        return f'stored quaternion has |bcd|^2 = {float(1 - w2)!r} > 1'
    Rq = ref_quat2rot(w, b, c, dd)
    pz = [F(v) for v in qf['pixdim'][1:4]]
    pz[2] = pz[2] * F(qf['pixdim'][0])
    Q = ex['q']
    for i in range(3):
        for j in range(3):
            # rotation entries are O(1) with absolute error QTOL; column j carries the zoom pz[j]
            if abs(float(F(Q[i, j]) - Rq[i][j] * pz[j])) > QTOL * abs(float(pz[j])):
                return (f'get_qform()[{i},{j}]={Q[i, j]!r} is not the value {float(Rq[i][j] * pz[j])!r} implied by '
                        f'the stored quaternion/pixdim')
        if F(Q[i, 3]) != F(qf['qoff'][i]):
            return f'get_qform()[{i},3]={Q[i, 3]!r} is not the stored qoffset {qf["qoff"][i]!r}'
    return None


def check_mgh_fields(A, shape, ex):
    zs = col_norms(A)
    sc_d = max(float(z) for z in zs)
    for k in range(3):
        if abs(float(F(ex['delta'][k]) - zs[k])) > 2 * ulp32(float(zs[k])) + 1e-15 * sc_d:
            return f'stored delta[{k}]={ex["delta"][k]!r} differs from voxel size {float(zs[k])!r} by more than 2 float32 ulps'
    for i in range(3):
        for j in range(3):
            ideal = F(A[i, j]) / zs[j]
            # hdr['Mdc'] holds Mdc.T : stored[j][i] is the i-th component of direction cosine j
            if abs(float(F(ex['mdc'][j, i]) - ideal)) > 2 * ulp32(1.0):
                return (f'stored Mdc[{j},{i}]={ex["mdc"][j, i]!r} differs from direction cosine {float(ideal)!r} '
                        f'by more than 2 float32 ulps of 1')
    for i in range(3):
        terms = [F(A[i, j]) * Fr(int(shape[j]), 2) for j in range(3)] + [F(A[i, 3])]
        ideal = sum(terms)
        mag = sum(abs(float(t)) for t in terms)
        if abs(float(F(ex['c'][i]) - ideal)) > 2 * ulp32(mag):
            return f'stored Pxyz_c[{i}]={ex["c"][i]!r} differs from c_ras {float(ideal)!r} by more than 2 float32 ulps'
    # loader: exact evaluation of the stored fields; its own arithmetic is float32, so single precision norm-wise
    L = ex['aff']
    for i in range(3):
        row = [F(ex['mdc'][j, i]) * F(ex['delta'][j]) for j in range(3)]
        t = F(ex['c'][i]) - sum(row[j] * Fr(int(shape[j]), 2) for j in range(3))
        mag = sum(abs(float(row[j])) * shape[j] / 2 for j in range(3)) + abs(float(ex['c'][i]))
        rs = max(abs(float(v)) for v in row)
        for j in range(3):
            if abs(float(F(L[i, j]) - row[j])) > 2 * ulp32(rs):
                return f'loaded affine[{i},{j}]={L[i, j]!r} is not Mdc*delta = {float(row[j])!r} of the stored fields'
        if abs(float(F(L[i, 3]) - t)) > 4 * ulp32(mag):
            return f'loaded affine[{i},3]={L[i, 3]!r} is not Pxyz_c - MdcD·dims/2 = {float(t)!r} of the stored fields'
    return None


def spm_ulp_class(A, L):
    """True when L differs from A only in the translation column and by <= 4 float64 ulps of |t|+sum|col|"""
    if not np.array_equal(A[:3, :3], L[:3, :3]):
        return False
    for i in range(3):
        bound = 4 * float(np.spacing(abs(A[i, 3]) + np.abs(A[i, :3]).sum()))
        if abs(L[i, 3] - A[i, 3]) > bound:
            return False
    return True


def spec_differs(d):
    """the affine the user put into the supplied header (the one get_best_affine selects) is, as an input,
    different from the image affine — so a difference on reload is not just storage precision"""
    h, cls = d['hdr'], d['cls']
    if h is None:
        return False
    if hdr_src(cls, h) != cls:
        return True      # a header of another class: what it holds after conversion is compared by the caller
    if cls in NIFTI:
        (qc, qa), (sc, sa) = h['q'], h['s']
        raw = h.get('raw') or {}
        qc = raw['q'] if raw.get('q') is not None else std_code(qc)
        sc = raw['s'] if raw.get('s') is not None else std_code(sc)
        if sc != 0:
            return sa is not None and list(sa) != list(d['A'])
        if qc != 0:
            return qa is not None and list(qa) != list(d['A'])
        return True
    if cls == 'MGH':
        return list(h['a']) != list(d['A'])
    return True


def tag(sig, msg):
    return f'sig={sig} :: {msg}'


def oracle_rt(case, out):
    d = case.data
    cls, shape, A = d['cls'], tuple(d['shape']), mat_of(d['A'])
    ex = case.extra or {}
    bad_codes, raw_invalid = [], False
    src = hdr_src(cls, d['hdr'])
    fi, fs, fload = flips_of(d)
    nhdr = d['hdr'] if (d['hdr'] is not None and src in NIFTI) else None      # a NIfTI-type header was supplied
    if nhdr is not None:
        bad_codes = [t[0] for t in (nhdr['q'], nhdr['s']) if std_code(t[0]) is None]
        raw_invalid = any(v is not None and v not in STD_XFORM for v in (nhdr.get('raw') or {}).values())
    if out.startswith('ERR'):
        err = ex.get('err', '')
        sig = 'raises'
        if bad_codes and out == 'ERR:KeyError':
            return None          # a code outside the standard table is refused by set_sform / set_qform
        if out == 'ERR:ValueError' and 'w2 should be positive' in err and cls == 'N2' and src in ('N1', 'N1P') \
                and nhdr is not None and nhdr['q'][1] is not None and std_code(nhdr['q'][0]):
            # narrow: the float32 quaternion of the NIfTI-1 header really is a hair longer than 1
            try:
                h1 = build_header(src, shape, {k: v for k, v in nhdr.items() if k != 'from'})
                n2 = sum(F(h1[k].item()) ** 2 for k in ('quatern_b', 'quatern_c', 'quatern_d'))
                if 0 < n2 - 1 < Fr(1, 10 ** 6):
                    sig = SIG_N1N2
            except Exception:
                pass
        return tag(sig, f'{cls}: save/load of a non-singular affine raised {out} ({err[:120]})')
    if bad_codes:
        return tag('xform-code:invalid-accepted', f'{cls}: header accepted the invalid xform code(s) {bad_codes}')
    if raw_invalid:
        return None              # damaged code field: what the loader makes of it is compared with the model only
    L = ex['aff']
    HB = ex.get('hdr_best')
    s_spec = nhdr['s'] if (cls in NIFTI and nhdr is not None) else None
    s_holds_A = s_spec is not None and std_code(s_spec[0]) != 0 and s_spec[1] is not None \
        and list(s_spec[1]) == list(d['A']) and (d['hdr'].get('raw') or {}).get('s') is None
    if cls in NIFTI and nhdr is not None and HB is not None and (np.array_equal(HB, A) or s_holds_A):
        # the supplied header already holds the image affine: it is kept, and every VALID code the user set
        # (0..5 of the NIfTI-1 standard, by number or by name) must come back from the file
        raw = d['hdr'].get('raw') or {}
        want_q = raw['q'] if raw.get('q') is not None else std_code(d['hdr']['q'][0])
        want_s = raw['s'] if raw.get('s') is not None else std_code(d['hdr']['s'][0])
        if (ex['sc'], ex['qc']) != (want_s, want_q):
            return tag('xform-code:not-preserved',
                       f'{cls}: header saved with sform/qform codes {want_s}/{want_q} ({d["hdr"]["s"][0]!r}/'
                       f'{d["hdr"]["q"][0]!r}) reloads with {ex["sc"]}/{ex["qc"]}')
        # ... and so must the rotation + zoom (+ reflection) the user wrote to the qform under a non-zero code: the
        # header is kept, whatever route (own class, header of / conversion from another NIfTI flavour) it took
        qa = d['hdr']['q'][1]
        # (a conversion resets the zooms of axes the data does not have: only volumes are compared then)
        if want_q and qa is not None and is_rot_zoom(mat_of(qa)) and (len(shape) >= 3 or src == cls):
            pcls = 'N2' if (src == 'N2' and cls == 'N2') else 'N1'
            bad = check_qform_fields(cls, mat_of(qa), ex, pcls)
            if bad:
                return tag('nifti:kept-qform', f'{cls} (header of {src}, route {d.get("route", "ctor")}): qform written '
                                               f'with code {want_q} does not read back: {bad}')

    def classify(msg, default):
        # finding (i): a header was supplied whose affine (as the image class sees it, under the x-flip flag in
        # force at construction and at save) is allclose-but-not-equal to the image affine and the reloaded
        # affine equals the header's (under the loading flag)
        HF = ex.get('hdr_best_f')
        if d['hdr'] is not None and HF is not None and spec_differs(d) and np.allclose(A, HF[fi]) \
                and np.allclose(A, HF[fs]) and not np.array_equal(A, HF[fi]) and np.array_equal(L, HF[fload]):
            return tag(SIG_ALLCLOSE, msg + ' [header affine kept: allclose to, but different from, the image affine]')
        # variant without a supplied header: the class's DEFAULT header affine for this shape is allclose to, but
        # different from, the image affine, and is what the file holds
        DF = ex.get('default_aff_f')
        if cls not in NIFTI and DF is not None and np.allclose(A, DF[fi]) and np.allclose(A, DF[fs]) \
                and not np.array_equal(A, DF[fi]) and np.array_equal(ex.get('loaded_hdr_aff'), DF[fload]):
            return tag(SIG_DEFAULT, msg + ' [default header kept: its affine is allclose to, but different from, '
                                          'the image affine]')
        return tag(default, msg)

    want = store_round(cls, A)
    if cls in NIFTI:
        sc, qc = ex['sc'], ex['qc']
        if sc != 0:
            if not np.array_equal(ex['s'], L):
                return tag('nifti:priority', f'{cls}: sform code {sc} != 0 but loaded affine is not the sform')
            if not np.array_equal(L, want):
                return classify(f'{cls}: reloaded affine (from sform) {aff12_of(L)} != '
                                f'{"float32-rounded " if cls != "N2" else ""}input {aff12_of(want)}', 'nifti:sform-value')
            return None
        if qc != 0:
            if not np.array_equal(ex['q'], L):
                return tag('nifti:priority', f'{cls}: sform code 0, qform code {qc} but loaded affine is not the qform')
            if np.array_equal(L, want):
                return None
            bad = check_qform_fields(cls, A, ex) if is_rot_zoom(A) else \
                f'affine with shears was stored in the qform only; reloaded {aff12_of(L)}'
            return classify(f'{cls}: qform: {bad}', 'nifti:qform-precision') if bad else None
        # both codes 0: shape/zoom fallback is all the file holds
        if not np.array_equal(L, want):
            return classify(f'{cls}: both codes 0; reloaded fallback affine {aff12_of(L)} != input {aff12_of(want)}',
                            'nifti:fallback-value')
        return None
    if cls in SPM and d['mat'] != 'none':
        W = A
        if d['mat'] == 'monly' and fs != fload:
            # a file with 'M' only ("does not include flips") written under one x-flip convention and read under
            # the other: the x row comes back negated — the one configuration that is not an identity
            W = A.copy()
            W[0, :] = -W[0, :]
        if np.array_equal(L, W):
            return None
        if not d.get('exact') and spm_ulp_class(W, L):
            return tag(SIG_SPM, f'{cls}+mat: reloaded translation {[float(v) for v in L[:3, 3]]} != input '
                                f'{[float(v) for v in W[:3, 3]]} (within 4 ulps of |t|+sum|col|)')
        return tag('spm-mat:value', f'{cls}+mat ({d["mat"]}, default_x_flip {d.get("fl", "TTT")}): reloaded affine '
                                    f'{aff12_of(L)} != input {aff12_of(W)}')
    if cls == 'MGH':
        bad = check_mgh_fields(A, shape, ex)
        return classify(f'MGH: {bad}', 'mgh:precision') if bad else None
    # plain Analyze, or SPM without .mat: voxel sizes only
    zs = col_norms(A)
    nset = min(len(shape), 3)
    for k in range(nset):
        if abs(float(F(ex['z'][k]) - zs[k])) > ulp32(float(zs[k])) * 1.0000001:
            return classify(f'{cls}: reloaded zoom[{k}]={ex["z"][k]!r} is not the float32-rounded column norm '
                            f'{float(zs[k])!r}', 'analyze:zooms')
    # loaded affine must be the documented fallback of the LOADED zooms: diag(z) with the x zoom negated iff the
    # loading header's default_x_flip, voxel (n-1)/2 — or the SPM origin (1-based) when it is set and inside
    # (-n, 2n) — at the world origin
    zl = [F(v) for v in ex['z']]
    if fload:
        zl[0] = -zl[0]
    dims = [int(shape[k]) if k < len(shape) else 1 for k in range(3)]
    org = [Fr(n - 1, 2) for n in dims]
    o = ex.get('origin')
    if cls in SPM and o is not None and any(o) and all(o[k] > -dims[k] for k in range(3)) \
            and all(o[k] < 2 * dims[k] for k in range(3)):
        org = [Fr(int(v) - 1) for v in o]
    for i in range(3):
        for j in range(4):
            exp = zl[i] if j == i else (-org[i] * zl[i] if j == 3 else Fr(0))
            if F(L[i, j]) != exp:
                return tag('analyze:fallback-affine',
                           f'{cls} (default_x_flip {d.get("fl", "TTT")}): loaded affine[{i},{j}]={L[i, j]!r} is not the '
                           f'fallback {float(exp)!r} of the loaded zooms {[float(v) for v in ex["z"]]} / origin {o}')
    return None


def oracle(case, out):
    d = case.data
    if d['op'] == 'rt':
        return oracle_rt(case, out)
    a = d['args']
    ex = case.extra or {}
    if d['op'] == 'r32':
        # the contract the forward-error theorems assume of the storage rounding (L.RelRnd 2^-24), on float32's
        # normal range
        x = F(a[0])
        if 2.0 ** -126 <= abs(a[0]) < 2.0 ** 127 and abs(F(np.float32(np.float64(a[0]))) - x) > abs(x) / 2 ** 24:
            return tag('r32-contract', f'float32({a[0]!r}) is further than 2^-24 relative from its argument')
        return None
    if d['op'] == 'q2m':
        w, x, y, z = [F(v) for v in a]
        n = w * w + x * x + y * y + z * z
        M = ex['M']
        if n < F(np.finfo(np.float64).eps):
            return None if np.array_equal(M, np.eye(3)) else tag('quat2mat', f'quat2mat({a}) of a ~zero quaternion is not eye(3)')
        R = ref_quat2rot(w, x, y, z)
        err = max(abs(float(F(M[i, j]) - R[i][j])) for i in range(3) for j in range(3))
        if err > 1e-14:
            return tag('quat2mat', f'quat2mat({a}) differs from the rotation of q/|q| by {err:.3g}')
        return None
    if d['op'] == 'm2q':
        M = np.array(a, dtype=np.float64).reshape(3, 3)
        err = float(np.abs(ex['M2'] - M).max())
        if err > 1e-13:
            return tag('mat2quat', f'quat2mat(mat2quat(M)) differs from the rotation M={a} by {err:.3g}')
        if ex['q'][0] < 0:
            return tag('mat2quat', f'mat2quat returned negative w for M={a}')
        return None
    if d['op'] == 'fp':
        n2 = sum(F(v) ** 2 for v in a[1])
        if n2 <= 1 and out.startswith('ERR'):
            return tag('fillpositive', f'{a[0]}: quaternion (b,c,d)={a[1]} with b^2+c^2+d^2 <= 1 is refused')
        return None
    if d['op'] in ('hq', 'hs'):
        cls, a12, code = a
        A = mat_of(a12)
        if std_code(code) is None:
            return None if out == 'ERR:KeyError' else \
                tag('xform-code:invalid-accepted', f'{cls} header: invalid xform code {code!r} accepted')
        code = std_code(code)
        if out.startswith('ERR'):
            return tag('header:raises', f'{cls} header: set_{"q" if d["op"] == "hq" else "s"}form/get of a '
                                        f'non-singular affine raised {out} ({ex.get("err", "")[:120]})')
        if d['op'] == 'hs':
            want = store_round(cls, A)
            if ex['sc'] != int(code) or (int(code) != 0 and not np.array_equal(ex['s'], want)):
                return tag('header:sform', f'{cls} header: get_sform after set_sform({a12}, {code}) gives code '
                                           f'{ex["sc"]} / {None if ex["s"] is None else aff12_of(ex["s"])}')
            return None
        if ex['qc'] != int(code):
            return tag('header:qform-code', f'{cls} header: qform code {ex["qc"]} after set_qform(code={code})')
        if not is_rot_zoom(A):
            return None      # shears are stripped by design: nothing to compare with
        bad = check_qform_fields(cls, A, ex)
        return tag('header:qform-precision', f'{cls} header: set_qform/get_qform: {bad}') if bad else None
    if d['op'] == 'szaff':
        shape, zooms, flip = a
        if len(shape) != len(zooms):
            return None if out == 'ERR:ValueError' else tag('shape_zoom_affine', 'length mismatch accepted')
        if out.startswith('ERR'):
            return tag('shape_zoom_affine', f'shape_zoom_affine{tuple(a)} raised')
        s3 = (list(shape) + [1, 1, 1])[:3]
        z3 = ([F(v) for v in zooms] + [Fr(1)] * 3)[:3]
        if flip:
            z3[0] = -z3[0]
        rows = []
        for i in range(3):
            r = [Fr(0)] * 4
            r[i] = z3[i]
            r[3] = -z3[i] * Fr(s3[i] - 1, 2)
            rows += r
        exp = ','.join(str(v) for v in rows)
        return None if out == exp else tag('shape_zoom_affine', f'shape_zoom_affine{tuple(a)} = {out}, expected {exp}')
    return None


def signature(case, what):
    if what and what.startswith('sig='):
        return what[4:].split(' :: ', 1)[0]
    return 'C04:' + case.data.get('op', '?')


def _subst_affine(h, A, B):
    """the header spec with every affine equal to the image affine A replaced by B (the relation between image
    affine and header affine is what a failure depends on: a shrink must not change it)"""
    if h is None:
        return None
    out = dict(h)
    for k in ('q', 's'):
        if k in out and out[k][1] is not None and list(out[k][1]) == list(A):
            out[k] = [out[k][0], list(B)]
    if 'a' in out and list(out['a']) == list(A):
        out['a'] = list(B)
    return out


def shrink_candidates(case):
    d = case.data
    if d['op'] != 'rt':
        return
    A = list(d['A'])
    rest = (d['stream'], d['exact'], d['line'], d.get('fl', 'TTT'), d.get('flhow', 'sub'), d.get('route', 'ctor'))
    if d.get('hist'):
        yield mk_rt(d['cls'], d['shape'], A, d['hdr'], d['mat'], *rest, d['hist'][1:])
    if len(d['shape']) != 3 and d['cls'] != 'MGH':
        yield mk_rt(d['cls'], (d['shape'] + [2, 2, 2])[:3], A, d['hdr'], d['mat'], *rest, d.get('hist'))
    for k in (3, 7, 11):
        if A[k] != 0:
            B = list(A)
            B[k] = 0.0
            yield mk_rt(d['cls'], d['shape'], B, _subst_affine(d['hdr'], A, B), d['mat'], *rest, d.get('hist'))


# ------------------------------------------------------------------ generators

def signed_perms():
    out = []
    for p in itertools.permutations(range(3)):
        for s in itertools.product([1, -1], repeat=3):
            M = np.zeros((3, 3))
            for j in range(3):
                M[p[j], j] = s[j]
            out.append(M)
    return out


SP = signed_perms()


def _rational_quat(M):
    """signed permutation whose proper part (last column flipped when det < 0) is the identity, a 180 deg turn
    about an axis, or a 120 deg turn about a cube diagonal -> quaternion entries in {0, ±1, ±1/2}"""
    R = M.copy()
    if np.linalg.det(R) < 0:
        R[:, 2] *= -1
    tr = np.trace(R)
    diag = np.all(R == np.diag(np.diag(R)))
    if diag:
        return 'axis'            # identity or 180 deg about an axis
    if tr == 0 and not np.any(np.diag(R)):
        return 'diag'            # 120 deg about a cube diagonal
    return None


SP_AXIS = [M for M in SP if _rational_quat(M) == 'axis']
SP_QRAT = [M for M in SP if _rational_quat(M) is not None]


def q_exact_rots(cls):
    # NIfTI-2 stores float64 quaternions: eigh returns 0.5000000000000001 for the 120 deg turns, which float32
    # storage absorbs and float64 storage does not
    return SP_AXIS if cls == 'N2' else SP_QRAT


def dyadic(rng, maxint=4096, maxden=6):
    return rng.randrange(-maxint, maxint + 1) / float(2 ** rng.randrange(0, maxden + 1))


def exact_affine(rng, rots=None, sheared=False):
    if sheared:
        while True:
            M = np.array([[rng.randrange(-3, 4) for _ in range(3)] for _ in range(3)], dtype=np.float64)
            if abs(np.linalg.det(M)) > 0.5:
                break
        M = M * float(2 ** rng.randrange(-3, 4))
    else:
        R = rng.choice(rots if rots is not None else SP)
        z = [float(2 ** rng.randrange(-6, 7)) for _ in range(3)]
        zm = rng.random()
        if zm < 0.08:        # micrometre voxels in mm (2^-20 ~ 1e-6): |det| far below any absolute tolerance
            z = [float(2 ** rng.randrange(-20, -7)) for _ in range(3)]
        elif zm < 0.14:      # huge
            z = [float(2 ** rng.randrange(8, 21)) for _ in range(3)]
        elif zm < 0.2:       # mixed magnitudes
            z = [float(2 ** rng.choice([rng.randrange(-20, -7), rng.randrange(-6, 7), rng.randrange(8, 21)]))
                 for _ in range(3)]
        if rng.random() < 0.3:
            z = [z[0]] * 3
        M = R * np.array(z)
    A = np.eye(4)
    A[:3, :3] = M
    A[:3, 3] = [dyadic(rng) for _ in range(3)] if rng.random() < 0.9 else [0.0, 0.0, 0.0]
    return A


def near_affine(rng, A):
    """allclose to A, different from A, float32-exact: one column scaled by 1+2^-18, or a zero entry of the
    translation set to 2^-30, or a big translation moved by 2^-8; or right INSIDE the np.allclose boundary
    (rtol 1e-5: relative 2^-17 = 7.6e-6; atol 1e-8: 2^-27 = 7.5e-9 against a zero entry)"""
    B = A.copy()
    r = rng.random()
    if r < 0.12:
        j = rng.randrange(3)
        B[:3, j] *= (1 + 2.0 ** -17)
        return B
    if r < 0.2:
        zs = [(i, j) for i in range(3) for j in range(4) if B[i, j] == 0]
        if zs:
            i, j = rng.choice(zs)
            B[i, j] = rng.choice([1, -1]) * 2.0 ** -27
            return B
    if r < 0.6:
        j = rng.randrange(3)
        B[:3, j] *= (1 + 2.0 ** -18)
    elif r < 0.8:
        i = rng.randrange(3)
        if B[i, 3] == 0:
            B[i, 3] = 2.0 ** -30
        elif abs(B[i, 3]) >= 512:
            B[i, 3] += 2.0 ** -8
        else:
            B[:3, rng.randrange(3)] *= (1 - 2.0 ** -19)
    else:
        B[:3, :3] *= (1 + 2.0 ** -17)
    return B


def far_affine(rng, A, rots=None):
    """not allclose to A; 30% right OUTSIDE the np.allclose boundary (relative 2^-16 = 1.5e-5 on a column; 2^-26 =
    1.5e-8 against a zero translation entry: the matrix part stays a scaled signed permutation)"""
    B = A.copy()
    r = rng.random()
    if r < 0.2:
        B[:3, rng.randrange(3)] *= (1 + 2.0 ** -16)
        return B
    if r < 0.3:
        zs = [i for i in range(3) if B[i, 3] == 0]
        if zs:
            B[rng.choice(zs), 3] = rng.choice([1, -1]) * 2.0 ** -26
            return B
    if r < 0.4:
        B[:3, rng.randrange(3)] *= 2.0
    elif r < 0.6:
        B[rng.randrange(3), 3] += 1.0
    elif r < 0.8:
        B[:3, :3] *= (1 + 2.0 ** -10)
    else:
        B = exact_affine(rng, rots)
    return B


def rand_shape(rng, cls):
    r = rng.random()
    if cls == 'MGH':
        s = [rng.randrange(1, 8) for _ in range(3)]
        return s + [rng.randrange(2, 4)] if r < 0.15 else s
    if r < 0.08:
        return [rng.randrange(1, 8) for _ in range(2)]
    if r < 0.1:
        return [rng.randrange(2, 8)]
    s = [rng.randrange(1, 9) for _ in range(3)]
    return s + [rng.randrange(1, 4)] if r < 0.25 else s


def variant(rng, A, rots=None):
    """(affine, relation) for a header affine related to the image affine A"""
    r = rng.random()
    if r < 0.35:
        return A.copy(), 'equal'
    if r < 0.65:
        return near_affine(rng, A), 'near'
    return far_affine(rng, A, rots), 'far'


def rand_flips(rng, p=0.4):
    """(fl, flhow): default_x_flip at construction / save / load.  Mostly the realistic ones: instance attribute set
    on img.header before saving (TFT), header subclass or class attribute for everything (FFF), saved under one
    convention and loaded under the other (FFT, TTF)"""
    if rng.random() >= p:
        return 'TTT', 'sub'
    fl = rng.choice(['TFT', 'TFT', 'FFF', 'FFF', 'FFF', 'FFT', 'TTF', 'TFF', 'FTT', 'FTF'])
    return fl, ('patch' if fl == 'FFF' and rng.random() < 0.4 else 'sub')


MATMODES = ['both', 'both', 'both', 'monly', 'monly', 'none', 'matonly', 'mat3d']


def rand_end(rng, hdr):
    """sometimes make the supplied header big-endian"""
    if hdr is not None and hdr_src('', hdr) != 'MGH' and rng.random() < 0.2:
        hdr['end'] = '>'
    return hdr


def pow2_zooms(rng):
    return [float(2 ** rng.randrange(-4, 5)) for _ in range(3)]


def foreign_header(rng, cls, shape, A):
    """spec of a header made on ANOTHER class than the image's (`Klass(data, affine, other_img.header)`), holding an
    affine equal / near / far relative to A as far as that class can; float-exact for the exact stream"""
    fam = 'N' if cls in NIFTI else ('M' if cls == 'MGH' else 'A')
    cands = [c for c in CLASSES if c != cls and (c != 'MGH' or len(shape) >= 3)]
    # a NIfTI image most often gets the header of the other NIfTI flavour
    if fam == 'N' and rng.random() < 0.6:
        cands = [c for c in NIFTI if c != cls]
    src = rng.choice(cands)
    n = np.sqrt((A[:3, :3] ** 2).sum(axis=0))
    if src in NIFTI:
        rots = SP_AXIS if 'N2' in (src, cls) else SP_QRAT
        if fam == 'N':
            qc = rng.choice([0, 0, 1, 2, 5])
            sc = rng.choice([0, 1, 2, 3, 4, 5])
            if qc == 0 and sc == 0:
                sc = 2
            base = A if is_member(A, rots) else exact_affine(rng, rots)
            qa = None if rng.random() < 0.3 else variant(rng, base, rots)[0]
            if qa is not None and not is_member(qa, rots):
                qa = exact_affine(rng, rots)
            sa = variant(rng, A)[0]
            h = {'q': [code_tok(rng, qc), None if qa is None else aff12_of(qa)], 's': [code_tok(rng, sc), aff12_of(sa)]}
        else:
            # only pixdim reaches an Analyze / SPM / MGH image: the column norms of the qform affine
            qa = None if rng.random() < 0.2 else variant(rng, A if is_member(A, SP) else exact_affine(rng, SP), SP)[0]
            if qa is not None and not is_member(qa, SP):
                qa = exact_affine(rng, SP)
            h = {'q': [rng.choice([0, 1, 2]), None if qa is None else aff12_of(qa)],
                 's': [rng.choice([0, 2]), aff12_of(A) if rng.random() < 0.5 else None]}
    elif src == 'MGH':
        H = variant(rng, A if is_member(A, SP) else exact_affine(rng, SP), SP)[0]
        if not is_member(H, SP):
            H = exact_affine(rng, SP)
        h = {'a': aff12_of(H)}
    else:
        zr = rng.random()
        z = [float(v) for v in n] if zr < 0.5 else ([float(v * (1 + 2.0 ** -18)) for v in n] if zr < 0.7 else
                                                    pow2_zooms(rng))
        o = [0, 0, 0]
        if src in SPM and rng.random() < 0.5:
            o = [rng.randrange(1, 2 * (shape[k] if k < len(shape) else 1)) for k in range(3)]
        h = {'z': z, 'o': o}
    h['from'] = src
    return h


def near_header_affine(rng, cls, shape, hdr, fl='TTT'):
    """an image affine equal / near / far relative to what the (converted) header says — the keep-header path"""
    try:
        Ki = flip_class(cls, fl[0] == 'T')
        seen = Ki.header_class.from_header(build_header(cls, tuple(shape), hdr, Ki))
        if seen.get_data_shape() != tuple(shape):
            seen.set_data_shape(tuple(shape))
        hb = np.array(seen.get_best_affine(), dtype=np.float64)
    except Exception:
        return None
    return variant(rng, hb)[0]


def exact_nifti_case(rng, cls):
    shape = rand_shape(rng, cls)
    rots = q_exact_rots(cls)
    mode = rng.random()
    hdr = None
    if mode < 0.25:
        A = exact_affine(rng, sheared=rng.random() < 0.3)
    else:
        qc = rng.choice([0, 0, 1, 2, 3, 4, 5])
        sc = rng.choice([0, 0, 1, 2, 3, 4, 5])
        if rng.random() < 0.08:        # both codes 0: the shape/zoom fallback is the header's affine
            sc = qc = 0
        # what the qform affine must be for every float operation on it to be exact where it is observed:
        # a coded qform is read back through the quaternion (rational quaternions only); with both codes 0
        # its column norms (pixdim) are seen through the fallback affine (exact square roots only)
        need = rots if qc != 0 else (SP if sc == 0 else None)
        A = exact_affine(rng, rots) if (qc != 0 or rng.random() < 0.5) else exact_affine(rng, sheared=rng.random() < 0.5)
        if rng.random() < 0.15:
            qa = None
        else:
            base = A if (need is None or is_member(A, need)) else exact_affine(rng, need)
            qa, _ = variant(rng, base, need)
            if need is not None and not is_member(qa, need):
                qa = exact_affine(rng, need)
        if rng.random() < 0.15:
            sa = None
        else:
            sa, _ = variant(rng, A)
        hdr = {'q': [code_tok(rng, qc), None if qa is None else aff12_of(qa)],
               's': [code_tok(rng, sc), None if sa is None else aff12_of(sa)]}
        if sc == 0 and qc == 0 and rng.random() < 0.6:
            # image affine equal / near the shape-zoom fallback of this header
            try:
                hb = np.array(build_header(cls, tuple(shape), hdr).get_best_affine(), dtype=np.float64)
                A = hb if rng.random() < 0.5 else near_affine(rng, hb)
            except Exception:
                pass
        r = rng.random()
        if r < 0.03:        # a code outside the table: refused with KeyError
            hdr[rng.choice(['q', 's'])][0] = rng.choice([6, 7, 100, 'bogus', 'Aligned'])
        elif r < 0.08:      # a code field damaged behind the API's back
            k = rng.choice(['q', 's'])
            # a valid non-zero raw qform code would expose a qform that need not be float-exact
            rv = rng.choice([6, 7, 9, 0] if (k == 'q' and qc == 0) else [5, 6, 7, 9, 0, 3])
            # an sform code that ends up 0 hands the decision to the qform / fallback: only when that is exact
            exposes_q = k == 's' and rv not in (1, 2, 3, 4, 5) and qa is not None \
                and not is_member(qa, rots if qc != 0 else SP)
            if not exposes_q:
                hdr['raw'] = {k: rv}
    if hdr is None and rng.random() < 0.12 or (hdr is not None and 'raw' not in hdr and rng.random() < 0.12):
        # a header taken from an image of another class
        A = exact_affine(rng, rots if rng.random() < 0.5 else None)
        hdr = foreign_header(rng, cls, shape, A)
        if hdr['from'] not in NIFTI and rng.random() < 0.6:
            B = near_header_affine(rng, cls, shape, hdr)
            A = A if B is None else B
        return mk_rt(cls, shape, aff12_of(A), rand_end(rng, hdr), 'both', 'exact-xclass')
    fl, how = 'TTT', 'sub'
    if hdr is None or ('raw' not in hdr and all(std_code(t[0]) is not None for t in (hdr['q'], hdr['s']))
                       and (std_code(hdr['q'][0]) or std_code(hdr['s'][0]))):
        # default_x_flip only enters the shape/zoom fallback: with a coded sform / qform it must not matter
        fl, how = rand_flips(rng, 0.15)
    return mk_rt(cls, shape, aff12_of(A), rand_end(rng, hdr), 'both', 'exact-nifti', fl=fl, flhow=how)


def is_member(A, rots):
    M = A[:3, :3]
    n = np.abs(M).max(axis=0)
    if np.any(n == 0):
        return False
    R = M / n
    return any(np.array_equal(R, S) for S in rots)


def is_qexact(A, rots):
    """columns are a q-exact signed permutation times positive scalars (scalars may be 2^k(1+2^-18))"""
    return is_member(A, rots)


def exact_analyze_case(rng, cls):
    shape = rand_shape(rng, cls)
    mat = 'both'
    if cls in SPM:
        mat = rng.choice(MATMODES)
    fl, how = rand_flips(rng)
    A = exact_affine(rng, sheared=False)
    hdr = None
    r = rng.random()
    if r > 0.85:
        hdr = foreign_header(rng, cls, shape, A)
        if rng.random() < 0.6:
            B = near_header_affine(rng, cls, shape, hdr, fl)
            A = A if B is None else B
        return mk_rt(cls, shape, aff12_of(A), rand_end(rng, hdr), mat, 'exact-xclass', fl=fl, flhow=how)
    if r > 0.3:
        n = np.sqrt((A[:3, :3] ** 2).sum(axis=0))
        zr = rng.random()
        z = [float(v) for v in n] if zr < 0.4 else ([float(v * (1 + 2.0 ** -18)) for v in n] if zr < 0.6 else
                                                    [float(2 ** rng.randrange(-4, 5)) for _ in range(3)])
        o = [0, 0, 0]
        if cls in SPM:
            orr = rng.random()
            if orr < 0.4:
                o = [rng.randrange(1, 2 * (shape[k] if k < len(shape) else 1)) for k in range(3)]
            elif orr < 0.6:
                o = [rng.randrange(-12, 20) for _ in range(3)]
        hdr = {'z': z, 'o': o}
        if rng.random() < 0.5:
            # image affine equal / near / far relative to the header's own affine (keep-header path), under the
            # flag in force at construction or at save
            hh = build_header(cls, tuple(shape), hdr)
            hh.default_x_flip = (fl[rng.randrange(2)] == 'T')
            hb = np.array(hh.get_best_affine(), dtype=np.float64)
            A, _ = variant(rng, hb)
    elif r < 0.08:
        A = exact_affine(rng)
    return mk_rt(cls, shape, aff12_of(A), rand_end(rng, hdr), mat, 'exact-analyze', fl=fl, flhow=how)


def exact_mgh_case(rng):
    shape = rand_shape(rng, 'MGH')
    A = exact_affine(rng)
    hdr = None
    r = rng.random()
    if r < 0.6:
        H, _ = variant(rng, A)
        hdr = {'a': aff12_of(H)}
    elif r < 0.7:
        # a header of another class is ignored by MGHHeader.from_header
        hdr = foreign_header(rng, 'MGH', shape, A)
        return mk_rt('MGH', shape, aff12_of(A), rand_end(rng, hdr), 'both', 'exact-xclass')
    return mk_rt('MGH', shape, aff12_of(A), hdr, 'both', 'exact-mgh')


def rand_unit_quat(rng, p180=0.15):
    if rng.random() < p180:      # exactly 180 degrees about a random axis: w = 0
        v = np.array([rng.gauss(0, 1) for _ in range(3)])
        if rng.random() < 0.3:
            v[rng.randrange(3)] = 0.0
        if rng.random() < 0.2:   # axes with small integer coordinates, e.g. (2, 6, 9)
            v = np.array([float(rng.randrange(-12, 13)) for _ in range(3)])
        if not np.any(v):
            v[0] = 1.0
        v /= np.linalg.norm(v)
        return np.array([0.0, *v])
    r = rng.random()
    if r < 0.18:      # nearly 180 degrees
        v = np.array([rng.gauss(0, 1) for _ in range(3)])
        v /= np.linalg.norm(v)
        w = 10.0 ** rng.uniform(-9, -2)
        q = np.array([w, *v])
        return q / np.linalg.norm(q)
    if r < 0.3:       # nearly identity
        q = np.array([1.0, *[rng.gauss(0, 1) * 10.0 ** rng.uniform(-9, -2) for _ in range(3)]])
        return q / np.linalg.norm(q)
    q = np.array([rng.gauss(0, 1) for _ in range(4)])
    return q / np.linalg.norm(q)


def rot_of(q):
    w, x, y, z = q
    return np.array([[w * w + x * x - y * y - z * z, 2 * (x * y - w * z), 2 * (x * z + w * y)],
                     [2 * (x * y + w * z), w * w - x * x + y * y - z * z, 2 * (y * z - w * x)],
                     [2 * (x * z - w * y), 2 * (y * z + w * x), w * w - x * x - y * y + z * z]])


def general_affine(rng, shear=False, p180=0.15):
    R = rot_of(rand_unit_quat(rng, p180))
    zr = rng.random()
    lo, hi = (-6, 6) if zr < 0.2 else (-1.5, 1.5)
    z = np.array([10.0 ** rng.uniform(lo, hi) for _ in range(3)])
    if zr > 0.9:         # all three tiny (micrometres in mm) or all three huge
        e = rng.choice([-6, -5, -4, -3, 3, 4, 5])
        z = np.array([10.0 ** (e + rng.uniform(0, 1)) for _ in range(3)])
    if rng.random() < 0.3:
        z[:] = z[0]
    if rng.random() < 0.4:
        z[rng.randrange(3)] *= -1          # reflection
    M = R * z
    if shear:
        S = np.eye(3)
        S[0, 1] = rng.uniform(-0.5, 0.5)
        S[rng.randrange(1, 3), 0] = rng.uniform(-0.5, 0.5)
        M = M @ S
    A = np.eye(4)
    A[:3, :3] = M
    tr = rng.random()
    ts = 1e7 if tr < 0.15 else (1e2 if tr < 0.9 else 0.0)
    A[:3, 3] = [rng.uniform(-ts, ts) for _ in range(3)]
    return A


def general_case(rng, cls):
    shape = [rng.randrange(1, 9) for _ in range(3)]
    r = rng.random()
    if cls in NIFTI and r < 0.45:
        # the affine lives in the qform only; exact 180 degree turns are frequent here
        A = general_affine(rng, p180=0.4)
        hdr = {'q': [code_tok(rng, rng.choice([1, 2, 3, 4, 5])), aff12_of(A)], 's': [code_tok(rng, 0), None]}
        return mk_rt(cls, shape, aff12_of(A), hdr, 'both', 'general-qform', exact=False, line=False)
    A = general_affine(rng, shear=(cls in NIFTI or cls in SPM) and rng.random() < 0.4)
    if cls in NIFTI and r < 0.7:
        # a supplied header that already carries the affine in its sform under any valid code (number or
        # alias): the header is kept, so the code must come back from the file together with the affine
        hdr = {'q': [code_tok(rng, 0), None], 's': [code_tok(rng, rng.choice([1, 2, 3, 4, 5, 5])), aff12_of(A)]}
        if rng.random() < 0.3:
            # ... taken from an image of another NIfTI flavour (float64 <-> float32 fields)
            hdr['from'] = rng.choice([c for c in NIFTI if c != cls])
        fl, how = rand_flips(rng, 0.1)
        return mk_rt(cls, shape, aff12_of(A), rand_end(rng, hdr), 'both', 'general-sform-code', exact=False, line=True,
                     fl=fl, flhow=how)
    mat = 'both'
    fl, how = 'TTT', 'sub'
    if cls in SPM:
        mat = rng.choice(MATMODES)
    if cls in SPM or cls == 'AN' or cls in NIFTI:
        fl, how = rand_flips(rng, 0.4 if cls not in NIFTI else 0.1)
    # the model has executable float32 rounding, so the sform path is compared bit for bit on general affines too
    line = cls in NIFTI
    return mk_rt(cls, shape, aff12_of(A), None, mat, 'general', exact=False, line=line, fl=fl, flhow=how)


NIFTI_ROUTES = [('N1', 'N1P'), ('N1P', 'N1'), ('N1', 'N2'), ('N2', 'N1'), ('N1P', 'N2'), ('N2', 'N1P'),
                ('N1', 'N1'), ('N2', 'N2'), ('N1P', 'N1P')]
SC_QC = [(s_, q_) for s_ in (0, 1, 2, 3, 4, 5) for q_ in (0, 1, 2, 3, 4, 5) if s_ or q_]


def xclass_general_case(rng, k):
    """class conversion route x NIfTI flavour pair x handedness x (sform, qform) code pair, general rotation + zoom
    (+ reflection) affines incl. exact 180 degree turns and tiny / huge zooms.  The source header holds the image
    affine in the slot `get_best_affine` selects, so it is kept on every route: codes, sform and qform (quaternion,
    pixdim incl. qfac, offsets) must arrive in the file.  `k` walks the pairs and code pairs systematically."""
    src, cls = NIFTI_ROUTES[k % len(NIFTI_ROUTES)]
    sc, qc = SC_QC[(k // len(NIFTI_ROUTES) + k) % len(SC_QC)]
    shape = [rng.randrange(1, 9) for _ in range(3)] + ([rng.randrange(1, 4)] if rng.random() < 0.2 else [])
    A = general_affine(rng, p180=0.3)
    if rng.random() < 0.5:          # handedness: half left-handed (qfac = -1), whatever general_affine drew
        if (np.linalg.det(A[:3, :3]) < 0) != (k % 2 == 0):
            A[:3, rng.randrange(3)] *= -1
    r = rng.random()
    sa = aff12_of(A) if sc else (None if r < 0.5 else aff12_of(general_affine(rng)))
    qa = aff12_of(A) if (qc or r < 0.7) else None
    if sc and qc and r < 0.25:
        qa = aff12_of(general_affine(rng, p180=0.3))       # a qform that says something else than the sform
    hdr = {'q': [code_tok(rng, qc), qa], 's': [code_tok(rng, sc), sa]}
    if src != cls:
        hdr['from'] = src
        route = rng.choice(['ctor', 'from_image', 'from_image'] +
                           (['save_ext'] if {src, cls} == {'N1', 'N1P'} else []))
    else:
        route = rng.choice(['from_image', 'ctor'])
    return mk_rt(cls, shape, aff12_of(A), rand_end(rng, hdr), 'both', 'general-xclass', exact=False, line=False,
                 route=route)


def xfamily_route_case(rng):
    """conversions between format families through `from_image` / `nib.save` to another extension"""
    src, cls = rng.choice([('N1', 'MGH'), ('MGH', 'N1'), ('AN', 'N1'), ('S99', 'N1'), ('N1', 'AN'), ('N1', 'S99'),
                           ('N2', 'MGH'), ('MGH', 'N2'), ('S2', 'N1P'), ('N1P', 'S2'), ('AN', 'S99'), ('S99', 'AN'),
                           ('MGH', 'S99'), ('AN', 'MGH')])
    shape = [rng.randrange(1, 8) for _ in range(3)]
    A = general_affine(rng, shear=(cls in NIFTI or cls in SPM) and rng.random() < 0.3)
    if src in NIFTI:
        hdr = {'q': [0, None], 's': [code_tok(rng, rng.choice([1, 2, 4])), aff12_of(A)], 'from': src}
    elif src == 'MGH':
        hdr = {'a': aff12_of(A), 'from': src}
    else:
        n = np.sqrt((A[:3, :3] ** 2).sum(axis=0))
        hdr = {'z': [float(np.float32(v)) for v in n], 'o': [0, 0, 0], 'from': src}
    uniq = {'N1': True, 'MGH': True}.get(cls, False)       # the extension alone selects the class in nib.save
    route = 'save_ext' if (uniq and rng.random() < 0.5) else 'from_image'
    return mk_rt(cls, shape, aff12_of(A), hdr, 'both', 'general-xfamily', exact=False, line=False, route=route)


HIST_FAMILY = {'.img': ['AN', 'S99', 'S2', 'N1P', 'S99', 'S2'], '.nii': ['N1', 'N2', 'N1'], '.mgh': ['MGH']}


def with_history(rng, case):
    """the same case, saved to file names that earlier saves (other affine, other class of the same extension
    family, with / without `.mat` sidecar) have already used"""
    d = case.data
    if d['op'] != 'rt' or d.get('route', 'ctor') != 'ctor' or 'hist' in d:
        return None
    cls = d['cls']
    hist = []
    for _ in range(rng.choice([1, 1, 2])):
        c0 = rng.choice(HIST_FAMILY[FILE_EXT[cls]])
        s0 = rand_shape(rng, c0) if rng.random() < 0.5 else d['shape']
        if c0 == 'MGH':
            s0 = (list(s0) + [2, 2, 2])[:3]
        A0 = general_affine(rng, shear=c0 != 'MGH') if rng.random() < 0.5 else exact_affine(rng)
        hist.append([c0, s0, aff12_of(A0)])
    return mk_rt(cls, d['shape'], d['A'], d['hdr'], d['mat'], d['stream'] + '+hist', d['exact'], d['line'],
                 d.get('fl', 'TTT'), d.get('flhow', 'sub'), 'ctor', hist)


def component_cases(rng, tier):
    out = []
    n = {'quick': 600, 'thorough': 8000, 'search': 600}[tier]
    # float32 rounding spec validation
    for _ in range(n):
        r = rng.random()
        if r < 0.5:
            x = rng.uniform(-1, 1) * 10.0 ** rng.uniform(-12, 12)
        elif r < 0.8:     # ties and near-ties at 24 bits
            m = rng.randrange(2 ** 23, 2 ** 24)
            x = (m + rng.choice([0.5, 0.5, 0.25, 0.75, 0.5 + 2.0 ** -20, 0.5 - 2.0 ** -20])) * 2.0 ** rng.randrange(-60, 60)
            x *= rng.choice([1, -1])
        else:             # float32 subnormal range
            x = rng.uniform(-1, 1) * 2.0 ** rng.randrange(-152, -120)
        out.append(mk_comp('r32', [float(x)], 'r32'))
    for x in (0.0, 1.0, -1.0, 2.0 ** -149, 2.0 ** -150, 3 * 2.0 ** -150, 2.0 ** -126, 16777217.0, 16777219.0):
        out.append(mk_comp('r32', [x], 'r32'))
    # quat2mat: exact family = Hurwitz / axis quaternions times a power of two (Nq a power of two)
    fam = []
    for s in itertools.product([1, -1], repeat=4):
        fam.append([0.5 * s[0], 0.5 * s[1], 0.5 * s[2], 0.5 * s[3]])
    for i in range(4):
        for sg in (1, -1):
            q = [0.0] * 4
            q[i] = float(sg)
            fam.append(q)
    for i, j in itertools.combinations(range(4), 2):
        for si, sj in itertools.product([1, -1], repeat=2):
            q = [0.0] * 4
            q[i], q[j] = float(si), float(sj)
            fam.append(q)
    for q in fam:
        for k in (0, -3, 5) if tier != 'thorough' else range(-6, 7, 2):
            out.append(mk_comp('q2m', [v * 2.0 ** k for v in q], 'q2m-exact'))
    for k in (-20, -26, -27, -30, -40):
        out.append(mk_comp('q2m', [2.0 ** k, 0.0, 0.0, 0.0], 'q2m-exact'))
        out.append(mk_comp('q2m', [0.0, 0.0, 2.0 ** k, 2.0 ** k], 'q2m-exact'))
    for _ in range(n):
        q = rand_unit_quat(rng) * (1.0 if rng.random() < 0.5 else 10.0 ** rng.uniform(-3, 3))
        out.append(mk_comp('q2m', [float(v) for v in q], 'q2m-general', line=False))
    # mat2quat: rational family through the model, random rotations through the oracle
    for M in SP_QRAT:
        if np.linalg.det(M) > 0:
            out.append(mk_comp('m2q', [float(v) for v in M.ravel()], 'm2q-exact'))
    for _ in range(n):
        R = rot_of(rand_unit_quat(rng))
        out.append(mk_comp('m2q', [float(v) for v in R.ravel()], 'm2q-general', line=False))
    # header level set_qform / get_qform and set_sform / get_sform (the last sentence of the property)
    for cls in NIFTI:
        for M in q_exact_rots(cls):
            A = np.eye(4)
            A[:3, :3] = M * np.array([float(2 ** rng.randrange(-4, 5)) for _ in range(3)])
            A[:3, 3] = [dyadic(rng) for _ in range(3)]
            out.append(mk_comp('hq', [cls, aff12_of(A), code_tok(rng, rng.choice([1, 2, 3, 4, 5]))], 'hq-exact'))
        for _ in range(n // 8):
            out.append(mk_comp('hq', [cls, aff12_of(exact_affine(rng, q_exact_rots(cls))),
                                      rng.choice([0, 1, 2, 3, 4, 5, 5, 6, 'template', 'NIFTI_XFORM_MNI_152', 'nope'])],
                               'hq-exact'))
            out.append(mk_comp('hs', [cls, aff12_of(general_affine(rng, shear=True)),
                                      rng.choice([0, 1, 2, 3, 4, 5, 5, 7, 'template', 'scanner', 'Template'])], 'hs'))
        for _ in range(n // 2):
            out.append(mk_comp('hq', [cls, aff12_of(general_affine(rng, p180=0.4)),
                                      code_tok(rng, rng.choice([1, 2, 3, 4, 5]))], 'hq-general',
                               line=False))
    # fillpositive threshold decision on stored (b, c, d) right around |bcd| = 1
    for cls, ub in (('N1', 2.0 ** -24), ('N1P', 2.0 ** -24), ('N2', 2.0 ** -53)):
        for k in range(-6, 7):
            if cls == 'N2' and k == -3:
                continue   # w2 = 3*2^-52 - 9*2^-106: long double rounds it onto the threshold itself
            for c in (0.0, 2.0 ** -20 if cls != 'N2' else 2.0 ** -30):
                for perm in range(3):
                    v = [1.0 + k * ub * (1 if k < 0 else 2), c, 0.0]
                    v = v[perm:] + v[:perm]
                    out.append(mk_comp('fp', [cls, v], 'fp'))
        for v in ([0.0, 0.0, 0.0], [0.5, 0.5, 0.5], [0.5, 0.5, 0.75], [1.0, 2.0 ** -12, 0.0], [0.0, 0.0, -1.0]):
            out.append(mk_comp('fp', [cls, v], 'fp'))
    # shape_zoom_affine
    for _ in range(n // 2):
        nd = rng.choice([1, 2, 3, 3, 4, 5])
        shape = [rng.randrange(1, 40) for _ in range(nd)]
        zooms = [float(2 ** rng.randrange(-5, 6)) * rng.choice([1, 3, 5]) for _ in range(nd)]
        if rng.random() < 0.05:
            zooms = zooms[:-1]
        out.append(mk_comp('szaff', [shape, zooms, rng.random() < 0.6], 'szaff'))
    return out


def cases(rng, tier):
    out = [case_from_data(f['input']) for f in PENDING_FINDINGS]
    out += component_cases(rng, tier)
    n_exact = {'quick': 1500, 'thorough': 40000, 'search': 3000}[tier]
    n_gen = {'quick': 1200, 'thorough': 30000, 'search': 3000}[tier]
    # every signed permutation x every class once, no header (systematic part)
    for M in SP:
        for cls in CLASSES:
            if tier == 'quick' and rng.random() < 0.5:
                continue
            A = np.eye(4)
            A[:3, :3] = M * np.array([float(2 ** rng.randrange(-3, 4)) for _ in range(3)])
            A[:3, 3] = [dyadic(rng) for _ in range(3)]
            mat = rng.choice(['both', 'monly', 'matonly', 'mat3d']) if cls in SPM else 'both'
            fl, how = rand_flips(rng, 0.5) if cls in SPM or cls == 'AN' else ('TTT', 'sub')
            out.append(mk_rt(cls, rand_shape(rng, cls), aff12_of(A), None, mat, 'exact-perm', fl=fl, flhow=how))
    # every q-exact rotation x sform/qform code combination, header supplied, affine equal to the header's
    for cls in NIFTI:
        for M in q_exact_rots(cls):
            # every valid code (by number and by each alias) in the sform with qform 0, in the qform with
            # sform 0, and mixed pairs
            combos = [(c, 0) for c in STD_XFORM] + [(0, c) for c in STD_XFORM] + [(2, 1), (5, 5), (5, 1), (3, 5)]
            combos += [(n, 0) for c in STD_XFORM for n in STD_XFORM[c]] + [(0, n) for c in STD_XFORM for n in STD_XFORM[c]]
            for sc, qc in combos:
                if tier == 'quick' and rng.random() < 0.8:
                    continue
                A = np.eye(4)
                A[:3, :3] = M * np.array([float(2 ** rng.randrange(-3, 4)) for _ in range(3)])
                A[:3, 3] = [dyadic(rng) for _ in range(3)]
                hdr = {'q': [qc, aff12_of(A)], 's': [sc, aff12_of(A) if std_code(sc) else None]}
                out.append(mk_rt(cls, rand_shape(rng, cls), aff12_of(A), hdr, 'both', 'exact-codes'))
    for _ in range(n_exact):
        cls = rng.choice(CLASSES)
        if cls in NIFTI:
            out.append(exact_nifti_case(rng, cls))
        elif cls == 'MGH':
            out.append(exact_mgh_case(rng))
        else:
            out.append(exact_analyze_case(rng, cls))
    for _ in range(n_gen):
        out.append(general_case(rng, rng.choice(CLASSES)))
    # NIfTI-2 'exactly': affines that float32 cannot hold, compared bit for bit with the model (rnd = id) and by
    # the oracle; no header / own header holding the same affine under a code / a far header / a NIfTI-2 header
    # from a NIfTI-2 pair-less sibling is the same class, so the foreign one is NIfTI-1 (then float32 is what
    # the header holds: finding allclose-keeps-header)
    for _ in range(max(60, n_gen // 20)):
        A = general_affine(rng, shear=rng.random() < 0.5)
        while all(float(np.float32(v)) == v for v in A[:3, :].ravel()):
            A = general_affine(rng, shear=True)
        r = rng.random()
        hdr = None
        if r < 0.35:
            hdr = {'q': [code_tok(rng, 0), None], 's': [code_tok(rng, rng.choice([1, 2, 3, 4, 5])), aff12_of(A)]}
        elif r < 0.55:
            B = A.copy()
            B[:3, rng.randrange(3)] *= rng.choice([1.001, 2.0, 0.5])
            hdr = {'q': [code_tok(rng, 0), None], 's': [code_tok(rng, rng.choice([1, 2, 3, 4, 5])), aff12_of(B)]}
        elif r < 0.65:
            hdr = {'q': [code_tok(rng, 0), None], 's': [code_tok(rng, 2), aff12_of(A)], 'from': rng.choice(['N1', 'N1P'])}
        out.append(mk_rt('N2', [rng.randrange(1, 9) for _ in range(3)], aff12_of(A), rand_end(rng, hdr), 'both',
                         'n2-f64', exact=False, line=True))
    # image affine equal / near / far relative to the DEFAULT header affine of the class, no header supplied
    for _ in range(max(20, n_exact // 40)):
        cls = rng.choice(CLASSES)
        shape = rand_shape(rng, cls)
        dh = _nib()[cls].header_class()
        dh.set_data_shape(tuple(shape))
        fl, how = rand_flips(rng, 0.5) if cls in SPM or cls == 'AN' else ('TTT', 'sub')
        if cls != 'MGH':
            dh.default_x_flip = (fl[rng.randrange(2)] == 'T')
        D = np.array(dh.get_best_affine(), dtype=np.float64)
        A, _ = variant(rng, D)
        mat = rng.choice(MATMODES) if cls in SPM else 'both'
        out.append(mk_rt(cls, shape, aff12_of(A), None, mat, 'exact-default', fl=fl, flhow=how))
    # class conversion routes (from_image / header= of another flavour / nib.save to another extension) x handedness
    # x every (sform, qform) code pair, general affines: oracle only
    n_x = {'quick': 420, 'thorough': 6000, 'search': 840}[tier]
    k0 = rng.randrange(len(NIFTI_ROUTES) * len(SC_QC))
    for k in range(n_x):
        out.append(xclass_general_case(rng, k0 + k))
    for _ in range(n_x // 4):
        out.append(xfamily_route_case(rng))
    # save HISTORIES: the same cases written over earlier images on the same file names (real files).  Every
    # no-header / default-affine SPM case (the sidecar of the earlier image must not survive) and a sample of the rest
    extra = []
    for c in out:
        d = c.data
        if d.get('op') != 'rt' or d.get('stream') == 'finding':
            continue
        p = 0.5 if (d['cls'] in SPM and d['stream'] in ('exact-default', 'exact-perm')) else \
            (0.12 if d['cls'] in SPM or d['cls'] == 'AN' else 0.03)
        if tier == 'thorough':
            p /= 4
        if rng.random() < p:
            h = with_history(rng, c)
            if h is not None:
                extra.append(h)
    return out + extra


# ------------------------------------------------------------------ generated constants (Leg T)

def _src_tree(rel):
    import ast
    from common import REPO
    return ast.parse(open(os.path.join(REPO, rel)).read())


def _class_fn(tree, cname, fname):
    import ast
    cls = next(n for n in tree.body if isinstance(n, ast.ClassDef) and n.name == cname)
    return next(n for n in cls.body if isinstance(n, ast.FunctionDef) and n.name == fname)


def spm_mat_consts():
    """the literals of the SPM `.mat` reader / writer, from the AST of the working tree: the translation put
    into `to_111` / `from_111` (`X[:3, 3] = c`) and the `np.diag([...])` x-flip matrices"""
    import ast
    tree = _src_tree('nibabel/spm99analyze.py')
    out = {}
    for fname in ('from_file_map', 'to_file_map'):
        shifts, flips = {}, []
        for n in ast.walk(_class_fn(tree, 'Spm99AnalyzeImage', fname)):
            if isinstance(n, ast.Assign) and len(n.targets) == 1 and isinstance(n.targets[0], ast.Subscript) \
                    and isinstance(n.targets[0].value, ast.Name) and ast.unparse(n.targets[0].slice).strip('()').replace(' ', '') == ':3,3':
                try:
                    v = ast.literal_eval(n.value)
                except ValueError:
                    continue
                if isinstance(v, int):
                    shifts[n.targets[0].value.id] = v
            if isinstance(n, ast.Call) and ast.unparse(n.func) == 'np.diag':
                flips.append([int(v) for v in ast.literal_eval(n.args[0])])
        out[fname] = (shifts, flips)
    rd, wr = out['from_file_map'], out['to_file_map']
    if set(rd[0]) != {'to_111'} or set(wr[0]) != {'from_111'} or len(rd[1]) != 1 or len(wr[1]) != 1:
        raise ValueError(f'spm99analyze .mat reader/writer no longer has the to_111 / from_111 / np.diag shape: {out}')
    return {'to': rd[0]['to_111'], 'from': wr[0]['from_111'], 'flipR': rd[1][0], 'flipW': wr[1][0]}


def update_header_tolerances():
    """(rtol, atol) of THE `np.allclose(self._affine, hdr.get_best_affine(), ...)` call in
    SpatialImage.update_header: explicit keywords if the source gives them, NumPy's defaults otherwise"""
    import ast
    import inspect
    fn = _class_fn(_src_tree('nibabel/spatialimages.py'), 'SpatialImage', 'update_header')
    calls = [n for n in ast.walk(fn) if isinstance(n, ast.Call) and ast.unparse(n.func) in ('np.allclose', 'allclose')]
    if len(calls) != 1 or len(calls[0].args) != 2:
        raise ValueError('SpatialImage.update_header no longer decides by one two-argument np.allclose call')
    sig = inspect.signature(np.allclose)
    tol = {'rtol': sig.parameters['rtol'].default, 'atol': sig.parameters['atol'].default}
    for kw in calls[0].keywords:
        if kw.arg not in tol:
            raise ValueError(f'np.allclose called with {kw.arg}=')
        tol[kw.arg] = float(ast.literal_eval(kw.value))
    return tol['rtol'], tol['atol']


# ---- decision skeletons (Leg T): the body of a method of the working tree as a Lean `Nb.C04.Sk` term

def _one(n):
    import ast
    return re.sub(r'\s+', ' ', ast.unparse(n)).strip()

def _lean_str(s):
    return '"' + s.replace('\\', '\\\\').replace('"', '\\"') + '"'

def sk_of(stmts, k):
    import ast
    """Lean term (type Nb.C04.Sk) of a statement list followed by the continuation term `k`"""
    if not stmts:
        return k
    st, rest = stmts[0], stmts[1:]
    if isinstance(st, ast.Expr) and isinstance(st.value, ast.Constant) and isinstance(st.value.value, str):
        return sk_of(rest, k)                       # docstring
    if isinstance(st, (ast.Import, ast.ImportFrom, ast.Pass)):
        return sk_of(rest, k)
    if isinstance(st, ast.Return):
        return '(.ret %s)' % _lean_str('' if st.value is None else _one(st.value))
    if isinstance(st, ast.Raise):
        exc = st.exc.func if isinstance(st.exc, ast.Call) else st.exc
        return '(.raise %s)' % _lean_str('' if exc is None else _one(exc))
    if isinstance(st, ast.If):
        kk = sk_of(rest, k)
        return '(.ite %s %s %s)' % (_lean_str(_one(st.test)), sk_of(st.body, kk), sk_of(st.orelse, kk))
    if isinstance(st, ast.Try):
        # try: <one statement> except <Exc>: <handler>   ->  ite "try-raises <Exc>: <stmt>" handler (act stmt; rest)
        if len(st.body) != 1 or len(st.handlers) != 1 or st.orelse or st.finalbody or st.handlers[0].type is None:
            raise ValueError('try statement of another shape: ' + _one(st)[:80])
        kk = sk_of(rest, k)
        body = _one(st.body[0])
        return '(.ite %s %s (.act %s %s))' % (_lean_str('try-raises %s: %s' % (_one(st.handlers[0].type), body)),
                                              sk_of(st.handlers[0].body, kk), _lean_str(body), kk)
    if isinstance(st, ast.With):
        head = 'with ' + ', '.join(_one(i) for i in st.items)
        return '(.act %s %s)' % (_lean_str(head), sk_of(st.body, sk_of(rest, k)))
    if isinstance(st, (ast.Assign, ast.AugAssign, ast.AnnAssign, ast.Expr, ast.Assert)):
        return '(.act %s %s)' % (_lean_str(_one(st)), sk_of(rest, k))
    raise ValueError('statement outside the skeleton fragment: ' + _one(st)[:80])

def fn_skeleton(fn):
    return sk_of(fn.body, '(.ret "")')


SKELETONS = [('skBestAffine', 'nibabel/nifti1.py', 'Nifti1Header', 'get_best_affine'),
             ('skUpdateHeader', 'nibabel/spatialimages.py', 'SpatialImage', 'update_header'),
             ('skSpmWrite', 'nibabel/spm99analyze.py', 'Spm99AnalyzeImage', 'to_file_map'),
             ('skSpmRead', 'nibabel/spm99analyze.py', 'Spm99AnalyzeImage', 'from_file_map')]


def skeleton_source():
    out = []
    for name, rel, cname, fname in SKELETONS:
        out.append(f'/-- body of `{cname}.{fname}` ({rel}) of the working tree -/\n'
                   f'def {name} : Sk :=\n  {fn_skeleton(_class_fn(_src_tree(rel), cname, fname))}\n')
    return ''.join(out)


def regen():
    import inspect
    import nibabel as nib
    from nibabel import quaternions as nq
    spm = spm_mat_consts()
    rtol, atol = update_header_tolerances()

    def lit(x):
        f = Fr(float(x))
        return f'({f.numerator} : Rat) / {f.denominator}'
    from nibabel.nifti1 import xform_codes
    codes = sorted(int(c) for c in xform_codes.value_set())
    alias = {c: sorted(str(k) for k, v in xform_codes.field1.items() if isinstance(k, str) and int(v) == c)
             for c in codes}
    table = ', '.join('(%d, [%s])' % (c, ', '.join('"%s"' % a for a in alias[c])) for c in codes)
    src = ('import NibabelModel.Model.C04\n'
           '/-! GENERATED from /repo by harness/props/c04.py (regen) — do not edit by hand. -/\n'
           'namespace Nb.C04.Gen\n'
           f'def n1QuatThr : Rat := {lit(nib.Nifti1Header.quaternion_threshold)}\n'
           f'def n2QuatThr : Rat := {lit(nib.Nifti2Header.quaternion_threshold)}\n'
           f'def floatEps : Rat := {lit(nq.FLOAT_EPS)}\n'
           '/-- tolerances of the `np.allclose` call in `SpatialImage.update_header` (keywords of the call, else '
           'NumPy defaults) -/\n'
           f'def rtol : Rat := {lit(rtol)}\n'
           f'def atol : Rat := {lit(atol)}\n'
           '/-- `Spm99AnalyzeImage.from_file_map` / `to_file_map`: `to_111[:3, 3]`, `from_111[:3, 3]`, `np.diag` flips -/\n'
           f'def spmTo111 : Int := {spm["to"]}\n'
           f'def spmFrom111 : Int := {spm["from"]}\n'
           f'def spmFlipRead : List Int := {spm["flipR"]}\n'
           f'def spmFlipWrite : List Int := {spm["flipW"]}\n'
           '/-- `nibabel.nifti1.xform_codes`: every valid code with its string aliases -/\n'
           f'def xformTable : List (Nat × List String) := [{table}]\n'
           'def xformCodes : List Nat := xformTable.map (·.1)\n'
           + skeleton_source() +
           'end Nb.C04.Gen\n')
    write_if_changed(os.path.join(LEAN, 'NibabelModel', 'Generated', 'C04.lean'), src)
    return ['Nb.C04.Gen sk* (bodies of get_best_affine / update_header / Spm99AnalyzeImage.to_file_map / from_file_map from '
            'the AST) read through atomTable equal the decision models: skeletons_agree, best_affine_skeleton, '
            'update_header_skeleton, spm_write_skeleton, spm_read_skeleton']
