"""C07 — saving never changes the image, even when the write fails part-way.

Real code exercised: AnalyzeImage / Spm99AnalyzeImage / Spm2AnalyzeImage / Nifti1Pair / Nifti1Image /
Nifti2Pair / Nifti2Image / MGHImage / Cifti2Image `.to_file_map`, `set_data_dtype`, `to_filename`.

`faultio` (below): destination file objects handed in through `file_map` that raise OSError(ENOSPC) at the
k-th write/seek/tell/close call or when a byte budget is exhausted.
"""
import errno
import hashlib
import io
import os
import tempfile
import warnings

import numpy as np

from common import Case, LEAN, write_if_changed

warnings.simplefilter('ignore')

PID = 'C07'
LEAN_TARGETS = ['NibabelModel.Props.C07']
THEOREMS = [
    'Nb.C07.gen_tables_ok',
    'Nb.C07.save_harmonises',
    'Nb.C07.harmonise_once',
    'Nb.C07.second_save_preserves',
    'Nb.C07.save_congr_harm',
    'Nb.C07.histories_harmonise',
    'Nb.C07.byname_harmonises',
    'Nb.C07.orig_self_overwrite_loses_data_orig_counterexample',
    'Nb.C07.mat_roundtrip',
    'Nb.C07.mat_roundtrip_M_only',
    'Nb.C07.spm_save_writes_mat',
    'Nb.C07.skeleton_agrees',
    'Nb.C07.analyze_try_order',
    'Nb.C07.analyze_finally_is_restore',
    'Nb.C07.nib_gzip_independent',
    'Nb.C07.repeat_identical_gz',
    'Nb.C07.plain_gzip_embeds_clock_counterexample',
    'Nb.C07.save_preserves_state',
    'Nb.C07.save_congr',
    'Nb.C07.retry_correct',
    'Nb.C07.repeat_identical',
    'Nb.C07.failed_save_bindings',
    'Nb.C07.successful_save_binds_target',
    'Nb.C07.saves_erasable',
    'Nb.C07.histories_preserve',
    'Nb.C07.orig_fault_leaves_slope_orig_counterexample',
    'Nb.C07.orig_alias_changes_header_dtype_orig_counterexample',
    'Nb.C07.maps_file_detects_every_map',
    'Nb.C07.maps_file_skeleton_agrees',
    'Nb.C07.view_self_overwrite_keeps_data',
    'Nb.C07.maps_file_orig_misses_views_orig_counterexample',
    'Nb.C07.byname_binds_first',
    'Nb.C07.byname_retry_correct',
    'Nb.C07.write_data_never_stores_into_input',
    'Nb.C07.write_data_skeleton_agrees',
    'Nb.C07.inplace_scaling_stores_into_input_counterexample',
]
ASSUMPTIONS = [
    'hand-written Lean step-machine model of the to_file_map control flow (Model/C07.lean), tied to the code by '
    'the differential run of this check: for every generated history the result (raised or not, error kind), the '
    'complete I/O call log (file-object saves), the consumable header fields, alias, file_map/header bindings, '
    'default_x_flip, first-seen ids of the header bytes, of the affine, of the image data and of the bytes written, '
    'and the integer entries of the M / mat variables of every SPM .mat file written are compared with the model',
    'external to the model (parameters `Env`, values observed on clean reference runs of the real code): dtype '
    'alias resolution, make_array_writer (raises or not, slope/inter, number and size of write calls), whether '
    'hdr.set_slope_inter refuses the computed slope (HeaderDataError inside the try), scipy.io.savemat write sizes, '
    'NIfTI extension sizes; header float fields are opaque bit patterns',
    'update_header() is a model step that may change the non-consumable header bytes ONCE (idempotent by '
    'construction); WHICH bytes result is external: ids supplied by the correspondence from the real update_header '
    '(edit stream: in-place affine edits and header edits between saves). CIFTI-2: the normalisation of intent / '
    'pixdim / extension is still pre-applied by a first save and not exercised with edits',
    'data sources: in-memory array, ArrayProxy with or without memory map, an array HELD by the image that views a '
    'memory map through any chain of owners (ndarray bases, memoryviews, array-interface holders; the chain is '
    'read off the real object, `maps_file` is modelled on it and compared on 13 ways of making such arrays, with an '
    'address-range ground truth in the oracle); files are identified by identity (inode), never by spelling; a '
    'truncating open under a live memory map yields data id 0 (garbage) — SIGBUS, zeros and stale bytes are not '
    'distinguished. Self-overwrites are generated only with an unchanged on-disk layout (same dtype, no '
    'rescaling): layout-changing self-saves leave a stale proxy (known C09 findings) and are outside this stream',
    'by-name saves with faults (stream `nrun`): the file objects nibabel opens ITSELF (plain, gzip, bz2, zstd sinks) '
    'are wrapped by patching Opener._get_opener_argnames; faults are injected at the calls nibabel makes on the '
    'sink (write / seek / tell / flush / close), not inside the compression library or the OS buffer; bz2 / zstd sinks '
    'do not support seek() when writing (seek_tell absorbs the error on every save): for them the nrun cases are '
    'oracle-only (state, retry bytes, decoding, byte identity), the I/O log is compared for plain and gzip sinks',
    'the memory layout / byte order / writability of the image\'s own array is not in the model (the writer is '
    'external): that the array object, its memory (bit-exact, including hidden elements of the owning array), '
    'strides and flags are unchanged after every save, failed or not, is checked by the oracle on the real code only',
    'affines: integer-valued, or multiples of 1/64 (SPM classes: the model computes M / mat on 64·A, exact because '
    'they are linear in A), or arbitrary float64 for the classes whose model uses the affine only through its '
    'identity (entries passed as raw bit patterns)',
    'bytes written are abstracted to the list of (piece, state it was computed from); that equal abstract output '
    'means equal bytes is checked by the first-seen ids and, independently, by the oracle against a fresh image',
    'gzip: the member header is modelled after CPython GzipFile._write_gzip_header (validated each run against '
    'gzip.GzipFile and against nibabel ImageOpener for several levels, clocks and names); the arguments nibabel '
    'passes (filename constant, mtime default and pass-through) are regenerated from the AST of openers.py; the '
    'deflate body and CRC are parameters. partial: determinism of the deflate / bz2 / zstd STREAMS is runtime '
    'behaviour of those libraries — oracle only (stream `byname`, three saves with the clock moved)',
    'class traits, supported dtype codes, the code->dtype->code round trip, the .mat constants (from_111 / to_111 '
    'shifts, x-flip diagonals of writer and reader) are regenerated from the tree (Generated/C07.lean) and the '
    'theorems over them re-proved',
]
RULE = ('streams: `faults` = for each of the 9 image classes x {caller file objects, opener-owned file objects} x '
        'configurations (float data stored as int16 with automatic scaling, dtype= override, NIfTI extensions, dtype '
        'alias, explicit slope, explicit offset, default_x_flip False, sheared/permuted/flipped integer affines, affine '
        'None, big-endian header, denormal / huge data making set_slope_inter or the writer raise) EVERY fault point '
        'k = 1..n+1 of the I/O calls of a clean save, each followed by healthy saves incl. to_file_map() on the own '
        'file_map; `budget` = byte budgets; `hist` = random histories of saves (dtype= overrides, faults, file_map=None) '
        'interleaved with set_data_dtype(np dtype | compat | smallest) and in-place affine / header edits; `edit` = '
        'save, edit (affine in place | zooms | descrip), faulted save at several k, three healthy saves, edit back, '
        'save; `loaded` = images loaded from a file (mmap True/False, plain/.gz, source path spelled abs/rel/./x/'
        'sub/../x) saved BY NAME in a child process onto their own source (spelled abs/rel/./x/sub/../x/symlink) and '
        'elsewhere, with dtype= overrides; `matload` = .mat files with {M, mat, both, neither} x writer flip x reader '
        'flip x affine; `gzhdr` = gzip header of nibabel sink and plain GzipFile x level x clock x name; `byname` = '
        'three saves by file name per class x {plain,.gz,.bz2,.zst,.mgz} x {native, int16} x random array layout with '
        'the clock moved and the base name changed; `nrun` = saves BY NAME (to_filename | nibabel.save | set_filename + '
        'to_file_map()) per class x {plain,.gz (+.bz2,.zst thorough)} x configuration with an OSError at EVERY I/O call '
        'index of the files nibabel opened itself (and byte budgets), each followed by a save under another name at '
        'another clock time and a retry onto the partially written destination, I/O log compared with the model; '
        'layout dimension (streams faults / hist / byname / nrun): the image\'s array is C | F | transposed view | '
        'strided view of a larger array | negative strides | read-only | non-native byte order | 1-D | singleton '
        'dims, crossed with saves that scale / cast, fault at every k; affines integer, multiples of 1/64 and general '
        'float; `mapsfile` = volumeutils.maps_file on 13 ways of reaching (or not) a memory map x map mode x dtype; '
        '`wdata` = volumeutils._write_data with EVERY combination of its eight branches (pre-clip, in-cast, intercept, '
        'slope, post-clip, nan fill, NaNs present, out cast) x array layout x order, memory of the input compared '
        'before / after; `loaded` also has images HOLDING np.asarray(memmap) / np.frombuffer(mmap) / memoryview / as_strided views of '
        'their source file saved onto it. A case is '
        'non-trivial when it contains a fault, a dtype request, an edit or a by-name save; distinct by (class, mode, '
        'configuration, ops).')
PENDING_FINDINGS = []

AFF = [[2.0, 0, 0, -10], [0, 3, 0, -20], [0, 0, 4, -30], [0, 0, 0, 1]]
# integer-valued affines (exact in float64 AND float32): sheared, flipped, permuted, non-unit last row is not used
AFFS = [
    [[2, 0, 0, -10], [0, 3, 0, -20], [0, 0, 4, -30], [0, 0, 0, 1]],
    [[2, 0, 1, -11], [0, 3, 0, 7], [-1, 0, 4, 19], [0, 0, 0, 1]],
    [[-3, 0, 0, 45], [0, 2, 0, -8], [0, 0, 5, 0], [0, 0, 0, 1]],
    [[0, 2, 0, 6], [3, 0, 0, -9], [0, 0, -4, 12], [0, 0, 0, 1]],
    [[1, 2, 3, 4], [-2, 5, 1, -7], [3, -1, 6, 9], [0, 0, 0, 1]],
]
# non-integer affines: multiples of 1/64 (any class; the SPM `.mat` arithmetic stays exact) and a general one
# (zooms 2.4 / 1.7, oblique) for the classes whose model does not compute with the affine
AFFS_DYADIC = [
    [[2.5, 0, 0.25, -10.5], [0, -3.125, 0, 20], [0.5, 0, 4, -30.75], [0, 0, 0, 1]],
    [[-0.859375, 0.015625, 0, 90.5], [0.046875, 0.859375, -0.125, -126.25], [0, 0.109375, 1.5, -72.015625], [0, 0, 0, 1]],
]
AFF_GENERAL = [[-2.3928, 0.0419, 0.1712, 91.337], [0.0331, 2.3871, -0.2466, -126.71], [-0.1741, -0.2421, 1.6823, -72.093],
               [0, 0, 0, 1]]


def float_affs(cls):
    return AFFS_DYADIC + ([] if cls in ('spm99', 'spm2') else [AFF_GENERAL])


ANALYZE_FAMILY = ('analyze', 'spm99', 'spm2')
CLASSES = ['analyze', 'spm99', 'spm2', 'n1pair', 'n1single', 'n2pair', 'n2single', 'mgh', 'cifti2']
NIFTI = ('n1pair', 'n1single', 'n2pair', 'n2single')
NIFTI_CODES = {'uint8': 2, 'int16': 4, 'int32': 8, 'float32': 16, 'float64': 64, 'int8': 256, 'uint16': 512,
               'uint32': 768, 'int64': 1024, 'uint64': 1280}
DTNAMES = ['uint8', 'int16', 'int32', 'float32', 'float64', 'int8', 'uint16', 'int64']
EXTS = [b'hello world', b'12345678', b'a much longer comment extension body....']


def nib():
    import nibabel
    return nibabel


def klass_of(cls):
    n = nib()
    return {'analyze': n.AnalyzeImage, 'spm99': n.Spm99AnalyzeImage, 'spm2': n.Spm2AnalyzeImage,
            'n1pair': n.Nifti1Pair, 'n1single': n.Nifti1Image, 'n2pair': n.Nifti2Pair, 'n2single': n.Nifti2Image,
            'mgh': n.MGHImage, 'cifti2': n.Cifti2Image}[cls]


def hdr_class(cls):
    n = nib()
    return n.Nifti2Header if cls == 'cifti2' else klass_of(cls).header_class


def dt_field(cls):
    return 'type' if cls == 'mgh' else 'datatype'


_code_cache = {}


def code_of(cls, name):
    """dtype code of numpy dtype `name` in the header class of `cls` (probed); an unsupported dtype gets a
    code outside the class's table"""
    k = (cls, name)
    if k not in _code_cache:
        h = hdr_class(cls)()
        try:
            h.set_data_dtype(np.dtype(name))
            _code_cache[k] = int(h[dt_field(cls)])
        except Exception:
            _code_cache[k] = NIFTI_CODES[name] if cls != 'mgh' else 9000 + NIFTI_CODES[name]
    return _code_cache[k]


# ------------------------------------------------------------------ regen (Leg T)

def regen():
    n = nib()
    from nibabel.freesurfer import mghformat
    rows = []
    for cls in CLASSES[:-1]:
        k = klass_of(cls)
        hc = k.header_class
        if cls == 'mgh':
            has_s = has_i = False
            size, svo, single = int(hc._hdrdtype.itemsize), int(mghformat.DATA_OFFSET), True
            table = hc._data_type_codes
        else:
            has_s, has_i = bool(hc.has_data_slope), bool(hc.has_data_intercept)
            size, svo = int(hc.sizeof_hdr), int(getattr(hc, 'single_vox_offset', 0))
            single = bool(getattr(hc, 'is_single', False))
            table = hc._data_type_codes
        has_mat = 'mat' in dict(k.files_types)
        codes, rt = [], []
        for code in sorted({int(c) for c in table.code.keys() if isinstance(c, (int, np.integer))}):
            try:
                h = hc()
                h.set_data_dtype(table.dtype[code])
                if int(h[dt_field(cls)]) != code:
                    continue
                h.set_data_dtype(h.get_data_dtype())
                codes.append(code)
                rt.append((code, int(h[dt_field(cls)])))
            except Exception:
                continue
        b = lambda v: 'true' if v else 'false'
        rows.append(f'def {cls} : Traits := {{ hasSlope := {b(has_s)}, hasInter := {b(has_i)}, single := {b(single)}, '
                    f'hasMat := {b(has_mat)}, sizeofHdr := {size}, singleVoxOffset := {svo}, '
                    f'codes := [{", ".join(map(str, codes))}], '
                    f'roundtrip := [{", ".join("(%d, %d)" % p for p in rt)}] }}')
    consts = source_constants() + '\n' + skeleton_source()
    src = ('/-! GENERATED by harness/props/c07.py regen() from the nibabel working tree — do not edit. -/\n'
           'namespace Nb.C07.Gen\n\n'
           '/-- per image class: what the header class says (read from the class attributes / probed by calls) -/\n'
           'structure Traits where\n  hasSlope : Bool\n  hasInter : Bool\n  single : Bool\n  hasMat : Bool\n'
           '  sizeofHdr : Nat\n  singleVoxOffset : Nat\n  codes : List Nat\n  roundtrip : List (Nat × Nat)\n'
           '  deriving Repr, DecidableEq\n\n' + '\n'.join(rows) + '\n\n' + consts + '\nend Nb.C07.Gen\n')
    write_if_changed(os.path.join(LEAN, 'NibabelModel', 'Generated', 'C07.lean'), src)
    return ['Nb.C07.Gen tables (8 header classes) satisfy gen_tables_ok',
            'Nb.C07.Gen .mat constants (from_111 / to_111 shifts, x-flip diagonals of writer and reader) read from the '
            'AST of spm99analyze.py: mat_roundtrip, mat_roundtrip_M_only, spm_save_writes_mat re-proved over them',
            'Nb.C07.Gen gzip arguments of DeterministicGzipFile (filename= constant, mtime default and pass-through) '
            'read from the AST of openers.py: nib_gzip_independent, repeat_identical_gz re-proved over them',
            'Nb.C07.Gen skeletons (ordered header mutations / I/O / restores / aliasing of self._affine / memmap copy '
            'of the six to_file_map / to_filename methods, from the AST) equal the skeleton the step machine is written '
            'for: skeleton_agrees, analyze_try_order, analyze_finally_is_restore',
            'Nb.C07.Gen skeleton of volumeutils.maps_file (every statement: the loop over owners, the two map classes, '
            'memoryview.obj / base) equals the one mapsFile is written for: maps_file_skeleton_agrees',
            'Nb.C07.Gen skeleton of volumeutils._write_data (every statement of the slice loop) equals the one sliceBody '
            'is written for: write_data_skeleton_agrees (write_data_never_stores_into_input is about that body)']


# ------------------------------------------------------------------ syntactic control-flow skeleton (Leg T)
import ast
import re

NEUTRAL_CALLS = {'asanyarray', 'isinstance', 'get_data_offset', 'item', 'all', 'isnan', '_get_fileholders',
                 'same_file_as', 'eye', 'super', 'to_xml', 'from_bytes', 'Nifti1Extensions', 'get_intent',
                 'get_data_shape', 'reshape_dataobj'}
AFFINE_SOURCES = {'self._affine', 'self.affine'}


class SkeletonError(Exception):
    pass


def _one_line(node):
    return re.sub(r'\s+', ' ', ast.unparse(node)).strip()


def _call_name(c):
    f = c.func
    return f.attr if isinstance(f, ast.Attribute) else f.id if isinstance(f, ast.Name) else '?'


def _neutral_expr(e):
    for n in ast.walk(e):
        if isinstance(n, ast.Call):
            nm = _call_name(n)
            if nm == 'get_data_dtype' and not n.keywords and not n.args:
                continue
            if nm not in NEUTRAL_CALLS:
                return False
        elif isinstance(n, (ast.Lambda, ast.ListComp, ast.SetComp, ast.DictComp, ast.Await, ast.Yield,
                            ast.YieldFrom, ast.NamedExpr)):
            return False
    return True


def _names(t):
    if isinstance(t, ast.Name):
        return [t.id]
    if isinstance(t, (ast.Tuple, ast.List)) and all(isinstance(e, ast.Name) for e in t.elts):
        return [e.id for e in t.elts]
    return None


def _base_name(t):
    while isinstance(t, (ast.Subscript, ast.Attribute)):
        t = t.value
    return t.id if isinstance(t, ast.Name) else None


def skeleton(func, keep_all=False):
    """ordered tokens of everything in `func` that is not a neutral local computation (`keep_all`: of every
    statement); statements are flattened with their control context (`if(test): `, `else(test): `, `try: `,
    `finally: `, `with(item): `, `while(test): `)"""
    out = []

    def block(stmts, ctx, alias):
        for st in stmts:
            alias = stmt(st, ctx, alias)
        return alias

    def emit(ctx, text):
        # (region, text): region = the context up to and including the innermost try / finally / except frame,
        # the conditions inside that region stay in front of the statement text
        frames = re.findall(r'(?:if|else|except|while|for)\(.*?\): |try: |finally: |with: ', ctx)
        if ''.join(frames) != ctx:
            raise SkeletonError('context ' + ctx)
        cut = max([i + 1 for i, f in enumerate(frames) if f in ('try: ', 'finally: ') or f.startswith('except(')] or [0])
        out.append((''.join(frames[:cut]), ''.join(frames[cut:]) + text))

    def stmt(st, ctx, alias):
        if isinstance(st, ast.Expr) and isinstance(st.value, ast.Constant) and isinstance(st.value.value, str):
            return alias                                          # docstring
        if isinstance(st, (ast.Import, ast.ImportFrom, ast.Pass)):
            return alias
        if isinstance(st, ast.Assign):
            if len(st.targets) != 1:
                raise SkeletonError('chained assignment: ' + _one_line(st))
            tgt = st.targets[0]
            names = _names(tgt)
            if names is not None:
                src = _one_line(st.value)
                if src in AFFINE_SOURCES or (isinstance(st.value, ast.Name) and st.value.id in alias):
                    if len(names) != 1:
                        raise SkeletonError('tuple alias: ' + _one_line(st))
                    emit(ctx, 'ALIAS-OF-AFFINE ' + _one_line(st))
                    return alias | {names[0]}
                alias = alias - set(names)
                if _neutral_expr(st.value) and not keep_all:
                    return alias
                emit(ctx, _one_line(st))
                return alias
            base = _base_name(tgt)
            if base is None:
                raise SkeletonError('store into ' + _one_line(tgt))
            pre = 'INPLACE-ON-AFFINE-ALIAS ' if (base in alias and isinstance(tgt, ast.Subscript)) else ''
            emit(ctx, pre + _one_line(st))
            return alias
        if isinstance(st, ast.AugAssign):
            base = _base_name(st.target)
            if base is None:
                raise SkeletonError('augmented store into ' + _one_line(st.target))
            pre = 'INPLACE-ON-AFFINE-ALIAS ' if base in alias else ''
            emit(ctx, pre + _one_line(st))
            return alias
        if isinstance(st, ast.Expr):
            emit(ctx, _one_line(st))
            return alias
        if isinstance(st, ast.Return):
            emit(ctx, _one_line(st))
            return alias
        if isinstance(st, ast.Raise):
            exc = st.exc
            emit(ctx, 'raise ' + (_call_name(exc) if isinstance(exc, ast.Call) else _one_line(exc) if exc else ''))
            return alias
        if isinstance(st, ast.If):
            t = _one_line(st.test)
            if not _neutral_expr(st.test):
                emit(ctx, 'test ' + t)
            a1 = block(st.body, ctx + f'if({t}): ', set(alias))
            a2 = block(st.orelse, ctx + f'else({t}): ', set(alias))
            return a1 | a2
        if isinstance(st, ast.For):
            if st.orelse:
                raise SkeletonError('for/else')
            head = f'{_one_line(st.target)} in {_one_line(st.iter)}'
            emit(ctx, 'for ' + head)
            return alias | block(st.body, ctx + f'for({head}): ', set(alias))
        if isinstance(st, ast.While):
            if st.orelse:
                raise SkeletonError('while/else')
            t = _one_line(st.test)
            emit(ctx, 'while ' + t)
            return alias | block(st.body, ctx + f'while({t}): ', set(alias))
        if isinstance(st, ast.Try):
            if st.orelse:
                raise SkeletonError('try/else')
            a = block(st.body, ctx + 'try: ', set(alias))
            for h in st.handlers:
                a |= block(h.body, ctx + f'except({_one_line(h.type) if h.type else ""}): ', set(alias))
            return block(st.finalbody, ctx + 'finally: ', a)
        if isinstance(st, ast.With):
            items = ', '.join(_one_line(i) for i in st.items)
            emit(ctx, 'with-enter ' + items)
            a = block(st.body, ctx + 'with: ', set(alias))
            emit(ctx, 'with-exit')
            return a
        raise SkeletonError(f'statement kind {type(st).__name__}: ' + _one_line(st)[:80])

    block(func.body, '', set())
    return out


def find_func(tree, cls, name):
    for n in ast.walk(tree):
        if isinstance(n, ast.ClassDef) and n.name == cls:
            for f in n.body:
                if isinstance(f, ast.FunctionDef) and f.name == name:
                    return f
    raise LookupError(f'{cls}.{name}')


TARGETS = [('Analyze', 'analyze.py', 'AnalyzeImage'), ('Nifti', 'nifti1.py', 'Nifti1Pair'),
           ('Spm', 'spm99analyze.py', 'Spm99AnalyzeImage'), ('Mgh', 'freesurfer/mghformat.py', 'MGHImage'),
           ('Cifti', 'cifti2/cifti2.py', 'Cifti2Image'), ('ToFilename', 'filebasedimages.py', 'FileBasedImage')]


def all_skeletons(repo):
    res = {}
    for key, path, cls in TARGETS:
        tree = ast.parse(open(os.path.join(repo, 'nibabel', path)).read())
        res[key] = skeleton(find_func(tree, cls, 'to_filename' if key == 'ToFilename' else 'to_file_map'))
    # the module-level predicate `maps_file` that decides the copy: EVERY statement
    tree = ast.parse(open(os.path.join(repo, 'nibabel', 'volumeutils.py')).read())
    funcs = [n for n in tree.body if isinstance(n, ast.FunctionDef) and n.name == 'maps_file']
    if len(funcs) != 1:
        raise LookupError('volumeutils.maps_file')
    res['MapsFile'] = skeleton(funcs[0], keep_all=True)
    # the slice loop that turns the image's array into bytes: EVERY statement (which of them rebind `dslice` to fresh
    # memory and which store in place is what `sliceBody` models)
    funcs = [n for n in tree.body if isinstance(n, ast.FunctionDef) and n.name == '_write_data']
    if len(funcs) != 1:
        raise LookupError('volumeutils._write_data')
    res['WriteData'] = skeleton(funcs[0], keep_all=True)
    return res


def lean_str(t):
    return '"' + t.replace('\\', '\\\\').replace('"', '\\"') + '"'


def skeleton_source():
    """Generated Lean text: per to_file_map the ordered skeleton tokens; whether the memmap copy precedes the first
    open-for-write"""
    from common import REPO
    sk = all_skeletons(REPO)
    out = ['/-- syntactic skeletons of the `to_file_map` methods of the working tree (harness/props/c07.py::skeleton):\n'
           '    every statement that is not a neutral local computation, in order, with its control context -/']
    for key, toks in sk.items():
        out.append(f'def skel{key} : List (String × String) := [\n  ' +
                   ',\n  '.join(f'({lean_str(c)}, {lean_str(t)})' for c, t in toks) + ']')
    for key in ('Analyze', 'Mgh'):
        toks = sk[key]
        copy = [i for i, (c, t) in enumerate(toks) if 'np.array(data)' in t]
        opens = [i for i, (c, t) in enumerate(toks) if 'get_prepare_fileobj' in t]
        ok = len(copy) == 1 and bool(opens) and copy[0] < min(opens)
        out.append(f'def copyBeforeOpen{key} : Bool := {"true" if ok else "false"}')
    inplace = [f'{key}: {c}{t}' for key, toks in sk.items() for c, t in toks if t.startswith('INPLACE-ON-AFFINE-ALIAS')]
    out.append('/-- in-place stores into an array that may alias `self._affine` -/')
    out.append('def inplaceOnAffineAlias : List String := [' + ', '.join(lean_str(t) for t in inplace) + ']')
    return '\n'.join(out) + '\n'


def source_constants():
    """constants of the working tree the theorems rest on, read from the AST (Leg T)"""
    import ast
    from common import REPO

    def func(tree, cls, name):
        for n in ast.walk(tree):
            if isinstance(n, ast.ClassDef) and n.name == cls:
                for f in n.body:
                    if isinstance(f, ast.FunctionDef) and f.name == name:
                        return f
        raise LookupError(f'{cls}.{name}')

    def const(node):
        v = ast.literal_eval(node)
        if isinstance(v, bool) or not isinstance(v, (int, float)) or v != int(v):
            raise ValueError(ast.dump(node))
        return int(v)

    def shift_of(f, var):
        # `<var>[:3, 3] = <const>`
        for n in ast.walk(f):
            if (isinstance(n, ast.Assign) and len(n.targets) == 1 and isinstance(n.targets[0], ast.Subscript)
                    and isinstance(n.targets[0].value, ast.Name) and n.targets[0].value.id == var):
                if ast.unparse(n.targets[0].slice).replace(' ', '').strip('()') != ':3,3':
                    raise ValueError(ast.unparse(n))
                return const(n.value)
        raise LookupError(var)

    def diag_of(f):
        # the argument of the only `np.diag([...])`
        found = [n for n in ast.walk(f) if isinstance(n, ast.Call) and ast.unparse(n.func) == 'np.diag']
        vals = {tuple(const(e) for e in n.args[0].elts) for n in found}
        if len(vals) != 1:
            raise ValueError(f'np.diag calls: {vals}')
        return list(vals.pop())

    spm = ast.parse(open(os.path.join(REPO, 'nibabel', 'spm99analyze.py')).read())
    w = func(spm, 'Spm99AnalyzeImage', 'to_file_map')
    r = func(spm, 'Spm99AnalyzeImage', 'from_file_map')
    op = ast.parse(open(os.path.join(REPO, 'nibabel', 'openers.py')).read())
    init = func(op, 'DeterministicGzipFile', '__init__')
    names = [a.arg for a in init.args.args]
    defaults = dict(zip(names[len(names) - len(init.args.defaults):], init.args.defaults))
    mtime_default = const(defaults['mtime'])
    sup = [n for n in ast.walk(init) if isinstance(n, ast.Call) and ast.unparse(n.func) == 'super().__init__']
    if len(sup) != 1:
        raise ValueError('super().__init__ calls')
    kws = {k.arg: k.value for k in sup[0].keywords}
    fn = kws.get('filename')
    passes_path = not (isinstance(fn, ast.Constant) and isinstance(fn.value, str))
    fn_const = [] if passes_path else list(fn.value.encode('latin-1'))
    passes_mtime = isinstance(kws.get('mtime'), ast.Name) and kws['mtime'].id == 'mtime'
    gzo = [n for n in ast.walk(op) if isinstance(n, ast.FunctionDef) and n.name == '_gzip_open'][0]
    gnames = [a.arg for a in gzo.args.args]
    gdef = dict(zip(gnames[len(gnames) - len(gzo.args.defaults):], gzo.args.defaults))
    b = lambda v: 'true' if v else 'false'
    il = lambda xs: '[' + ', '.join(str(x) for x in xs) + ']'
    return (
        '/-- spm99analyze.py, `Spm99AnalyzeImage.to_file_map`: `from_111[:3, 3] = <c>` and `np.diag([...])` -/\n'
        f'def from111Shift : Int := {shift_of(w, "from_111")}\n'
        f'def xflipDiagW : List Int := {il(diag_of(w))}\n'
        '/-- `Spm99AnalyzeImage.from_file_map`: `to_111[:3, 3] = <c>` and `np.diag([...])` -/\n'
        f'def to111Shift : Int := {shift_of(r, "to_111")}\n'
        f'def xflipDiagR : List Int := {il(diag_of(r))}\n'
        '/-- openers.py, `DeterministicGzipFile.__init__` → `GzipFile.__init__(filename=…, mtime=…)` and the default of\n'
        '    `mtime` there and in `_gzip_open` -/\n'
        f'def gzPassesPath : Bool := {b(passes_path)}\n'
        f'def gzFilenameConst : List Nat := {il(fn_const)}\n'
        f'def gzPassesMtime : Bool := {b(passes_mtime)}\n'
        f'def gzMtimeDefault : Nat := {mtime_default}\n'
        f'def gzOpenMtimeDefault : Nat := {const(gdef["mtime"])}\n')


# ------------------------------------------------------------------ faultio

class Budget:
    """shared by the file objects of one destination: counts I/O calls and accepted bytes"""

    def __init__(self, fail_at=None, byte_budget=None):
        self.fail_at, self.byte_budget = fail_at, byte_budget
        self.count = 0
        self.written = 0
        self.log = []

    def tick(self, what):
        self.count += 1
        self.log.append(what)
        if self.fail_at is not None and self.count == self.fail_at:
            raise OSError(errno.ENOSPC, f'No space left on device (injected at call {self.count}: {what})')


class FaultyFile:
    def __init__(self, letter, budget):
        self.letter, self.budget = letter, budget
        self.bio = io.BytesIO()

    def write(self, b):
        n = len(b)
        self.budget.tick(f'{self.letter}w{n}')
        bb = self.budget.byte_budget
        if bb is not None and self.budget.written + n > bb:
            fit = bb - self.budget.written
            self.bio.write(bytes(b)[:fit])
            self.budget.written = bb
            raise OSError(errno.ENOSPC, 'No space left on device (injected: byte budget)')
        self.budget.written += n
        return self.bio.write(b)

    def seek(self, pos, whence=0):
        self.budget.tick(f'{self.letter}s{int(pos)}' + ('' if whence == 0 else f'/{whence}'))
        return self.bio.seek(pos, whence)

    def tell(self):
        self.budget.tick(f'{self.letter}t')
        return self.bio.tell()

    def close(self):
        self.budget.tick(f'{self.letter}c')

    def flush(self):
        pass

    def read(self, *a):
        return self.bio.read(*a)


def make_map(cls, budget, owned):
    from nibabel.fileholders import FileHolder
    from nibabel.openers import ImageOpener

    class OwnedHolder(FileHolder):
        """holder whose Opener owns the file object, as for a file opened by name (so it is closed)"""

        def get_prepare_fileobj(self, *a, **k):
            self.fileobj.bio.seek(0)
            self.fileobj.bio.truncate()
            o = ImageOpener(self.fileobj)
            o.me_opened = True
            return o

    fm = {}
    for key, _ in klass_of(cls).files_types:
        ff = FaultyFile(key[0], budget)
        fm[key] = OwnedHolder(fileobj=ff) if owned else FileHolder(fileobj=ff)
    return fm


def map_bytes(fm):
    return {k: fh.fileobj.bio.getvalue() for k, fh in sorted(fm.items())}


def digest(bmap):
    h = hashlib.sha1()
    for k in sorted(bmap):
        h.update(k.encode() + b':' + str(len(bmap[k])).encode() + b':' + bmap[k])
    return h.hexdigest()


# ------------------------------------------------------------------ images

def make_array(spec):
    rs = np.random.RandomState(spec.get('seed', 0))
    shape = tuple(spec['shape'])
    dt = np.dtype(spec['dt'])
    a = rs.uniform(spec['lo'], spec['hi'], size=shape)
    if dt.kind in 'iu':
        a = np.round(a)
        a.flat[0], a.flat[1] = spec['lo'], spec['hi']
    return lay_out(a.astype(dt), spec.get('layout', 'C'))


LAYOUTS = ['C', 'F', 'Fview', 'strided', 'neg', 'ro', 'Fro', 'swap', 'Fswap']


def lay_out(a, layout):
    """the same values in another memory layout: C | F (owns its Fortran-ordered memory, what get_fdata() returns) |
    Fview (transposed view of a C array) | strided (every other element of a larger array) | neg (negative
    strides) | ro / Fro (read-only) | swap / Fswap (non-native byte order)"""
    if layout == 'C':
        return a
    if layout == 'F':
        return np.asfortranarray(a) if a.ndim > 1 else a.copy()
    if layout == 'Fview':
        return np.ascontiguousarray(a.T).T
    if layout == 'strided':
        big = np.zeros(tuple(2 * n for n in a.shape), dtype=a.dtype)
        v = big[tuple(slice(None, None, 2) for _ in a.shape)]
        v[...] = a
        return v
    if layout == 'neg':
        rev = tuple(slice(None, None, -1) for _ in a.shape)
        return np.ascontiguousarray(a[rev])[rev]
    if layout in ('ro', 'Fro'):
        b = lay_out(a, 'F' if layout == 'Fro' else 'C').copy(order='K')
        b.setflags(write=False)
        return b
    if layout in ('swap', 'Fswap'):
        b = lay_out(a, 'F' if layout == 'Fswap' else 'C')
        return b.astype(b.dtype.newbyteorder('S'), order='K')
    raise ValueError(layout)


def array_memory(a):
    """(digest of the raw memory of the array that owns the data of `a`, layout of `a`) for an ndarray"""
    if not isinstance(a, np.ndarray) or isinstance(a, np.memmap):
        return None
    owner = a
    while isinstance(owner.base, np.ndarray):
        owner = owner.base
    if isinstance(owner, np.memmap) or owner.base is not None:
        return None
    return (hashlib.sha1(owner.tobytes(order='A')).hexdigest(), a.strides, a.shape, a.dtype.str,
            bool(a.flags.writeable), bool(a.flags.c_contiguous), bool(a.flags.f_contiguous))


PRIMARY = {'analyze': '.img', 'spm99': '.img', 'spm2': '.img', 'n1pair': '.img', 'n2pair': '.img',
           'n1single': '.nii', 'n2single': '.nii', 'mgh': '.mgh', 'cifti2': '.nii'}
SPELLINGS = ['abs', 'rel', 'dot', 'updir', 'symlink']
_scratch = []


def scratch_root():
    """one scratch directory per process tree, removed at exit of the process that made it"""
    import atexit
    import shutil
    if not _scratch:
        root = tempfile.mkdtemp(prefix='c07_loaded_')
        _scratch.append(root)
        pid = os.getpid()
        atexit.register(lambda: os.getpid() == pid and shutil.rmtree(root, ignore_errors=True))
    return _scratch[0]


def file_exts(cls, cext):
    if cls == 'mgh':
        return ['.mgz' if cext else '.mgh']
    return [e + cext for _, e in klass_of(cls).files_types]


def target_name(cls, stem, cext):
    return stem + ('.mgz' if (cls == 'mgh' and cext) else PRIMARY[cls] + cext)


def spelled(root, cls, stem, cext, spelling):
    """a spelling of the path of `stem` inside `root` (the process's cwd is `root` for the relative ones)"""
    name = target_name(cls, stem, cext)
    if spelling == 'abs':
        return os.path.join(root, name)
    if spelling == 'rel':
        return name
    if spelling == 'dot':
        return './' + name
    if spelling == 'updir':
        return 'sub/../' + name
    if spelling == 'symlink':
        return target_name(cls, 'link_' + stem, cext)
    raise ValueError(spelling)


def make_source(d, root):
    """write the source file(s) `vol.*` of a loaded-image configuration into `root` (+ `sub/`, symlinks)"""
    cls = d['cls']
    ld = d['load']
    cfg = {k: v for k, v in d.items() if k in ('cls', 'data', 'ext', 'aff', 'endian')}
    base = build(cfg)
    os.makedirs(os.path.join(root, 'sub'), exist_ok=True)
    base.to_filename(os.path.join(root, target_name(cls, 'vol', ld['cext'])))
    for stem in ('vol', 'other1', 'other2'):
        for e in file_exts(cls, ld['cext']):
            link = os.path.join(root, 'link_' + stem + e)
            if not os.path.lexists(link):
                os.symlink(stem + e, link)


def rewrap(cls, img, ld):
    """`load['wrap']`: a NEW image of the same class that HOLDS an array viewing the memory map of the loaded
    image's file (np.asarray(memmap), np.frombuffer(mmap), a memoryview, as_strided), same affine and header"""
    if not ld.get('wrap'):
        return img
    mm = np.asanyarray(img.dataobj)
    if not isinstance(mm, np.memmap):
        raise RuntimeError('wrap needs a memory-mapped source')
    return klass_of(cls)(wrap_array(ld['wrap'], mm), img.affine, img.header)


def build(d, harmonise=True):
    """the image described by the configuration part of `d` (fresh, deterministic)"""
    n = nib()
    cls = d['cls']
    if d.get('load'):
        # an image LOADED from a file (ArrayProxy, memory-mapped or not); in this (parent) process it is only
        # ever saved to in-memory file objects
        root = tempfile.mkdtemp(prefix='b', dir=scratch_root())
        make_source(d, root)
        img = klass_of(cls).from_filename(os.path.join(root, target_name(cls, 'vol', d['load']['cext'])),
                                          mmap=d['load']['mmap'])
        img = rewrap(cls, img, d['load'])
        if d.get('setdt'):
            img.set_data_dtype(np.dtype(d['setdt']))
        if d.get('alias'):
            img.set_data_dtype(d['alias'])
        if harmonise and cls != 'cifti2':
            img.update_header()
        elif harmonise:
            try:
                img.to_file_map(make_map(cls, Budget(), False))
            except Exception:
                pass
        return img
    arr = make_array(d['data'])
    if cls == 'cifti2':
        from nibabel.cifti2 import cifti2_axes as axes
        bm = axes.BrainModelAxis.from_mask(np.ones((2, 2, 2), bool), affine=np.eye(4))
        ser = axes.SeriesAxis(0, 1, arr.shape[0])
        img = n.Cifti2Image(arr, header=(ser, bm))
    else:
        aff = affine_of(d)
        hdr_in = None
        if d.get('endian'):
            hdr_in = hdr_class(cls)(endianness=d['endian'])
            hdr_in.set_data_dtype(arr.dtype)      # as the constructor does when it makes the header itself
        img = klass_of(cls)(arr, None if aff is None else np.array(aff, dtype=np.float64), header=hdr_in)
        if d.get('xflip') is not None:
            # documented, valid, non-default header configuration (analyze.py:68-80): no implicit L/R flip
            img.header.default_x_flip = bool(d['xflip'])
    hdr = header_of(cls, img)
    for i in range(d.get('ext', 0)):
        hdr.extensions.append(n.nifti1.Nifti1Extension('comment', EXTS[i]))
    if d.get('setdt'):
        img.set_data_dtype(np.dtype(d['setdt']))
    if d.get('alias'):
        img.set_data_dtype(d['alias'])
    if d.get('slope') is not None:
        s, i = d['slope']
        hdr.set_slope_inter(s, i)
    if d.get('offset') is not None:
        hdr.set_data_offset(d['offset'])
    if harmonise:
        if cls == 'cifti2':
            # the first save normalises intent / pixdim / CIFTI extension of the NIfTI-2 header
            try:
                img.to_file_map(make_map(cls, Budget(), False))
            except Exception:
                pass
        else:
            img.update_header()
    return img


def affine_of(d):
    """the affine of the configuration: default AFF, a 4x4 integer matrix, or None (`affine=None`)"""
    a = d.get('aff', 'default')
    if a == 'default':
        return AFF
    if a is None or a == 'none':
        return None
    return a


AFF_DYADIC = 64


def _is_int_aff(a):
    return a is None or a in ('none', 'default') or all(float(v) == int(v) for row in a for v in row)


def aff_scale(d):
    """SPM classes (the model computes the `.mat` matrices from the affine): 1 when every affine of the history is
    integer-valued, else AFF_DYADIC — the affines are multiples of 1/64, the model works on 64·A, which is exact
    because M and mat are LINEAR in A and float64 products of such numbers are exact. Other classes: 0 = the affine
    enters the model only through its identity, entries are passed as raw float64 bit patterns."""
    affs = [d.get('aff', 'default')] + [op[2] for op in d.get('ops', []) if op[0] == 'E' and op[1] == 'aff']
    if all(_is_int_aff(a) for a in affs):
        return 1
    return AFF_DYADIC if d['cls'] in ('spm99', 'spm2') else 0


def aff_tok(a, scale):
    """16 integers standing for the 4x4 float affine `a` under `aff_scale`"""
    flat = [float(v) for row in a for v in row]
    if scale == 0:
        return ','.join(str(int.from_bytes(np.float64(v).tobytes(), 'little')) for v in flat)
    if any(v * scale != int(v * scale) for v in flat):
        raise ValueError('affine is not a multiple of 1/%d' % scale)
    return ','.join(str(int(v * scale)) for v in flat)


def aff_token(d):
    if d['cls'] == 'cifti2':
        return '-'
    a = affine_of(d)
    if a is None:
        return '-'
    return aff_tok(a, aff_scale(d))


def xflip_of(cls, hdr):
    return 1 if bool(getattr(hdr, 'default_x_flip', True)) else 0


def header_of(cls, img):
    return img.nifti_header if cls == 'cifti2' else img.header


def bits(v):
    a = np.array(v)
    if np.isnan(a):
        return 'n'
    a = a.astype(a.dtype.newbyteorder('<'))
    return str(int.from_bytes(a.tobytes(), 'little'))


def hdr_fields(cls, hdr):
    names = hdr.template_dtype.names if hasattr(hdr, 'template_dtype') else ()
    sl = bits(hdr['scl_slope']) if 'scl_slope' in names else 'n'
    it = bits(hdr['scl_inter']) if 'scl_inter' in names else 'n'
    return int(hdr.get_data_offset()), int(hdr[dt_field(cls)]), sl, it


def alias_of(img):
    a = getattr(img, '_dtype_alias', None)
    return {None: '-', 'compat': 'c', 'smallest': 's'}.get(a, '?')


def full_state(cls, img):
    """everything the property says a save must not change"""
    hdr = header_of(cls, img)
    st = {'header bytes': bytes(hdr.binaryblock), 'get_data_dtype()': str(img.get_data_dtype()),
          'alias': alias_of(img), 'data': hashlib.sha1(np.asanyarray(img.dataobj).tobytes()).hexdigest(),
          'data dtype': str(np.asanyarray(img.dataobj).dtype), 'fields': hdr_fields(cls, hdr)}
    aff = getattr(img, '_affine', None)
    st['affine'] = None if aff is None else np.asarray(aff).tobytes()
    st['header.default_x_flip'] = xflip_of(cls, hdr)
    # the image's OWN array object: same object, same memory (bit-exact, including the elements of the owning
    # array that the image does not show), same strides / byte order / flags
    st['dataobj is the same object'] = id(getattr(img, '_dataobj', None))
    st['memory and layout of the image\'s array'] = array_memory(getattr(img, '_dataobj', None))
    exts = getattr(hdr, 'extensions', None)
    if exts is not None:
        st['extensions'] = repr([(e.get_code(), e.get_sizeondisk()) for e in exts])
    return st


OBJECT_KEYS = ('dataobj is the same object', "memory and layout of the image's array")
HDR_EDITS = ['descrip', 'zooms', 'zooms2', 'dbname']


def apply_edit(cls, img, op):
    """an in-place edit of the image between saves: ['E', 'aff', <4x4 ints>] = `img.affine[...] = …` (the
    array object stays the same), ['E', 'hdr', <name>] = a header edit"""
    hdr = header_of(cls, img)
    if op[1] == 'aff':
        img.affine[...] = np.array(op[2], dtype=np.float64)
    elif op[1] == 'hdr':
        if op[2] == 'descrip' and cls != 'mgh':
            hdr['descrip'] = b'edited by C07'
        elif op[2] == 'dbname' and cls in ANALYZE_FAMILY:
            hdr['db_name'] = b'c07'
        elif op[2] in ('zooms', 'zooms2'):
            z = list(hdr.get_zooms())
            n = min(len(z), 3)
            z[:n] = ([7.0, 6.0, 5.0] if op[2] == 'zooms' else [1.0, 1.0, 1.0])[:n]
            hdr.set_zooms(z)
    else:
        raise ValueError(op)


def rest_digest(cls, hdr):
    """digest of the header bytes OTHER than the consumables (offset, dtype, slope, inter)"""
    h = hdr.copy()
    h.set_data_dtype(np.float32)
    if cls != 'mgh':
        h.set_data_offset(0)
        h.set_slope_inter(None, None)
    return hashlib.sha1(bytes(h.binaryblock)).hexdigest()


def edit_plan(d):
    """for every E op: (affine token or '=', id of the non-consumable header bytes right after the edit, id that
    update_header() would turn them into or '-'), obtained by replaying the history on a scratch image"""
    import copy
    cls = d['cls']
    if not any(op[0] == 'E' for op in d['ops']):
        return {}
    img = build(d)
    seen = {}
    first_seen(seen, rest_digest(cls, header_of(cls, img)))
    plan = {}
    for j, op in enumerate(d['ops']):
        if op[0] == 'E':
            apply_edit(cls, img, op)
            now = first_seen(seen, rest_digest(cls, header_of(cls, img)))
            c = copy.deepcopy(img)
            c.update_header()
            pend = first_seen(seen, rest_digest(cls, header_of(cls, c)))
            tok = '='
            if op[1] == 'aff':
                tok = aff_tok(op[2], aff_scale(d))
            plan[j] = (tok, now, '-' if pend == now else pend)
        elif op[0] in ('S', 'OS', 'N'):
            # a healthy save of the scratch image: harmonises exactly when the real save gets as far as
            # update_header() (not when the alias resolution / the MGH dtype= check raises first)
            do_save(cls, img, False, op[1])
        elif op[0] in ('D', 'A'):
            try:
                img.set_data_dtype(np.dtype(op[1]) if op[0] == 'D' else op[1])
            except Exception:
                pass
    return plan


def canon_err(e):
    name = type(e).__name__
    if name == 'MGHError':
        name = 'HeaderDataError'
    if isinstance(e, OSError):
        name = 'OSError'
    from nibabel.arraywriters import WriterError
    if isinstance(e, WriterError):
        name = 'WriterError'          # ScalingError is a WriterError
    return 'ERR:' + name


def parse_dt(dt):
    return dt if dt in ('compat', 'smallest') else np.dtype(dt)


def config_key(d):
    return (d['cls'], repr(sorted(d['data'].items())), d.get('ext', 0), d.get('setdt'), d.get('alias'),
            repr(d.get('slope')), d.get('offset'), repr(d.get('aff', 'default')), d.get('xflip'), d.get('endian'),
            repr(d.get('load')))


def base_config(d):
    """configuration without alias / explicit slope / explicit offset / affine (for writer externals)"""
    out = {'cls': d['cls'], 'data': d['data'], 'ext': d.get('ext', 0)}
    for k in ('endian', 'load'):
        if d.get(k) is not None:
            out[k] = d[k]
    return out


def do_save(cls, img, owned, dt=None, fail_at=None, byte_budget=None):
    budget = Budget(fail_at, byte_budget)
    fm = make_map(cls, budget, owned)
    kw = {} if dt is None else {'dtype': parse_dt(dt)}
    try:
        img.to_file_map(fm, **kw)
        res = 'ok'
    except Exception as e:
        res = canon_err(e)
    return res, budget, fm


# ------------------------------------------------------------------ externals of the model (clean reference runs)

_ext_cache = {}


def split_log(cls, log):
    """(ext pairs, data write sizes, trailing sizes) from the I/O log of a clean save"""
    seeks = [i for i, c in enumerate(log) if c[0] == 'i' and c[1] == 's']
    at = seeks[-2] if cls == 'mgh' else seeks[-1]
    dw = []
    j = at + 1
    while j < len(log) and log[j].startswith('iw'):
        dw.append(int(log[j][2:]))
        j += 1
    if cls == 'mgh':
        trailing = [int(c[2:]) for c in log[j:] if c.startswith('iw')]
    else:
        trailing = [int(c[2:]) for c in log if c.startswith('mw')]
    exts = []
    hl = 'i' if len(klass_of(cls).files_types) == 1 else 'h'
    pre = log[:at]
    if hl + 'w4' in pre:
        rest = pre[pre.index(hl + 'w4') + 1:]
        i = 0
        while i < len(rest) and rest[i] == hl + 't':
            content = int(rest[i + 2][2:])
            if i + 4 < len(rest) and rest[i + 4].startswith(hl + 'w'):
                exts.append((content, int(rest[i + 4][2:])))
                i += 5
            else:
                exts.append((content, 0))
                i += 4
    return exts, dw, trailing


def writer_entry(d, code_name):
    """externals for out dtype `code_name`: (wok, slope bits, inter bits, nWrites, wBytes, exts, trailing)"""
    cls = d['cls']
    key = (config_key(base_config(d)), code_name)
    if key in _ext_cache:
        return _ext_cache[key]
    hc = hdr_class(cls)
    has_slope = bool(getattr(hc, 'has_data_slope', False))
    has_inter = bool(getattr(hc, 'has_data_intercept', False))
    img = build(dict(base_config(d), setdt=code_name))
    res, budget, fm = do_save(cls, img, False)
    wok = res == 'ok'
    # HeaderDataError here (no explicit offset, supported dtype) can only be `hdr.set_slope_inter(computed
    # slope, inter)` refusing a slope that is 0 / infinite in the header's float32 field — inside the `try:`
    slope_raises = res == 'ERR:HeaderDataError'
    sl = it = 'n'
    if wok:
        bmap = map_bytes(fm)
        hb = bmap['header'] if 'header' in bmap else bmap['image']
        if cls != 'mgh':
            tdt = hc.template_dtype.newbyteorder(d['endian']) if d.get('endian') else hc.template_dtype
            rec = np.frombuffer(hb[:hc.sizeof_hdr], dtype=tdt)[0]
            names = hc.template_dtype.names
            sl = bits(rec['scl_slope']) if has_slope and 'scl_slope' in names else 'n'
            it = bits(rec['scl_inter']) if has_inter and 'scl_inter' in names else 'n'
    elif has_slope:
        img = build(dict(base_config(d), setdt=code_name, slope=[1.0, 0.0 if has_inter else None]))
        res, budget, fm = do_save(cls, img, False)
    if res == 'ok':
        exts, dw, trailing = split_log(cls, budget.log)
        if len(set(dw)) > 1:
            raise RuntimeError(f'data writes of unequal size {dw}')
        ent = (2 if slope_raises else int(wok), sl, it, len(dw), dw[0] if dw else 0, exts, trailing)
    else:
        ent = (2 if slope_raises else 0, 'n', 'n', 0, 0, None, None)
    _ext_cache[key] = ent
    return ent


def resolve_of(d):
    cls = d['cls']
    key = (config_key(base_config(d)), 'resolve')
    if key in _ext_cache:
        return _ext_cache[key]
    out = []
    for alias in ('compat', 'smallest'):
        if cls in NIFTI or cls == 'cifti2':
            k = klass_of('n2single' if cls == 'cifti2' else cls)
            arr = make_array(d['data'])
            try:
                im = k(arr, np.eye(4), dtype=arr.dtype) if arr.dtype.itemsize == 8 and arr.dtype.kind in 'iu' else k(arr, np.eye(4))
                im.set_data_dtype(alias)
                out.append(str(int(NIFTI_CODES[np.dtype(im.get_data_dtype(finalize=True)).name])))
            except ValueError:
                out.append('x')
        else:
            out.append('x')
    _ext_cache[key] = ','.join(out)
    return _ext_cache[key]


def needed_dtnames(d):
    names = set()
    if d.get('setdt'):
        names.add(d['setdt'])
    else:
        names.add(np.dtype(d['data']['dt']).name)
    for op in d['ops']:
        if op[0] == 'D':
            names.add(op[1])
        elif op[0] in ('S', 'OS', 'N') and op[1] and op[1] not in ('compat', 'smallest'):
            names.add(op[1])
    # what the aliases resolve to
    inv = {v: k for k, v in NIFTI_CODES.items()}
    for c in resolve_of(d).split(','):
        if c != 'x':
            names.add(inv[int(c)])
    return sorted(names)


def protocol_line(d):
    cls = d['cls']
    img = build(d)
    off, dtc, sl, it = hdr_fields(cls, header_of(cls, img))
    hc = hdr_class(cls)
    supported = set()
    entries, exts, trailing = [], None, None
    for name in needed_dtnames(d):
        code = code_of(cls, name)
        try:
            hc().set_data_dtype(np.dtype(name))
        except Exception:
            continue
        wok, s, i, nw, wb, ex, tr = writer_entry(d, name)
        entries.append(f'{code}:{int(wok)}:{s}:{i}:{nw}:{wb}')
        if ex is not None and exts is None:
            exts, trailing = ex, tr
    if exts is None:
        # no reference save succeeded for the needed dtypes: take sizes from a float32 reference
        _, _, _, _, _, exts, trailing = writer_entry(d, 'float32')
        exts, trailing = exts or [], trailing or []
    ops = []
    plan = edit_plan(d)
    for jop, op in enumerate(d['ops']):
        if op[0] == 'E':
            ops.append('E:%s:%s:%s' % plan[jop])
            continue
        if op[0] in ('S', 'OS'):
            _, dt, fault, fm = op[:4]
            dts = '-' if dt is None else ('ac' if dt == 'compat' else 'as' if dt == 'smallest' else
                                          'c%d' % code_of(cls, dt))
            fs = '-' if fault is None else f'{fault[0]}{fault[1]}'
            ops.append(f'{op[0]}:{dts}:{fs}:{"-" if fm is None else fm}')
        elif op[0] == 'D':
            ops.append('D:%d' % code_of(cls, op[1]))
        elif op[0] == 'A':
            ops.append('A:' + op[1][0])
        elif op[0] == 'N':
            dt, target = op[1], op[2]
            fault = op[4] if len(op) > 4 else None
            dts = '-' if dt is None else ('ac' if dt == 'compat' else 'as' if dt == 'smallest' else
                                          'c%d' % code_of(cls, dt))
            fs = '-' if fault is None else f'{fault[0]}{fault[1]}'
            # identity of the destination image file: 1 = the file the image was loaded from, however spelled
            ops.append(f'S:{dts}:{fs}:{len(ops) + 1}:{1 if target == "self" else 0}')
        else:
            raise ValueError(op)
    src = 'a'
    if d.get('load') and d['load'].get('wrap'):
        src = 'v1:' + ','.join(owner_chain(np.asanyarray(img.dataobj)))
    elif d.get('load'):
        src = ('m1' if isinstance(np.asanyarray(img.dataobj), np.memmap) else 'r1')
    return ('C07 {cmd} {cls} {owned} {off},{dt},{sl},{it} {alias} {aff} {xflip} {src} {exts} {mat} {res} {table} {ops}'.format(
        cmd={'lrun': 'runq', 'nrun': 'runn'}.get(d.get('op'), 'run'),
        cls=cls, owned=int(d['owned']), off=off, dt=dtc, sl=sl, it=it, alias=alias_of(img),
        aff=aff_token(d), xflip=xflip_of(cls, header_of(cls, img)), src=src,
        exts=','.join(f'{a}:{b}' for a, b in exts) or '-', mat=','.join(map(str, trailing)) or '-',
        res=resolve_of(d), table=';'.join(entries) or '-', ops=';'.join(ops)))


# ------------------------------------------------------------------ cases

def gz_path(d):
    return os.path.join(scratch_root(), 'gz', d['dir'], d['name'])


def mk_case(d, stream):
    d = dict(d)
    d.setdefault('op', 'run')
    d['stream'] = stream
    if d['op'] == 'byname':
        return Case(None, d, ('byname', d['cls'], d['cext'], d.get('setdt'), d.get('n', 2), d['data'].get('layout')),
                    stream)
    if d['op'] == 'gzhdr':
        line = 'C07 gzhdr {kind} {level} {mtime} {clock} {path}'.format(
            kind=d['kind'], level=d['level'], mtime=d.get('mtime', 0), clock=d['clock'],
            path=','.join(str(b) for b in gz_path(d).encode('latin-1')))
        return Case(line, d, ('gzhdr', d['kind'], d['level'], d['clock'], d['name'], d.get('mtime', 0)), stream)
    if d['op'] == 'wdata':
        line = 'C07 wdata ' + ' '.join(str(int(b)) for b in d['flags'])
        return Case(line, d, ('wdata', tuple(d['flags']), d['layout'], tuple(d['shape']), d['order']), stream)
    if d['op'] == 'mapsfile':
        try:
            line = mapsfile_line(d)
        except Exception as e:
            line = 'C07 gen-failed ' + type(e).__name__
        return Case(line, d, ('mapsfile', d['wrap'], d['mode'], d['dt'], d['order'], d['offset']), stream)
    if d['op'] == 'matload':
        try:
            line = matload_line(d)
        except Exception as e:
            line = 'C07 gen-failed ' + type(e).__name__
        return Case(line, d, ('matload', d['cls'], repr(d['aff']), d['flipw'], d['flipr'], d['keys']), stream)
    try:
        line = protocol_line(d)
    except Exception as e:           # generator problem: surfaces as a driver disagreement (`bad-op`)
        line = 'C07 gen-failed ' + type(e).__name__
    if d['op'] == 'nrun' and d.get('cext') in ('.bz2', '.zst'):
        # BZ2File / ZstdFile do not support seek() when writing: `seek_tell` takes its absorb path (seek raises,
        # tell() agrees) on EVERY save, which the model's healthy sink does not do — oracle only for these sinks
        line = None
    nontrivial = any((op[0] in ('S', 'OS') and (op[1] or op[2])) or op[0] in ('D', 'A', 'N', 'E') for op in d['ops']) \
        or d.get('alias')
    key = (config_key(d), d['owned'], repr(d['ops']), d.get('cext')) if nontrivial else None
    return Case(line, d, key, stream)


def case_from_data(d):
    return mk_case(d, d.get('stream', 'corpus'))


def default_data(cls, kind='f8'):
    if cls == 'cifti2':
        shape = [3, 8]
    else:
        shape = [5, 4, 3]
    if kind == 'f8':
        lo, hi = (10, 900) if cls in ('spm99', 'spm2') else (-300, 900)
        return {'dt': 'float64', 'shape': shape, 'lo': lo, 'hi': hi, 'seed': 42}
    if kind == 'f4':
        return {'dt': 'float32', 'shape': shape, 'lo': -5, 'hi': 5, 'seed': 7}
    if kind == 'i8small':
        return {'dt': 'int64', 'shape': shape, 'lo': 0, 'hi': 200, 'seed': 3}
    if kind == 'i8mid':
        return {'dt': 'int64', 'shape': shape, 'lo': -1000, 'hi': 30000, 'seed': 3}
    if kind == 'i2':
        return {'dt': 'int16', 'shape': shape, 'lo': -3000, 'hi': 3000, 'seed': 5}
    if kind == 'u1':
        return {'dt': 'uint8', 'shape': shape, 'lo': 0, 'hi': 255, 'seed': 5}
    if kind == 'denorm':      # float64 denormals: the scale factor underflows to 0 in the header's float32 field
        return {'dt': 'float64', 'shape': shape, 'lo': 0.0, 'hi': 2e-320, 'seed': 9}
    if kind == 'huge':        # range overflows float32: slope inf (SPM: HeaderDataError) / ScalingError (NIfTI)
        return {'dt': 'float64', 'shape': shape, 'lo': 0.0, 'hi': 1.7e308, 'seed': 9}
    raise ValueError(kind)


def layout_configs(cls, tier, rng):
    """configurations that vary the MEMORY LAYOUT of the image's own array (crossed with a save that has to
    scale / cast it): the array the image holds must be bit-for-bit what it was after every save, failed or not.
    (name, configuration, dtype= override); names start with `layout:`"""
    others = [l for l in LAYOUTS if l not in ('C', 'F')]
    if tier == 'quick':
        lays = ['F', others[rng.randrange(len(others))]]
    else:
        lays = LAYOUTS[1:]
    slope = cls in NIFTI or cls in ('spm99', 'spm2')
    out = []
    for i, lay in enumerate(lays):
        f8 = dict(default_data(cls, 'f8'), layout=lay)
        f4 = dict(default_data(cls, 'f4'), layout=lay)
        if slope:
            out.append((f'layout:{lay} f8->i2', {'data': f8, 'setdt': 'int16'}, None))
            if tier != 'quick' or i == 0:
                out.append((f'layout:{lay} f4,dtype=u1', {'data': f8 if cls in ('spm99', 'spm2') else f4}, 'uint8'))
        elif cls == 'cifti2':
            out.append((f'layout:{lay} f8,dtype=i2', {'data': f8}, 'int16'))
        elif cls == 'analyze':
            out.append((f'layout:{lay} f8,dtype=f4', {'data': f8}, 'float32'))
        else:
            out.append((f'layout:{lay} f4', {'data': f4}, None))
            if tier != 'quick':
                out.append((f'layout:{lay} i2 as f4', {'data': dict(default_data(cls, 'i2'), layout=lay),
                                                        'setdt': 'float32'}, None))
    # … and non-integer affines (multiples of 1/64; a general oblique one where the model does not compute with it)
    if cls != 'cifti2':
        for i, (name, cfg, dt) in enumerate(out):
            cfg['aff'] = float_affs(cls)[0] if i % 2 == 0 else float_affs(cls)[-1]
    # 1-D and singleton-dimension arrays (the writer squeezes / promotes them before it loops over slices)
    if cls != 'cifti2' and (tier != 'quick' or cls in ('n1single', 'spm99', 'mgh')):
        for shape in ([7], [1, 5, 1]):
            lay = 'F' if len(shape) > 1 else rng.choice(['C', 'neg', 'strided'])
            kind = 'f8' if slope else 'f4'
            cfg = {'data': dict(default_data(cls, kind), shape=shape, layout=lay)}
            if slope:
                cfg['setdt'] = 'int16'
            out.append((f'layout:{lay} shape {shape}', cfg, None))
    return out


def configs(cls, tier):
    """(name, configuration dict, dtype= override of the faulted save)"""
    out = []
    if cls == 'mgh':
        out.append(('f4', {'data': default_data(cls, 'f4')}, None))
        if tier != 'quick':
            out.append(('i2', {'data': default_data(cls, 'i2')}, None))
            out.append(('i2-as-f4', {'data': default_data(cls, 'i2'), 'setdt': 'float32'}, None))
        return out
    if cls == 'analyze':
        out.append(('f4', {'data': default_data(cls, 'f4')}, None))
        out.append(('f8,dtype=f4', {'data': default_data(cls, 'f8')}, 'float32'))
        out.append(('f4 no x flip, sheared affine, big-endian header',
                    {'data': default_data(cls, 'f4'), 'xflip': False, 'aff': AFFS[1], 'endian': '>'}, None))
        if tier != 'quick':
            out.append(('f4 affine None', {'data': default_data(cls, 'f4'), 'aff': None}, None))
            out.append(('i2', {'data': default_data(cls, 'i2')}, None))
            out.append(('f8->i2 (WriterError)', {'data': default_data(cls, 'f8'), 'setdt': 'int16'}, None))
        return out
    if cls == 'cifti2':
        out.append(('f8', {'data': default_data(cls, 'f8')}, None))
        out.append(('f8,dtype=i2', {'data': default_data(cls, 'f8')}, 'int16'))
        if tier != 'quick':
            out.append(('f8,set f4', {'data': default_data(cls, 'f8'), 'setdt': 'float32'}, None))
            out.append(('i8,dtype=compat', {'data': default_data(cls, 'i8small')}, 'compat'))
        return out
    out.append(('f8->i2', {'data': default_data(cls, 'f8'), 'setdt': 'int16'}, None))
    out.append(('f8,dtype=i2', {'data': default_data(cls, 'f8')}, 'int16'))
    if cls in ('spm99', 'spm2'):
        # header configuration `default_x_flip = False` (the .mat arithmetic takes the other branch)
        out.append(('f8->i2 no x flip, sheared affine',
                    {'data': default_data(cls, 'f8'), 'setdt': 'int16', 'xflip': False, 'aff': AFFS[1]}, None))
        out.append(('f4 affine None (no .mat)', {'data': default_data(cls, 'f4'), 'aff': None}, None))
        if tier != 'quick' or cls == 'spm2':
            out.append(('f8->i2 big-endian header, permuted affine',
                        {'data': default_data(cls, 'f8'), 'setdt': 'int16', 'endian': '>', 'aff': AFFS[3]}, None))
        if tier != 'quick':
            out.append(('f4 no x flip, general affine, dtype=u1',
                        {'data': default_data(cls, 'f4'), 'xflip': False, 'aff': AFFS[4]}, 'uint8'))
            out.append(('f8->i2 explicit flip flag True, flipped affine',
                        {'data': default_data(cls, 'f8'), 'setdt': 'int16', 'xflip': True, 'aff': AFFS[2]}, None))
    # `hdr.set_slope_inter(*get_slope_inter(arr_writer))` raises HeaderDataError inside the `try:` (files open)
    out.append(('f8 denormals->i2 (set_slope_inter raises)', {'data': default_data(cls, 'denorm'), 'setdt': 'int16'}, None))
    if tier != 'quick' or cls in ('spm99', 'n1single'):
        out.append(('f8 huge->i2', {'data': default_data(cls, 'huge'), 'setdt': 'int16'}, None))
        out.append(('f8 denormals,dtype=u1', {'data': default_data(cls, 'denorm')}, 'uint8'))
    if cls in ('n1pair', 'n2single'):
        out.append(('f8->i2 big-endian header, sheared affine',
                    {'data': default_data(cls, 'f8'), 'setdt': 'int16', 'endian': '>', 'aff': AFFS[1]}, None))
    elif cls in NIFTI and tier != 'quick':
        out.append(('f8->i2 big-endian header, general affine',
                    {'data': default_data(cls, 'f8'), 'setdt': 'int16', 'endian': '>', 'aff': AFFS[4]}, None))
    if cls in NIFTI:
        out.append(('f8->i2+ext', {'data': default_data(cls, 'f8'), 'setdt': 'int16', 'ext': 2}, None))
        out.append(('i8 alias smallest', {'data': default_data(cls, 'i8small'), 'alias': 'smallest'}, None))
        if tier != 'quick':
            out.append(('i8 alias compat', {'data': default_data(cls, 'i8mid'), 'alias': 'compat'}, None))
            out.append(('f8 alias compat,dtype=u1', {'data': default_data(cls, 'f8'), 'alias': 'compat'}, 'uint8'))
            out.append(('f8 explicit slope', {'data': default_data(cls, 'f8'), 'setdt': 'int16', 'slope': [2.0, 1.0]}, None))
            out.append(('f8->i2 offset', {'data': default_data(cls, 'f8'), 'setdt': 'int16',
                                          'offset': 400 if cls in ('n1single',) else 608 if cls == 'n2single' else 64}, None))
            out.append(('f8->i2 +3ext', {'data': default_data(cls, 'f8'), 'setdt': 'int16', 'ext': 3}, None))
            if cls in ('n1single', 'n2single'):
                out.append(('offset too small', {'data': default_data(cls, 'f8'), 'offset': 16}, 'int16'))
            out.append(('f4 alias smallest (ValueError)', {'data': default_data(cls, 'f4'), 'alias': 'smallest'}, None))
    else:
        if tier != 'quick':
            out.append(('f8 explicit slope', {'data': default_data(cls, 'f8'), 'setdt': 'int16', 'slope': [2.0, None]}, None))
            out.append(('f4', {'data': default_data(cls, 'f4')}, None))
            out.append(('f8->u1', {'data': default_data(cls, 'f8'), 'setdt': 'uint8'}, None))
    return out


_clean_cache = {}


def clean_calls(d, owned, dt):
    """I/O log of a clean save of the configured image (number of fault points)"""
    key = (config_key(d), owned, dt)
    if key not in _clean_cache:
        img = build(d)
        res, budget, fm = do_save(d['cls'], img, owned, dt)
        _clean_cache[key] = (budget.count, sum(len(b) for b in map_bytes(fm).values()))
    return _clean_cache[key]


def rand_history(rng, cls, tier):
    kinds = {'mgh': ['f4', 'i2', 'u1'], 'analyze': ['f4', 'i2', 'f8', 'u1'], 'cifti2': ['f8', 'f4', 'i8small'],
             'spm99': ['f8', 'f4', 'i2', 'u1'], 'spm2': ['f8', 'f4', 'i2', 'u1']}.get(
        cls, ['f8', 'f4', 'i2', 'i8small', 'i8mid', 'u1'])
    kind = rng.choice(kinds)
    d = {'cls': cls, 'owned': rng.random() < 0.5, 'data': default_data(cls, kind)}
    d['data'] = dict(d['data'], seed=rng.randrange(1000))
    if rng.random() < 0.6:
        d['data']['layout'] = rng.choice(LAYOUTS[1:])
    if cls != 'cifti2' and tier != 'quick' and rng.random() < 0.4:
        d['data']['shape'] = rng.choice([[2, 3, 4], [3, 3, 2, 2], [4, 2, 3]] + ([] if cls == 'mgh' else [[6, 5]]))
    if cls in NIFTI and rng.random() < 0.3:
        d['ext'] = rng.choice([1, 2, 3])
    if cls != 'cifti2':
        q = rng.random()
        if q < 0.45:
            d['aff'] = rng.choice(AFFS + float_affs(cls))
        elif q < 0.6 and cls in ANALYZE_FAMILY:
            d['aff'] = None
        if cls in ANALYZE_FAMILY and rng.random() < 0.5:
            d['xflip'] = rng.random() < 0.3
        if cls != 'mgh' and rng.random() < 0.25:
            d['endian'] = rng.choice(['>', '<'])
    r = rng.random()
    supported = [n for n in DTNAMES if code_of(cls, n) in (NIFTI_CODES.values() if cls != 'mgh' else (0, 1, 3, 4))
                 and _supported(cls, n)]
    if r < 0.4:
        d['setdt'] = rng.choice(supported)
    elif r < 0.6 and cls in NIFTI:
        d['alias'] = rng.choice(['compat', 'smallest'])
    if cls not in ('mgh', 'analyze', 'cifti2') and rng.random() < 0.15:
        d['slope'] = [rng.choice([2.0, 0.5, 1.0]), rng.choice([1.0, 0.0]) if cls in NIFTI else None]
    if cls in ('n1single', 'n2single') and rng.random() < 0.15:
        d['offset'] = rng.choice([16, 352, 400, 544, 560, 1024])
    elif cls in ('n1pair', 'n2pair', 'analyze', 'spm99') and rng.random() < 0.1:
        d['offset'] = rng.choice([16, 64])
    ops = []
    fm = 0
    for _ in range(rng.randrange(2, 8)):
        r = rng.random()
        if r < 0.6:
            fm += 1
            dt = None
            if rng.random() < 0.45:
                dt = rng.choice(DTNAMES + ['compat', 'smallest'])
            fault = None
            q = rng.random()
            if q < 0.45:
                fault = ['k', rng.randrange(1, 22)]
            elif q < 0.6:
                fault = ['b', rng.randrange(0, 1600)]
            ops.append(['S', dt, fault, None if rng.random() < 0.15 else len(ops) + 1])
        elif r < 0.68 and cls != 'cifti2' and d.get('aff', 'default') is not None:
            if rng.random() < 0.5:
                ops.append(['E', 'aff', rng.choice(AFFS + float_affs(cls))])
            else:
                ops.append(['E', 'hdr', rng.choice(HDR_EDITS)])
        elif r < 0.85:
            ops.append(['D', rng.choice(DTNAMES)])
        else:
            ops.append(['A', rng.choice(['compat', 'smallest'])])
    if not any(op[0] == 'S' for op in ops):
        ops.append(['S', None, None, len(ops) + 1])
    d['ops'] = ops
    return d


def loaded_cases(rng, tier):
    out = []
    for cls in CLASSES:
        kinds = ['f4', 'i2'] if tier == 'quick' else ['f4', 'i2', 'u1']
        if cls == 'cifti2':
            kinds = ['f4']
        for mmap in (True, False):
            for cext in ('', '.gz'):
                if cext and (cls == 'cifti2' or ((mmap or tier == 'quick') and not (cls in ('n1single', 'mgh') and not mmap))):
                    continue
                for kind in kinds:
                    base = {'op': 'lrun', 'cls': cls, 'owned': True, 'data': default_data(cls, kind),
                            'load': {'cext': cext, 'mmap': mmap, 'spell': rng.choice(['abs', 'rel', 'dot'])}}
                    if cls in ANALYZE_FAMILY + NIFTI and rng.random() < 0.5:
                        base['aff'] = rng.choice(AFFS + float_affs(cls))
                    # every spelling of the source path as the destination of a self-overwrite, each followed by a
                    # save elsewhere (reads the image's data again) and a second self-overwrite
                    spells = SPELLINGS if (tier != 'quick' or kind == kinds[0]) else [rng.choice(SPELLINGS)]
                    for sp in spells:
                        ops = [['N', None, 'self', sp], ['N', None, 'other1', rng.choice(SPELLINGS)],
                               ['N', None, 'self', rng.choice(SPELLINGS)], ['N', None, 'other2', 'abs']]
                        out.append(mk_case(dict(base, ops=ops), 'loaded'))
                    # an image HOLDING a view of the source's memory map (made in several ways), saved onto that file
                    if mmap and not cext and cls != 'cifti2' and kind == kinds[0]:
                        wraps = IMG_WRAPS if tier != 'quick' else [IMG_WRAPS[(CLASSES.index(cls) + rng.randrange(4)) % 4]]
                        for wr in wraps:
                            wbase = dict(base, load=dict(base['load'], wrap=wr))
                            for sp in (SPELLINGS if tier != 'quick' else [rng.choice(SPELLINGS)]):
                                ops = [['N', None, 'self', sp], ['N', None, 'other1', 'rel'],
                                       ['N', None, 'self', rng.choice(SPELLINGS)]]
                                out.append(mk_case(dict(wbase, ops=ops), 'loaded'))
                    # saves elsewhere first (dtype= overrides allowed), then onto the source
                    n = 1 if tier == 'quick' else 3
                    for _ in range(n):
                        ops = []
                        for _ in range(rng.randrange(1, 4)):
                            dt = rng.choice([None, None, 'int16', 'float32', 'uint8']) if cls != 'mgh' else None
                            ops.append(['N', dt, rng.choice(['other1', 'other2']), rng.choice(SPELLINGS)])
                        ops.append(['N', None, 'self', rng.choice(SPELLINGS)])
                        ops.append(['N', None, 'other1', 'rel'])
                        out.append(mk_case(dict(base, ops=ops), 'loaded'))
    return out


def nrun_cases(rng, tier):
    """saves BY NAME with a fault at EVERY I/O call index of a clean save (and byte budgets), per class x plain /
    compressed destination x save API x configuration (scaling, memory layout of the array), each followed by a
    healthy save under another name at another time and a retry onto the partially written destination"""
    out = []
    cexts = ['', '.gz'] if tier == 'quick' else ['', '.gz', '.bz2', '.zst']
    for cls in CLASSES:
        cfgs, lcf = configs(cls, tier), layout_configs(cls, tier, rng)
        chosen = [cfgs[0], lcf[0]] if tier == 'quick' else cfgs[:4] + lcf[:3]
        for ci, (name, cfg, dt) in enumerate(chosen):
            for xi, cext in enumerate(cexts):
                if (cls == 'mgh' and cext in ('.bz2', '.zst')) or (cls == 'cifti2' and cext):
                    continue          # not valid file names for these classes
                if tier == 'quick' and ci == 1 and cext == '' and cls != 'cifti2':
                    continue
                d0 = dict(cfg, cls=cls, owned=True, op='nrun', cext=cext)
                n, nbytes = clean_calls(dict(cfg, cls=cls, owned=True, ops=[]), True, dt)
                for k in range(1, n + 2):
                    api, api2 = NRUN_APIS[(k + ci + xi) % 3], NRUN_APIS[(k + ci + xi + 1) % 3]
                    ops = [['N', dt, 'first', api, ['k', k]], ['N', dt, 'other_name', api2, None],
                           ['N', dt, 'first', api, None]]
                    if k % 3 == 0:
                        ops.append(['N', None, 'third', 'to_filename', None])
                    out.append(mk_case(dict(d0, ops=ops), 'nrun'))
                budgets = {0, 347, 352, max(nbytes - 1, 0)} if tier == 'quick' else \
                    set(range(0, nbytes + 40, 97)) | {347, 348, 352, 540, 544, max(nbytes - 1, 0), nbytes}
                if tier == 'quick' and (ci or xi):
                    budgets = {rng.choice(sorted(budgets))}
                for b in sorted(budgets):
                    ops = [['N', dt, 'first', rng.choice(NRUN_APIS), ['b', b]], ['N', dt, 'second', 'save', None]]
                    out.append(mk_case(dict(d0, ops=ops), 'nrun'))
    return out


def _supported(cls, name):
    try:
        hdr_class(cls)().set_data_dtype(np.dtype(name))
        return True
    except Exception:
        return False


def cases(rng, tier):
    out = []
    # ---- every fault point of every class / mode / configuration
    for cls in CLASSES:
        lcfgs = layout_configs(cls, tier, rng)
        for owned in (False, True):
            for name, cfg, dt in configs(cls, tier) + lcfgs:
                lay = name.startswith('layout:')
                if lay and tier == 'quick' and owned:
                    continue
                d0 = dict(cfg, cls=cls, owned=owned)
                d0.setdefault('ops', [])
                n, nbytes = clean_calls(d0, owned, dt)
                one_file = len(klass_of(cls).files_types) == 1 and not owned
                for k in range(1, n + 2):
                    # single-file classes, caller's stream: every third faulted save and its retry go through
                    # `img.to_stream(stream)` (the serialisation API) instead of `to_file_map(file_map)`
                    via = ['to_stream'] if (one_file and k % 3 == 1) else []
                    d = dict(d0, ops=[['S', dt, ['k', k], 1] + via, ['S', dt, None, 2] + via, ['S', None, None, 3]] +
                             ([['S', dt, None, None]] if k % 3 == 0 else []))      # … and `to_file_map()` (own file_map)
                    out.append(mk_case(d, 'faults'))
                # byte budgets
                if lay and tier == 'quick':
                    continue
                if tier == 'quick':
                    budgets = sorted({0, 100, 347, 348, 352, 400, max(nbytes - 1, 0), nbytes})
                else:
                    budgets = sorted(set(range(0, nbytes + 40, 37)) | {347, 348, 351, 352, 539, 540, 543, 544,
                                                                         max(nbytes - 1, 0), nbytes})
                for b in budgets:
                    d = dict(d0, ops=[['S', dt, ['b', b], 1], ['S', dt, None, 2]])
                    out.append(mk_case(d, 'budget'))
    # ---- random histories
    nh = {'quick': 60, 'thorough': 1500, 'search': 400}[tier]
    for _ in range(nh):
        out.append(mk_case(rand_history(rng, rng.choice(CLASSES), tier), 'hist'))
    # ---- in-place edits of the affine / the header between saves: the first save harmonises, later ones change nothing
    for cls in CLASSES[:-1]:
        kind = 'f4' if cls in ('mgh', 'analyze') else 'f8'
        base = {'cls': cls, 'data': default_data(cls, kind)}
        if cls not in ('mgh', 'analyze'):
            base['setdt'] = 'int16'
        edits = [['E', 'aff', AFFS[1]], ['E', 'aff', AFFS[4]], ['E', 'hdr', 'zooms'], ['E', 'hdr', 'descrip'],
                 ['E', 'aff', float_affs(cls)[-1]]]
        if tier != 'quick':
            edits += [['E', 'aff', AFFS[2]], ['E', 'hdr', 'zooms2'], ['E', 'hdr', 'dbname']]
        for e in edits:
            for owned in (False, True):
                n, _ = clean_calls(dict(base, owned=owned, ops=[]), owned, None)
                ks = [None, 1, n // 2, n] if tier == 'quick' else [None] + list(range(1, n + 1))
                for k in ks:
                    fault = None if k is None else ['k', k]
                    ops = [['S', None, None, 1], e, ['S', None, fault, 2], ['S', None, None, 3], ['S', None, None, 4],
                           ['E', 'aff', AFFS[0]], ['S', None, None, 5]]
                    out.append(mk_case(dict(base, owned=owned, ops=ops), 'edit'))
    # ---- images LOADED from a file, saved by name onto their own source (every spelling) and elsewhere
    out.extend(loaded_cases(rng, tier))
    # ---- saves by NAME with faults injected into the files nibabel opens itself
    out.extend(nrun_cases(rng, tier))
    # ---- gzip member header: nibabel's sink (and plain GzipFile) x level x clock x file name
    names = ['a.nii.gz', 'other_name.img.gz', 'x.gz', 'y.hdr.gz', 'b.mgz']
    for kind in ('nib', 'plain'):
        for level in ((1, 6, 9) if tier != 'quick' else (1, 9)):
            for clock in (0, 1, 1700000000, 4102444800) + tuple(rng.randrange(2 ** 32) for _ in range(2)):
                for name in names if tier != 'quick' else [rng.choice(names), 'a.nii.gz']:
                    out.append(mk_case({'op': 'gzhdr', 'kind': kind, 'level': level, 'clock': clock, 'name': name,
                                        'dir': rng.choice(['d1', 'd2/sub'])}, 'gzhdr'))
    out.append(mk_case({'op': 'gzhdr', 'kind': 'nib', 'level': 6, 'clock': 77, 'name': 'a.nii.gz', 'dir': 'd1',
                        'mtime': 123456}, 'gzhdr'))
    # ---- the .mat reader: every affine x writer flip x reader flip x which variables the file has
    for cls in ('spm99', 'spm2'):
        for aff in AFFS if tier != 'quick' else [AFFS[1], AFFS[4], rng.choice(AFFS)]:
            for flipw in (True, False):
                for flipr in (True, False):
                    for keys in ('both', 'mat', 'M') + (('none',) if flipw and flipr else ()):
                        out.append(mk_case({'op': 'matload', 'cls': cls, 'aff': aff, 'flipw': flipw, 'flipr': flipr,
                                            'keys': keys}, 'matload'))
    # ---- maps_file: every way of reaching a memory map x map mode x dtype x order x offset
    for wrap in WRAPS:
        for mode in ('r', 'c', 'r+'):
            combos = [('uint8', 'F', 64), ('int16', 'C', 16), ('float32', '1', 0)]
            for dt, order, off in (combos if tier != 'quick' else [combos[rng.randrange(3)]]):
                out.append(mk_case({'op': 'mapsfile', 'wrap': wrap, 'mode': mode, 'dt': dt, 'order': order,
                                    'offset': off}, 'mapsfile'))
    # ---- the slice loop of _write_data: EVERY combination of its eight branches x array layout x order
    import itertools
    for flags in itertools.product((0, 1), repeat=8):
        lays = [('F', [5, 4, 3], 'F'), ('C', [5, 4, 3], 'F'), ('Fro', [4, 3], 'F'), ('C', [6], 'F'), ('F', [3, 4], 'C')]
        for lay, shape, order in (lays if tier != 'quick' else [lays[0], lays[1 + rng.randrange(4)]]):
            out.append(mk_case({'op': 'wdata', 'flags': list(flags), 'layout': lay, 'shape': shape, 'order': order},
                               'wdata'))
    # ---- by file name, compressed
    for cls in CLASSES:
        for ext in ('', '.gz', '.bz2', '.zst'):
            for setdt in ((None, 'int16') if cls != 'mgh' else (None,)):
                data = dict(default_data(cls, 'f4' if cls in ('mgh', 'analyze') else 'f8'), layout=rng.choice(LAYOUTS))
                out.append(mk_case({'op': 'byname', 'cls': cls, 'cext': ext, 'setdt': setdt, 'data': data, 'ops': []},
                                   'byname'))
    return out


def shrink_candidates(case):
    d = case.data
    if d.get('op') in ('gzhdr', 'matload', 'byname', 'mapsfile', 'wdata'):
        return
    if d.get('op') in ('lrun', 'nrun'):
        ops = d['ops']
        for i in range(len(ops)):
            if len(ops) > 1:
                yield mk_case(dict(d, ops=ops[:i] + ops[i + 1:]), d.get('stream', 'shrunk'))
        return
    if d.get('op') != 'run':
        return
    ops = d['ops']
    for i in range(len(ops)):
        if len(ops) > 1:
            yield mk_case(dict(d, ops=ops[:i] + ops[i + 1:]), d.get('stream', 'shrunk'))
    for k in ('ext', 'slope', 'offset', 'endian', 'xflip', 'aff'):
        if k in d and not (k == 'aff' and any(op[0] == 'E' for op in ops)):
            d2 = dict(d)
            d2.pop(k)
            yield mk_case(d2, d.get('stream', 'shrunk'))
    for i, op in enumerate(ops):
        if op[0] == 'S' and op[1] is not None:
            yield mk_case(dict(d, ops=ops[:i] + [[op[0], None] + op[2:]] + ops[i + 1:]), d.get('stream', 'shrunk'))


# ------------------------------------------------------------------ implementation side

def first_seen(table, x):
    if x not in table:
        table[x] = len(table)
    return table[x]


def state_token(cls, img, hdr0, fm_ids, hseen, aseen, dseen):
    hdr = header_of(cls, img)
    off, dtc, sl, it = hdr_fields(cls, hdr)
    hid = first_seen(hseen, hashlib.sha1(bytes(hdr.binaryblock)).hexdigest())
    hobj = 0 if hdr is hdr0 else 1
    aff = getattr(img, '_affine', None)
    aid = first_seen(aseen, None if aff is None else np.asarray(aff, dtype=np.float64).tobytes())
    try:
        dd = hashlib.sha1(np.ascontiguousarray(np.asanyarray(img.dataobj)).tobytes()).hexdigest()
    except Exception as e:      # the image's data cannot be read any more
        dd = 'unreadable:' + type(e).__name__
    did = first_seen(dseen, dd)
    return (f'{off},{dtc},{sl},{it},{alias_of(img)},{fm_ids.get(id(img.file_map), 99)},{hobj},h{hid},a{aid},'
            f'x{xflip_of(cls, hdr)},d{did}')


def mat_ints(raw, scale=1):
    """the variables M and mat of a MATLAB-4 `.mat` file, times `scale`, as exact integers (or 'nonint')"""
    import scipy.io as sio
    mats = sio.loadmat(io.BytesIO(raw))
    out = []
    for k in ('M', 'mat'):
        if k not in mats:
            out.append('-')
            continue
        a = np.asarray(mats[k], dtype=np.float64) * (scale or 1)
        if a.shape != (4, 4) or not np.all(a == np.round(a)):
            out.append('nonint')
        else:
            out.append(','.join(str(int(v)) for v in a.ravel()))
    return out


def mat_token(bmap, scale=1):
    if not bmap or not bmap.get('mat'):
        return ''
    M, mat = mat_ints(bmap['mat'], scale)
    return f' M={M}/{mat}'


# ---- gzip member header of the sink nibabel uses (and of plain gzip.GzipFile, to validate the model of CPython)

def impl_gzhdr(case):
    import gzip
    from unittest import mock
    from nibabel.openers import ImageOpener as Opener     # knows .mgz as well
    d = case.data
    path = gz_path(d)
    os.makedirs(os.path.dirname(path), exist_ok=True)
    with mock.patch('time.time', lambda: float(d['clock']) + 0.75):
        if d['kind'] == 'nib':
            kw = {'compresslevel': d['level']}
            if d.get('mtime'):
                kw['mtime'] = d['mtime']
            with Opener(path, 'wb', **kw) as f:
                f.write(b'C07 payload' * 7)
        else:
            with gzip.GzipFile(path, 'wb', d['level']) as f:
                f.write(b'C07 payload' * 7)
    raw = open(path, 'rb').read()
    os.unlink(path)
    n = 10
    if raw[3] & 8:
        n = raw.index(b'\0', 10) + 1
    case.extra = {'hdr': list(raw[:n])}
    return ','.join(str(b) for b in raw[:n])


def oracle_gzhdr(case, out):
    d = case.data
    if d['kind'] != 'nib' or d.get('mtime'):
        return None
    hdr = (case.extra or {}).get('hdr')
    if hdr is None:
        return f'gzip sink did not run: {out}'
    xfl = 2 if d['level'] == 9 else 4 if d['level'] == 1 else 0
    want = [31, 139, 8, 0, 0, 0, 0, 0, xfl, 255]
    if hdr != want:
        return (f'gzip header written by nibabel for {d["name"]!r} at clock {d["clock"]} is {hdr}: it depends on the '
                f'clock or the file name (expected {want}), so two saves of an unchanged image are not byte-identical')
    return None


# ---- `volumeutils.maps_file` and arrays that VIEW a memory map

def owner_chain(a):
    """letters of the chain of owners of `a` (M np.memmap, m mmap.mmap, v memoryview, n ndarray, o anything else)"""
    import mmap
    out = []
    while a is not None and len(out) < 40:
        out.append('M' if isinstance(a, np.memmap) else 'm' if isinstance(a, mmap.mmap) else
                   'v' if isinstance(a, memoryview) else 'n' if isinstance(a, np.ndarray) else 'o')
        a = a.obj if isinstance(a, memoryview) else getattr(a, 'base', None)
    return out


def wrap_array(kind, mm):
    """an array object with the values (and shape) of the np.memmap `mm`, reached in another way"""
    import mmap
    from numpy.lib.stride_tricks import as_strided
    if kind == 'memmap':
        return mm
    if kind == 'asarray':
        return np.asarray(mm)
    if kind == 'slice':
        return np.asarray(mm)[...][tuple(slice(None) for _ in mm.shape)]
    if kind == 'mmslice':
        return mm[tuple(slice(None) for _ in mm.shape)]
    if kind == 'memoryview':
        return np.asarray(memoryview(mm))
    if kind == 'frombuffer':
        flat = np.frombuffer(mm._mmap, dtype=mm.dtype, count=mm.size, offset=mm.offset % mmap.ALLOCATIONGRANULARITY)
        return flat.reshape(mm.shape, order='F' if mm.flags.f_contiguous else 'C')
    if kind == 'strided':
        return as_strided(mm, shape=mm.shape, strides=mm.strides)
    if kind == 'strided2':
        return as_strided(np.asarray(mm), shape=mm.shape, strides=mm.strides)[...]
    if kind == 'copy':
        return np.array(mm)
    if kind == 'ufunc':
        return mm + 0
    if kind == 'plain':
        return np.zeros(mm.shape, mm.dtype)
    if kind == 'frombytes':
        return np.frombuffer(mm.tobytes(), dtype=mm.dtype)
    if kind == 'mmcopy':
        return mm.copy()
    raise ValueError(kind)


WRAPS = ['memmap', 'asarray', 'slice', 'mmslice', 'memoryview', 'frombuffer', 'strided', 'strided2', 'copy', 'ufunc',
         'plain', 'frombytes', 'mmcopy']
IMG_WRAPS = ['asarray', 'memoryview', 'frombuffer', 'strided']


def _mapsfile_object(d, tmp):
    fn = os.path.join(tmp, 'm.bin')
    n = 24
    np.arange(64 + n, dtype=np.uint8).tofile(fn)
    dt = np.dtype(d['dt'])
    cnt = n // dt.itemsize
    shape = (cnt,) if d['order'] == '1' else (2, cnt // 2)
    mm = np.memmap(fn, dtype=dt, mode=d['mode'], offset=d['offset'], shape=shape, order='F' if d['order'] == 'F' else 'C')
    return mm, wrap_array(d['wrap'], mm)


def mapsfile_line(d):
    with tempfile.TemporaryDirectory(prefix='c07_mf_') as tmp:
        mm, a = _mapsfile_object(d, tmp)
        chain = owner_chain(a)
        del a, mm
    return 'C07 mapsfile ' + (','.join(chain) or '-')


def impl_mapsfile(case):
    from nibabel.volumeutils import maps_file
    d = case.data
    with tempfile.TemporaryDirectory(prefix='c07_mf_') as tmp:
        mm, a = _mapsfile_object(d, tmp)
        got = bool(maps_file(a))
        # ground truth, independent of any owner chain: does the memory of `a` lie inside the mapping?
        whole = np.frombuffer(mm._mmap, dtype=np.uint8)
        lo = whole.__array_interface__['data'][0]
        addr = a.__array_interface__['data'][0]
        inside = lo <= addr < lo + whole.size
        case.extra = {'inside': bool(inside), 'got': got, 'chain': owner_chain(a)}
        del whole, a, mm
    return '1' if got else '0'


def oracle_mapsfile(case, out):
    ex = case.extra or {}
    if 'inside' not in ex:
        return f'maps_file did not run: {out}'
    if ex['inside'] and not ex['got']:
        return (f'maps_file answers False for an array made by {case.data["wrap"]!r} from a memory map (owners '
                f'{ex["chain"]}) although its memory lies inside the mapping: to_file_map would open (truncate) the '
                f'mapped file under the image\'s data')
    return None


# ---- the slice loop of `volumeutils._write_data`: does it store into the caller's array?

WDATA_FLAGS = ('preClips', 'inCast', 'inter', 'slope', 'postClips', 'nanFill', 'anyNan', 'castOut')


def impl_wdata(case):
    from nibabel.volumeutils import _write_data
    d = case.data
    f = dict(zip(WDATA_FLAGS, d['flags']))
    rs = np.random.RandomState(11)
    a = rs.uniform(-50, 50, size=tuple(d['shape']))
    if f['anyNan']:
        a.flat[3] = np.nan
        a.flat[-2] = np.nan
    a = lay_out(a, d['layout'])
    before = array_memory(a)
    sink = io.BytesIO()
    try:
        _write_data(a, sink, np.dtype(np.int16 if f['castOut'] else np.float64), d['order'],
                    in_cast=np.float64 if f['inCast'] else None, pre_clips=(-40.0, 40.0) if f['preClips'] else None,
                    inter=3.0 if f['inter'] else 0.0, slope=0.5 if f['slope'] else 1.0,
                    post_clips=(-30.0, 30.0) if f['postClips'] else None, nan_fill=0 if f['nanFill'] else None)
    except Exception as e:
        case.extra = {'err': repr(e)}
        return canon_err(e)
    case.extra = {'n': len(sink.getvalue())}
    return '0' if array_memory(a) == before else '1'


def oracle_wdata(case, out):
    d = case.data
    if out != '0':
        on = [n for n, v in zip(WDATA_FLAGS, d['flags']) if v]
        return (f'_write_data on a {d["layout"]}-layout float64 array of shape {d["shape"]} (order={d["order"]}, steps '
                f'taken: {on}) changed the memory of the array it was given: {out} {(case.extra or {}).get("err", "")}')
    return None


# ---- the `.mat` reader of the SPM classes

def matload_parts(d):
    """(header bytes, image bytes, M ints, mat ints) of an SPM image with affine d['aff'] written with flip d['flipw']"""
    key = ('matload', d['cls'], repr(d['aff']), d['flipw'])
    if key not in _ext_cache:
        img = build({'cls': d['cls'], 'data': default_data(d['cls'], 'u1'), 'aff': d['aff'], 'xflip': d['flipw']})
        res, budget, fm = do_save(d['cls'], img, False)
        if res != 'ok':
            raise RuntimeError(res)
        b = map_bytes(fm)
        M, mat = mat_ints(b['mat'])
        _ext_cache[key] = (b['header'], b['image'], M, mat)
    return _ext_cache[key]


def matload_line(d):
    _, _, M, mat = matload_parts(d)
    return 'C07 matload {f} {mat} {M}'.format(f=int(d['flipr']), mat=mat if d['keys'] in ('both', 'mat') else '-',
                                              M=M if d['keys'] in ('both', 'M') else '-')


def impl_matload(case):
    import scipy.io as sio
    from nibabel.fileholders import FileHolder
    d = case.data
    hb, ib, M, mat = matload_parts(d)
    as_arr = lambda t: np.array([float(v) for v in t.split(',')]).reshape(4, 4)
    mats = {}
    if d['keys'] in ('both', 'M'):
        mats['M'] = as_arr(M)
    if d['keys'] in ('both', 'mat'):
        mats['mat'] = as_arr(mat)
    if not mats:
        mats['other'] = np.eye(4)
    mf = io.BytesIO()
    sio.savemat(mf, mats, format='4')
    k = klass_of(d['cls'])
    flip = bool(d['flipr'])

    # the documented way to choose the convention for LOADED images: the class attribute of the header class
    class Hdr(k.header_class):
        default_x_flip = flip

    class Img(k):
        header_class = Hdr

    fm = {'header': FileHolder(fileobj=io.BytesIO(hb)), 'image': FileHolder(fileobj=io.BytesIO(ib)),
          'mat': FileHolder(fileobj=io.BytesIO(mf.getvalue()))}
    try:
        back = Img.from_file_map(fm)
    except Exception as e:
        case.extra = {'err': canon_err(e)}
        return canon_err(e)
    a = np.asarray(back.affine, dtype=np.float64)
    case.extra = {'aff': a}
    if not np.all(a == np.round(a)):
        return 'nonint'
    return ','.join(str(int(v)) for v in a.ravel())


def oracle_matload(case, out):
    d = case.data
    ex = case.extra or {}
    if d['keys'] == 'none':
        return None if ex.get('err') == 'ERR:ValueError' else f'a .mat file without M / mat loaded as {out}'
    if d['keys'] == 'M' and d['flipr'] != d['flipw']:
        return None
    if 'aff' not in ex or not np.array_equal(ex['aff'], np.array(d['aff'], dtype=np.float64)):
        return (f'{d["cls"]}: the .mat file written for affine {d["aff"]} (default_x_flip={d["flipw"]}), variables '
                f'{d["keys"]}, loads (default_x_flip={d["flipr"]}) as {out}')
    return None


def impl(case):
    d = case.data
    if d.get('op') == 'byname':
        return impl_byname(case)
    if d.get('op') == 'gzhdr':
        return impl_gzhdr(case)
    if d.get('op') == 'matload':
        return impl_matload(case)
    if d.get('op') == 'mapsfile':
        return impl_mapsfile(case)
    if d.get('op') == 'wdata':
        return impl_wdata(case)
    if d.get('op') == 'lrun':
        return impl_loaded(case)
    if d.get('op') == 'nrun':
        return impl_nrun(case)
    cls = d['cls']
    img = build(d)
    hdr0 = header_of(cls, img)
    fm_ids = {id(img.file_map): 0}
    keep = [img.file_map]
    hseen, oseen, aseen, dseen = {}, {}, {}, {}

    def state():
        return state_token(cls, img, hdr0, fm_ids, hseen, aseen, dseen)

    parts = [state()]
    recs = []
    edited = False
    for j, op in enumerate(d['ops'], 1):
        if op[0] in ('S', 'OS'):
            _, dt, fault, fmid = op[:4]
            api = op[4] if len(op) > 4 else 'to_file_map'
            before = full_state(cls, img)
            harm = before
            if edited:
                import copy
                c = copy.deepcopy(img)
                c.update_header()
                harm = full_state(cls, c)
                for key in OBJECT_KEYS:        # identity / memory of the array object: those of the image itself
                    harm[key] = before[key]
            budget = Budget(fault[1] if fault and fault[0] == 'k' else None, fault[1] if fault and fault[0] == 'b' else None)
            fm = make_map(cls, budget, d['owned'])
            kw = {} if dt is None else {'dtype': parse_dt(dt)}
            if fmid is None:
                # `to_file_map()` without a file_map: the image's OWN file_map (same dict object) gets the holders
                for key, holder in fm.items():
                    img.file_map[key] = holder
                args = ()
            else:
                fm_ids[id(fm)] = fmid
                keep.append(fm)
                args = (fm,)
            try:
                if api == 'to_stream':
                    # the serialisation API of the single-file classes: `to_stream(io_obj)` builds its own file_map
                    # around the caller's stream and calls `to_file_map`
                    img.to_stream(fm[klass_of(cls).files_types[0][0]].fileobj, **kw)
                else:
                    img.to_file_map(*args, **kw)
                res = 'ok'
            except Exception as e:
                res = canon_err(e)
            if api == 'to_stream' and id(img.file_map) not in fm_ids:
                fm_ids[id(img.file_map)] = fmid
                keep.append(img.file_map)
            after = full_state(cls, img)
            bmap = map_bytes(fm) if res == 'ok' else None
            oid = first_seen(oseen, digest(bmap)) if bmap is not None else '-'
            recs.append({'j': j, 'op': op, 'res': res, 'before': before, 'after': after, 'bytes': bmap,
                         'log': list(budget.log), 'harm': harm,
                         'aff_now': None if getattr(img, '_affine', None) is None else np.array(img._affine)})
            parts.append(f'{res} n={budget.count} [{",".join(budget.log)}] {state()} out={oid}{mat_token(bmap, aff_scale(d))}')
        elif op[0] in ('D', 'A'):
            try:
                img.set_data_dtype(np.dtype(op[1]) if op[0] == 'D' else op[1])
                res = 'ok'
            except Exception as e:
                res = canon_err(e)
            recs.append({'j': j, 'op': op, 'res': res})
            parts.append(f'{res} {state()}')
        elif op[0] == 'E':
            apply_edit(cls, img, op)
            edited = True
            recs.append({'j': j, 'op': op, 'res': 'ok'})
            parts.append(f'ok {state()}')
        else:
            raise ValueError(op)
    case.extra = {'recs': recs}
    return ' | '.join(parts)


def _loaded_child(d, conn):
    """runs in a CHILD process (a save over a live memory map can end in SIGBUS): load the source file with the
    requested spelling / mmap mode, then save by file NAME onto the source itself (any spelling) or elsewhere"""
    try:
        import shutil
        cls = d['cls']
        ld = d['load']
        root = tempfile.mkdtemp(prefix='c07_child_')
        try:
            os.chdir(root)
            make_source(d, root)
            k = klass_of(cls)
            img = k.from_filename(spelled(root, cls, 'vol', ld['cext'], ld.get('spell', 'abs')), mmap=ld['mmap'])
            img = rewrap(cls, img, ld)
            if d.get('setdt'):
                img.set_data_dtype(np.dtype(d['setdt']))
            if cls != 'cifti2':
                img.update_header()
            hdr0 = header_of(cls, img)
            fm_ids = {id(img.file_map): 0}
            keep = [img.file_map]
            hseen, oseen, aseen, dseen = {}, {}, {}, {}
            state = lambda: state_token(cls, img, hdr0, fm_ids, hseen, aseen, dseen)
            parts, recs = [state()], []
            for j, op in enumerate(d['ops'], 1):
                _, dt, target, spelling = op
                stem = 'vol' if target == 'self' else target
                path = spelled(root, cls, stem, ld['cext'], spelling)
                before = full_state(cls, img)
                kw = {} if dt is None else {'dtype': parse_dt(dt)}
                try:
                    img.to_filename(path, **kw)
                    res = 'ok'
                except Exception as e:
                    res = canon_err(e)
                if id(img.file_map) not in fm_ids:
                    fm_ids[id(img.file_map)] = j
                    keep.append(img.file_map)
                after = full_state(cls, img)
                rec = {'j': j, 'op': op, 'res': res, 'before': before, 'after': after}
                oid = '-'
                bmap = None
                if res == 'ok':
                    bmap = {}
                    for e in file_exts(cls, ld['cext']):
                        fn = os.path.join(root, stem + e)
                        bmap[e] = open(fn, 'rb').read() if os.path.exists(fn) else None
                    rec['files'] = {e: (None if b is None else hashlib.sha1(b).hexdigest()) for e, b in bmap.items()}
                    oid = first_seen(oseen, repr(sorted(rec['files'].items())))
                    try:
                        back = k.from_filename(os.path.join(root, target_name(cls, stem, ld['cext'])), mmap=False)
                        got = np.asanyarray(back.dataobj).astype(np.float64)
                        want = np.asanyarray(img.dataobj).astype(np.float64)
                        rec['shape_ok'] = got.shape == want.shape
                        rec['err'] = float(np.abs(got - want).max()) if got.shape == want.shape else None
                        rec['amax'] = float(np.abs(want).max())
                        rec['out_dt'] = str(back.get_data_dtype())
                        rec['src_dt'] = str(np.asanyarray(img.dataobj).dtype)
                        rec['slope'] = float(getattr(back.dataobj, 'slope', 1.0))
                        ba, ia = getattr(back, '_affine', None), getattr(img, '_affine', None)
                        rec['affine_ok'] = (ba is None and ia is None) or (
                            ba is not None and ia is not None and bool(np.allclose(ba, ia, rtol=1e-5, atol=1e-4)))
                    except Exception as e:
                        rec['reload'] = canon_err(e) + ' ' + str(e)[:80]
                mat = ''
                if bmap and bmap.get('.mat' + ld['cext']):
                    from nibabel.openers import Opener
                    with Opener(os.path.join(root, stem + '.mat' + ld['cext']), 'rb') as mf:
                        mat = mat_token({'mat': mf.read()}, aff_scale(d))
                recs.append(rec)
                parts.append(f'{res} {state()} out={oid}{mat}')
            conn.send((' | '.join(parts), recs))
        finally:
            os.chdir('/')
            shutil.rmtree(root, ignore_errors=True)
    except BaseException as e:
        import traceback
        try:
            conn.send(('ERR:child:' + type(e).__name__ + ':' + str(e)[:200] + traceback.format_exc()[-400:], []))
        except Exception:
            pass
    finally:
        conn.close()
        os._exit(0)


def impl_loaded(case):
    import multiprocessing as mp
    ctx = mp.get_context('fork')
    parent, child = ctx.Pipe(duplex=False)
    pr = ctx.Process(target=_loaded_child, args=(case.data, child))
    pr.start()
    child.close()
    out, recs = None, []
    try:
        if parent.poll(120):
            out, recs = parent.recv()
    except (EOFError, OSError):
        pass
    pr.join(10)
    if pr.is_alive():
        pr.kill()
        pr.join()
    if out is None:
        out = f'CRASH:exit={pr.exitcode}'
    case.extra = {'recs': recs, 'out': out}
    return out


# ---- saves BY FILE NAME through instrumented openers: every write / seek / tell / flush / close call that nibabel
#      makes on a file it opened itself can fail

class NamedFaulty:
    """the file object `Opener` opened by name for writing (plain file, gzip / bz2 / zstd sink), instrumented like
    `FaultyFile`; everything else is delegated to the real object"""

    def __init__(self, real, letter, budget):
        self.real, self.letter, self.budget = real, letter, budget

    def write(self, b):
        n = len(b)
        self.budget.tick(f'{self.letter}w{n}')
        bb = self.budget.byte_budget
        if bb is not None and self.budget.written + n > bb:
            fit = bb - self.budget.written
            self.real.write(bytes(b)[:fit])
            self.budget.written = bb
            raise OSError(errno.ENOSPC, 'No space left on device (injected: byte budget)')
        self.budget.written += n
        return self.real.write(b)

    def seek(self, pos, whence=0):
        self.budget.tick(f'{self.letter}s{int(pos)}' + ('' if whence == 0 else f'/{whence}'))
        return self.real.seek(pos, whence)

    def tell(self):
        self.budget.tick(f'{self.letter}t')
        return self.real.tell()

    def flush(self):
        self.budget.tick(f'{self.letter}f')
        return self.real.flush()

    def close(self):
        try:
            self.budget.tick(f'{self.letter}c')
        finally:
            self.real.close()

    def __getattr__(self, name):
        return getattr(self.real, name)


COMPRESS_EXTS = ('.gz', '.bz2', '.zst')


def instrumented_openers(cls, budget):
    """context manager: every file that nibabel's `Opener` opens by name FOR WRITING is wrapped in `NamedFaulty`"""
    import contextlib
    from nibabel.openers import Opener
    letters = {ext: key[0] for key, ext in klass_of(cls).files_types}
    letters['.mgz'] = 'i'

    def letter_of(path):
        p = str(path)
        for c in COMPRESS_EXTS:
            if p.endswith(c):
                p = p[:-len(c)]
        return letters.get(os.path.splitext(p)[1], 'i')

    @contextlib.contextmanager
    def cm():
        orig = Opener._get_opener_argnames

        def patched(self, fileish):
            opener, names = orig(self, fileish)

            def wrapped(f, *a, **k):
                mode = k.get('mode', a[0] if a else 'rb')
                real = opener(f, *a, **k)
                return NamedFaulty(real, letter_of(f), budget) if 'w' in mode else real
            return wrapped, names
        Opener._get_opener_argnames = patched
        try:
            yield
        finally:
            Opener._get_opener_argnames = orig
    return cm()


NRUN_APIS = ['to_filename', 'save', 'setfn']


def impl_nrun(case):
    """history of saves BY NAME (`img.to_filename(p)` | `nibabel.save(img, p)` | `img.set_filename(p);
    img.to_file_map()`), plain or compressed, with a fault at the k-th I/O call / a byte budget, the wall clock moved
    and the base name changed between saves"""
    import time
    from unittest import mock
    from nibabel.openers import ImageOpener
    d = case.data
    cls, cext = d['cls'], d['cext']
    n = nib()
    img = build(d)
    hdr0 = header_of(cls, img)
    fm_ids = {id(img.file_map): 0}
    keep = [img.file_map]
    hseen, oseen, aseen, dseen = {}, {}, {}, {}
    state = lambda: state_token(cls, img, hdr0, fm_ids, hseen, aseen, dseen)
    parts, recs = [state()], []
    real_time = time.time
    with tempfile.TemporaryDirectory(prefix='c07_n_') as tmp:
        for j, op in enumerate(d['ops'], 1):
            _, dt, target, api, fault = op
            before = full_state(cls, img)
            budget = Budget(fault[1] if fault and fault[0] == 'k' else None, fault[1] if fault and fault[0] == 'b' else None)
            path = os.path.join(tmp, target_name(cls, target, cext))
            kw = {} if dt is None else {'dtype': parse_dt(dt)}
            try:
                with mock.patch('time.time', lambda: real_time() + 86400.0 * 5 * j + 7 * j), \
                        instrumented_openers(cls, budget):
                    if api == 'save':
                        n.save(img, path, **kw)
                    elif api == 'setfn':
                        img.set_filename(path)
                        img.to_file_map(**kw)
                    else:
                        img.to_filename(path, **kw)
                res = 'ok'
            except Exception as e:
                res = canon_err(e)
            if id(img.file_map) not in fm_ids:
                fm_ids[id(img.file_map)] = j
                keep.append(img.file_map)
            after = full_state(cls, img)
            raw = plain = None
            if res == 'ok':
                raw, plain = {}, {}
                for key, e in klass_of(cls).files_types:
                    fn = os.path.join(tmp, target + ('.mgz' if (cls == 'mgh' and cext) else e + cext))
                    if os.path.exists(fn):
                        raw[key] = open(fn, 'rb').read()
                        with ImageOpener(fn, 'rb') as f:
                            plain[key] = f.read()
                    else:
                        raw[key] = plain[key] = b''
            oid = first_seen(oseen, digest(raw)) if raw is not None else '-'
            recs.append({'j': j, 'op': ['S', dt, fault, j], 'nop': op, 'res': res, 'before': before, 'after': after,
                         'harm': before, 'bytes': plain, 'raw': raw, 'log': list(budget.log),
                         'aff_now': None if getattr(img, '_affine', None) is None else np.array(img._affine)})
            parts.append(f'{res} n={budget.count} [{",".join(budget.log)}] {state()} out={oid}{mat_token(plain, aff_scale(d))}')
    case.extra = {'recs': recs}
    return ' | '.join(parts)


def oracle_nrun(case, out):
    d = case.data
    ex = case.extra or {}
    if out.startswith('ERR:') or 'recs' not in ex:
        return f'running the history raised outside any save: {out}'
    bad = oracle_recs(d, ex['recs'])
    if bad:
        return bad
    by_dt = {}
    for rec in ex['recs']:
        if rec['res'] != 'ok':
            continue
        _, dt, target, api, fault = rec['nop']
        prev = by_dt.setdefault(dt, (rec['raw'], rec['j'], target))
        if prev[0] != rec['raw']:
            badk = [k for k in rec['raw'] if rec['raw'][k] != prev[0].get(k)]
            return (f'{d["cls"]} save #{rec["j"]} by name ({api}, *{d["cext"] or "(plain)"}, dtype={dt}) onto {target}: files '
                    f'{badk} are not byte-identical to those of save #{prev[1]} (onto {prev[2]}, at another time) of the '
                    f'unchanged image')
    return None


def impl_byname(case):
    import time
    from unittest import mock
    d = case.data
    cls = d['cls']
    n = nib()
    img = build(d)
    before = full_state(cls, img)
    primary = {'analyze': '.img', 'spm99': '.img', 'spm2': '.img', 'n1pair': '.img', 'n2pair': '.img',
               'n1single': '.nii', 'n2single': '.nii', 'mgh': '.mgh', 'cifti2': '.nii'}[cls]
    extra = {'before': before}
    with tempfile.TemporaryDirectory(prefix='c07_') as tmp:
        outs = []
        for i, name in enumerate(('first', 'second_with_other_name', 'third')):
            sub = os.path.join(tmp, str(i))
            os.mkdir(sub)
            fn = os.path.join(sub, target_name(cls, name, d['cext']))      # MGH: `.mgz`
            real = time.time
            try:
                with mock.patch('time.time', lambda: real() + 86400.0 * 3 * i + 5 * i):
                    img.to_filename(fn)
                res = 'ok'
            except Exception as e:
                res = canon_err(e)
            files = {}
            for f in sorted(os.listdir(sub)):
                files[f.replace(name, 'X')] = open(os.path.join(sub, f), 'rb').read()
            outs.append((res, files))
            extra.setdefault('after', []).append(full_state(cls, img))
            if i == 0 and res == 'ok':
                try:
                    back = n.load(fn)
                    extra['loaded'] = (np.asanyarray(back.dataobj).astype(np.float64) if cls == 'cifti2' else back.get_fdata(),
                                       None if cls == 'cifti2' else np.array(back.affine), str(back.get_data_dtype()))
                except Exception as e:
                    extra['loaded'] = canon_err(e)
    extra['outs'] = outs
    case.extra = extra
    return ' '.join(f'{r}:{",".join(f"{k}={hashlib.sha1(v).hexdigest()[:10]}" for k, v in sorted(fs.items()))}' for r, fs in outs)


# ------------------------------------------------------------------ oracle (property stated on the implementation)

_ref_cache = {}


def reference(d, applied, dt):
    """bytes of a first clean save of a FRESH identical image (same configuration, the same
    set_data_dtype calls applied), with the same dtype= override; or the error it raises"""
    key = (config_key(d), repr(applied), dt)
    if key not in _ref_cache:
        img = build(d)
        for op in applied:
            if op[0] == 'E':
                apply_edit(d['cls'], img, op)
                continue
            if op[0] == 'U':        # an earlier save of the history harmonised the header here
                img.update_header()
                continue
            try:
                img.set_data_dtype(np.dtype(op[1]) if op[0] == 'D' else op[1])
            except Exception:
                pass
        res, budget, fm = do_save(d['cls'], img, False, dt)
        _ref_cache[key] = (res, map_bytes(fm) if res == 'ok' else None)
    return _ref_cache[key]


def diff_state(a, b):
    return [k for k in a if a[k] != b.get(k)]


def load_back(cls, bmap):
    from nibabel.fileholders import FileHolder
    k = klass_of(cls)
    fm = {key: FileHolder(fileobj=io.BytesIO(b)) for key, b in bmap.items()}
    return k.from_file_map(fm)


def decode_check(d, rec_desc, bmap, applied, dt, autoscale, aff_now=None):
    """fresh load of the written bytes: data within half a scale step, right affine, right dtype"""
    cls = d['cls']
    arr = make_array(d['data']).astype(np.float64)
    try:
        back = load_back(cls, bmap)
        got = np.asanyarray(back.dataobj).astype(np.float64) if cls == 'cifti2' else back.get_fdata(dtype=np.float64)
    except Exception as e:
        return f'{rec_desc}: the written file does not load: {e!r}'
    if got.shape != arr.shape:
        if not (cls == 'mgh' and got.squeeze().shape == arr.squeeze().shape):
            return f'{rec_desc}: loaded shape {got.shape} != {arr.shape}'
        got = got.reshape(arr.shape)
    if cls != 'cifti2':
        hdr = back.header
        if cls in NIFTI or cls == 'mgh' or cls in ('spm99', 'spm2'):
            want = affine_of(d) if aff_now is None else aff_now.tolist()
            if want is not None and not np.allclose(back.affine, np.array(want, dtype=float), rtol=1e-5, atol=1e-4):
                return f'{rec_desc}: loaded affine differs: {back.affine.tolist()} (image affine {want})'
            if want is None and cls in ('spm99', 'spm2') and not np.allclose(back.affine, back.header.get_best_affine()):
                return (f'{rec_desc}: the image has no affine, but its files load with affine {back.affine.tolist()} '
                        f'instead of the header\'s {back.header.get_best_affine().tolist()} (spurious .mat)')
    else:
        hdr = back.nifti_header
    if not autoscale:
        return None
    out_dt = np.dtype(back.get_data_dtype())
    if cls == 'mgh' and not np.can_cast(np.dtype(d['data']['dt']), out_dt, 'safe'):
        return None      # MGH stores without scaling: range/precision of a narrower on-disk type is C02's subject
    slope = float(getattr(back.dataobj, 'slope', 1.0))     # scale step applied when reading
    amax = float(np.abs(arr).max())
    if out_dt.kind in 'iu':
        src_int = np.dtype(d['data']['dt']).kind in 'iu'
        tol = (0.0 if (src_int and slope == 1.0) else abs(slope) / 2 * (1 + 1e-4)) + amax * 2e-6
    elif out_dt.kind == 'f':
        tol = amax * (2e-7 if out_dt.itemsize == 4 else 1e-15) * 4
    else:
        return None
    err = float(np.abs(got - arr).max())
    if not err <= tol:
        return (f'{rec_desc}: fresh load of the written file differs from the image data by {err:g} '
                f'(allowed {tol:g}; on-disk dtype {out_dt}, slope {slope:g})')
    return None


def oracle_loaded(case, out):
    """loaded-from-file images saved by name: the image (data digest, affine, header bytes, dtype, alias) is what it
    was, every file written loads back to the image's data and affine, saves with the same dtype= are byte-identical"""
    d = case.data
    ex = case.extra or {}
    cls, ld = d['cls'], d['load']
    tag = f'{cls} loaded from vol{PRIMARY[cls]}{ld["cext"]} (mmap={ld["mmap"]}, spelled {ld.get("spell", "abs")})'
    if out.startswith('CRASH'):
        return f'{tag}: the process died during the history {d["ops"]} ({out})'
    if out.startswith('ERR:child'):
        return f'{tag}: history raised outside any save: {out[:300]}'
    by_dt = {}
    for rec in ex.get('recs', []):
        _, dt, target, spelling = rec['op']
        desc = f'{tag} save #{rec["j"]} by name onto {target} (spelled {spelling}, dtype={dt}, result {rec["res"]})'
        ch = diff_state(rec['before'], rec['after'])
        if ch:
            return f'{desc}: the save changed the image: {ch}'
        if rec['res'] == 'ERR:OSError':
            return f'{desc}: OSError on a healthy file system'
        if rec['res'] != 'ok':
            continue          # a refusal (WriterError, TypeError for MGH dtype=, …) — compared with the model only
        if rec.get('reload'):
            return f'{desc}: the written file does not load: {rec["reload"]}'
        if not rec.get('shape_ok'):
            return f'{desc}: fresh load of the written file has another shape'
        if not rec.get('affine_ok'):
            return f'{desc}: fresh load of the written file has another affine'
        out_dt, src_dt = np.dtype(rec['out_dt']), np.dtype(rec['src_dt'])
        if not (cls == 'mgh' and not np.can_cast(src_dt, out_dt, 'safe')):
            tol = rw_tolerance(src_dt, out_dt, rec['slope'], rec['amax'])
            if tol is not None and not rec['err'] <= tol:
                return (f'{desc}: fresh load of the written file differs from the image data by {rec["err"]:g} '
                        f'(allowed {tol:g}; on-disk dtype {out_dt}, slope {rec["slope"]:g})')
        prev = by_dt.setdefault(dt, (rec['files'], rec['j']))
        if prev[0] != rec['files']:
            bad = [e for e in rec['files'] if rec['files'][e] != prev[0].get(e)]
            return f'{desc}: files {bad} are not byte-identical to those of save #{prev[1]} of the unchanged image'
    return None


def rw_tolerance(src_dt, out_dt, slope, amax):
    if out_dt.kind in 'iu':
        src_int = src_dt.kind in 'iu'
        return (0.0 if (src_int and slope == 1.0) else abs(slope) / 2 * (1 + 1e-4)) + amax * 2e-6
    if out_dt.kind == 'f':
        return amax * (2e-7 if out_dt.itemsize == 4 else 1e-15) * 4
    return None


def oracle(case, out):
    d = case.data
    ex = case.extra or {}
    if d.get('op') == 'byname':
        return oracle_byname(case, out)
    if d.get('op') == 'lrun':
        return oracle_loaded(case, out)
    if d.get('op') == 'gzhdr':
        return oracle_gzhdr(case, out)
    if d.get('op') == 'matload':
        return oracle_matload(case, out)
    if d.get('op') == 'mapsfile':
        return oracle_mapsfile(case, out)
    if d.get('op') == 'wdata':
        return oracle_wdata(case, out)
    if d.get('op') == 'nrun':
        return oracle_nrun(case, out)
    if out.startswith('ERR:'):
        return f'running the history raised outside any save: {out}'
    return oracle_recs(d, ex['recs'])


def oracle_recs(d, recs):
    """the property on a recorded history: every save (failed or not) left the image as it was (or harmonised),
    every completed save wrote the bytes a first clean save of a fresh identical image writes, and those decode"""
    cls = d['cls']
    applied = []
    for rec in recs:
        op = rec['op']
        if op[0] in ('D', 'A', 'E'):
            applied.append(op)
            continue
        _, dt, fault, _ = op[:4]
        how = f'owned={d["owned"]}' + (f', through {op[4]}' if len(op) > 4 else '')
        if rec.get('nop'):
            how = f'by name through {rec["nop"][3]} onto {rec["nop"][2]}*{d.get("cext") or "(plain)"}'
        desc = (f'{cls} save #{rec["j"]} (dtype={dt}, fault={fault}, {how}, result {rec["res"]}, '
                f'I/O calls {len(rec["log"])})')
        # the image after the save is the image before it, or — after an in-place edit of affine / header —
        # that image with update_header() applied (computed on a deep copy); the latter if the save succeeded
        ch = diff_state(rec['harm'], rec['after'])
        if ch and rec['res'] != 'ok' and not diff_state(rec['before'], rec['after']):
            ch = []
        if ch:
            det = ''
            if 'fields' in ch:
                det = f' (offset, dtype code, slope, inter: {rec["before"]["fields"]} -> {rec["after"]["fields"]})'
            elif 'alias' in ch or 'get_data_dtype()' in ch:
                det = f' ({rec["before"]["get_data_dtype()"]} -> {rec["after"]["get_data_dtype()"]})'
            return f'{desc}: the save changed the image: {ch}{det}'
        if op[0] == 'OS':
            continue
        rres, rbytes = reference(d, applied, dt)
        if any(o[0] == 'E' for o in applied) and not diff_state(rec['harm'], rec['after']):
            applied.append(['U'])     # later references must harmonise at the same point of the edit sequence
        if rec['res'] == 'ok':
            if rres != 'ok':
                return f'{desc}: save succeeded although a first clean save of a fresh identical image raises {rres}'
            if rec['bytes'] != rbytes:
                bad = [k for k in rbytes if rec['bytes'].get(k) != rbytes[k]]
                return (f'{desc}: bytes written differ from a first clean save of a fresh identical image '
                        f'(files {bad}; lengths {[len(rec["bytes"][k]) for k in bad]} vs {[len(rbytes[k]) for k in bad]})')
            f = rec['before']['fields']
            autoscale = f[2] == 'n' and f[3] == 'n'
            bad = decode_check(d, desc, rec['bytes'], applied, dt, autoscale, rec.get('aff_now'))
            if bad:
                return bad
        elif rec['res'] == 'ERR:OSError':
            if fault is None:
                return f'{desc}: OSError without an injected fault'
        else:
            if rres != rec['res']:
                return f'{desc}: raised {rec["res"]} but a first clean save of a fresh identical image gives {rres}'
    return None


def oracle_byname(case, out):
    d = case.data
    ex = case.extra or {}
    if 'outs' not in ex:
        return f'by-name save did not run: {out}'
    desc = f'{d["cls"]} to_filename(*{d["cext"] or "(plain)"}) setdt={d.get("setdt")}'
    (r1, f1) = ex['outs'][0]
    for a in ex['after']:
        ch = diff_state(ex['before'], a)
        if ch:
            return f'{desc}: the save changed the image: {ch}'
    for nth, (r2, f2) in enumerate(ex['outs'][1:], 2):
        bad = _byname_pair(desc, nth, r1, f1, r2, f2)
        if bad:
            return bad
    return _byname_loaded(d, desc, r1, ex)


def _byname_pair(desc, nth, r1, f1, r2, f2):
    if r1 != r2:
        return f'{desc}: first save {r1}, save #{nth} {r2}'
    if r1 != 'ok':
        return None
    if sorted(f1) != sorted(f2):
        return f'{desc}: file sets differ {sorted(f1)} vs {sorted(f2)}'
    for k in f1:
        if f1[k] != f2[k]:
            i = next((i for i, (x, y) in enumerate(zip(f1[k], f2[k])) if x != y), min(len(f1[k]), len(f2[k])))
            return (f'{desc}: save #1 and save #{nth} of the unchanged image differ in {k} at byte {i} '
                    f'(lengths {len(f1[k])}, {len(f2[k])})')
    return None


def _byname_loaded(d, desc, r1, ex):
    if r1 != 'ok':
        # a refusal (e.g. WriterError) is not a violation of this property
        return None
    lb = ex.get('loaded')
    if isinstance(lb, str):
        return f'{desc}: saved file does not load: {lb}'
    if lb is not None:
        got, aff, dts = lb
        arr = make_array(d['data']).astype(np.float64)
        if got.shape != arr.shape and got.size == arr.size:
            got = got.reshape(arr.shape)
        err = float(np.abs(got - arr).max())
        amax = float(np.abs(arr).max())
        tol = amax * 1e-6 if np.dtype(dts).kind == 'f' else (amax * 2 / 65000 + amax * 1e-5)
        if err > tol:
            return f'{desc}: reloaded data differ by {err:g} (allowed {tol:g})'
    return None


def signature(case, what):
    d = case.data
    if d.get('op') == 'byname':
        return f'byname:{d["cls"]}:{d["cext"]}:' + ('not-identical' if 'differ in' in what else 'other')
    if d.get('op') == 'gzhdr':
        return 'gzip:header-not-deterministic'
    if d.get('op') == 'matload':
        return f'matload:{d["cls"]}:{d["keys"]}'
    if d.get('op') == 'mapsfile':
        return f'mapsfile:{d["wrap"]}'
    if d.get('op') == 'wdata':
        return 'write_data:stores-into-input'
    if d.get('op') == 'lrun':
        kind = ('crash' if 'process died' in what else 'state-changed' if 'changed the image' in what else
                'not-identical' if 'byte-identical' in what else 'decode')
        return f'loaded:{d["cls"]}:{kind}'
    fam = 'nifti' if d['cls'] in NIFTI else d['cls']
    if 'changed the image' in what:
        kind = 'state-changed:' + ('alias' if d.get('alias') or any(op[0] == 'A' for op in d['ops']) else 'plain')
        kind += ':after-failure' if 'result ERR' in what else ':after-success'
    elif 'bytes written differ' in what:
        kind = 'retry-bytes'
    elif 'fresh load' in what or 'does not load' in what or 'affine' in what:
        kind = 'decode'
    else:
        kind = 'other'
    return f'save:{fam}:{kind}'
