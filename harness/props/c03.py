"""C03 — array proxies: file scaling applied exactly; partial reads equal slicing.

Every proxy implementation gets a FILE BUILDER (the harness writes the bytes itself, or patches files
written by nibabel, so that the stored raw numbers and the scale factors are known), an INDEPENDENT
DECODER (expected `np.asarray(proxy)`, two-step IEEE `fl(fl(raw*slope)+inter)`), and a value -> (stored
element number, scale slot) look-up table, so that the real result of `proxy[idx]` can be printed as
exact integers and compared with the Lean model (no float ever reaches Lean).
"""
import atexit
import logging
import bz2
import gzip
import io
import os
import random
import shutil
import struct
import tempfile
import warnings

import numpy as np

from common import Case, errname, REPO

PID = 'C03'
LEAN_TARGETS = ['NibabelModel.Props.C03']
THEOREMS = [
    'Nb.C03.pointwise_commutes_with_gather',
    'Nb.C03.proxyArray_eq',
    'Nb.C03.getitem_whole_eq_index_of_array',
    'Nb.C03.getitem_eq_index_of_array',
    'Nb.C03.getitem_eq_index_of_array_default',
    'Nb.C03.getitem_eq_index_of_array_total',
    'Nb.C03.npIndex_lt',
    'Nb.C03.reshape_same_elements',
    'Nb.C03.reshape_orig_counterexample',
    'Nb.C03.reshape_getitem_eq_reshaped_array',
    'Nb.C03.reshape_fails_iff',
    'Nb.C03.frozen_params',
    'Nb.C03.frozen_reads',
    'Nb.C03.frozen_alias_counterexample',
    'Nb.C03.afni_scaling_per_subbrick',
    'Nb.C03.afni_scale_alongside',
    'Nb.C03.afni_zero_factor_means_one',
    'Nb.C03.afni_all_zero_no_scaling',
    'Nb.C03.parrec_whole_sequential',
    'Nb.C03.parrec_indices',
    'Nb.C03.parrec_unscaled_eq',
    'Nb.C03.parrec_guard_from_source',
    'Nb.C03.parrec_guard_exact',
    'Nb.C03.parrec_fast_path_taken_iff_correct',
    'Nb.C03.minc_scale_alongside',
    'Nb.C03.ecat_array_frames',
    'Nb.C03.ecat_frames',
    'Nb.C03.ecat_frames_orig_counterexample',
    'Nb.C03.ecat_frames_orig_reversed_counterexample',
    'Nb.C03.ecat_frame_order_sorted',
    'Nb.C03.ecat_frames_by_row',
    'Nb.C03.ecat_frame_order_from_source',
    'Nb.C03.getitem_eq_index_of_array_heuristic',
    'Nb.C03.hist_reads_independent',
    'Nb.C03.hist_generic_eq_numpy',
    'Nb.C03.hist_ecat_eq_numpy',
    'Nb.C03.hist_cache_counterexample',
]
ASSUMPTIONS = [
    'hand-written Lean model of the proxy logic (Model/C03.lean on top of Model/C06.lean), tied to the code by the '
    'differential correspondence run on every case of this run (element numbers + scale slots)',
    'the scaling arithmetic is a POINTWISE function parameter of the model: NumPy float evaluation and dtype '
    'promotion (apply_read_scaling, raw*slope+inter, out*=slope; out+=inter) are external; the oracle checks them '
    'against the two-step IEEE evaluation with NumPy itself',
    'getitem_eq_index_of_array_default/_total and parrec_unscaled_eq rest on the C06 theorem '
    'Nb.C06.fileslice_threshold_eq_numpy, getitem_eq_index_of_array_heuristic on Nb.C06.fileslice_eq_numpy (Props/C06.lean, '
    'imported): every heuristic that never answers "contiguous" for an integer index (optimize_slicer raises otherwise)',
    'histories: array objects handed to the caller are modelled as heap cells (Model/C03_Hist.lean: a fresh cell per read, '
    'the proxy keeps no reference); that Python/NumPy object identity and in-place edits behave like that is the '
    'modelling assumption, tied by the hist streams (every returned object retained, edited in place, re-compared after '
    'the proxy is released); what an in-place edit does to the edited array itself is not modelled (printed as "-")',
    'NumPy basic indexing (Nb.C06.npIndex / NdArr.index), Python slices (Basic/PySlice) and NumPy slice assignment '
    '(setAxis) are specifications, validated here through the correspondence run',
    'netCDF / HDF5 readers (nibabel.externals.netcdf, h5py), gzip/bz2/zstd, indexed_gzip, mmap are external',
    'PAR/REC: the fast-path guard and the offset/order constants of its fileslice call are REGENERATED from the working '
    'tree (Generated/C03Parrec.lean, a small NumPy-expression translator in regen(); the shape of _get_unscaled is checked '
    'structurally) and proved equal to the model guard; which REC slices make up the image (get_sorted_slice_indices, '
    'truncation, strict/lax sorting) is property C20 - here the index vector is computed by the harness from an '
    'independent statement of the rule and the proxy is proved/checked for ARBITRARY index vectors',
    'ECAT: get_frame_order is modelled on the id column; the id column, validity test, replacement of invalid ids, n_valid '
    'cut and the frame_mapping field used by the three data_from_fileobj call sites are REGENERATED from the working tree '
    '(Generated/C03Ecat.lean, theorem ecat_frame_order_from_source); np.argsort is modelled as a stable insertion sort - '
    'NumPy\'s default sort is not stable, so the frame order of a directory with DUPLICATE valid ids is unspecified by '
    'the code itself and outside model and generator (equal replaced invalid ids are cut off by n_valid); reading the '
    'matrix list and sub-headers from the file is external (harness writes them itself)',
    'frozen_reads: header objects live on a modelled heap, the proxy holds a reference and copies; that Python object '
    'identity behaves like heap cells is the modelling assumption, tied by the frozen-read stream (edits of the very '
    'header object the proxy was built from, and of the loaded image header, between two reads)',
]
RULE = ('one stream per proxy implementation (NIfTI-1 single/pair, NIfTI-2, Analyze, SPM99, MGH, direct ArrayProxy in C '
        'and F order, AFNI BRIK/HEAD with per-sub-brick factors incl. zero, multi-frame ECAT7 incl. frames stored out of '
        'order, PAR/REC incl. interleaved slices, MINC1 (netCDF) and MINC2 (HDF5) with 0/1/2 scaling dimensions, CIFTI-2 '
        'reshaped proxy, explicit reshape() and copy() of F- and C-order proxies) x random basic index tuples (ints, slices of any sign incl. out-of-range '
        'bounds, Ellipsis, newaxis, out-of-range ints) x mmap x keep_file_open x compression x indexed_gzip flag x '
        '{path, open file object at a random position}, an optional earlier read on the same proxy; exhaustive frame-axis '
        'slices for ECAT. PAR/REC additionally with non-default load options: permit_truncated on TRUNCATED recordings '
        'whose lost slices sit anywhere in the REC file (tail, end of a middle volume, any slices of one volume, a whole '
        'volume, random rows; volume-major / shuffled / slice-major / reversed-volume storage) so that the kept index '
        'vector is sequential, ascending WITH HOLES or unordered, x strict_sort x scaling dv/fp x nib.load / '
        'from_filename / from_file_map / direct proxy construction. ECAT: whole array per build, matrix lists not in '
        'ascending id order x integer frame index x new axes; element numbers are FILE rows and every element carries the '
        'sub-header row whose scale factor it was multiplied with. AFNI: >= 2 sub-bricks with non-zero factors x new axes '
        'after the sub-brick axis. frozen-read: header object edited (shape, dtype, offset, slope/inter) between two reads. '
        'ECAT additionally: directory entries with invalid ids (0, negative) between the valid ones, matrix-list array longer '
        'than the directory (num_frames larger than the rows written). HISTORIES (hist:<class> streams, every proxy class, '
        '(build, configuration) pairs drawn by the other streams\' generators, optional reshape() first): 3-10 steps on ONE '
        'proxy object - np.asarray(proxy), np.asarray(proxy, dtype=float64), proxy[idx] incl. refused indices, in-place '
        'edits (fill / scale / invert) of ANY array an earlier read returned; half of them start convert -> edit -> read; '
        'every read compared, all returned objects retained and re-compared after the proxy is released. '
        'Non-trivial = index is not all-full-slices; distinct by (format, build, config, index, header ops).')

# ------------------------------------------------------------------ regenerated from the working tree

GEN_PARREC = os.path.join(os.path.dirname(os.path.dirname(os.path.dirname(os.path.abspath(__file__)))),
                          'lean', 'NibabelModel', 'Generated', 'C03Parrec.lean')


class Untranslatable(Exception):
    pass


class NpExpr:
    """Translate a small NumPy expression over ONE integer vector (named `vec`) and integer constants into core
    Lean over `List Int` (vocabulary `Nb.C03.Np`: diff, item, any, all).  Kinds: 'v' vector of Int, 'b' vector of
    Bool, 's' Int scalar, 'p' Bool scalar.  Anything else raises Untranslatable (-> regeneration fails -> reported)."""
    CMP = {'NotEq': '!=', 'Eq': '==', 'Lt': '<', 'LtE': '<=', 'Gt': '>', 'GtE': '>='}

    def __init__(self, vec):
        self.vec = vec

    def tr(self, n):
        import ast
        if isinstance(n, ast.BoolOp):
            parts = [self.want(v, 'p') for v in n.values]
            return '(' + (' || ' if isinstance(n.op, ast.Or) else ' && ').join(parts) + ')', 'p'
        if isinstance(n, ast.UnaryOp) and isinstance(n.op, ast.Not):
            return '(!' + self.want(n.operand, 'p') + ')', 'p'
        if isinstance(n, ast.UnaryOp) and isinstance(n.op, ast.USub) and isinstance(n.operand, ast.Constant) \
                and type(n.operand.value) is int:
            return '(%d : Int)' % -n.operand.value, 's'
        if isinstance(n, ast.Constant) and type(n.value) is int:
            return '(%d : Int)' % n.value, 's'
        if isinstance(n, ast.Name) and n.id == self.vec:
            return self.vec, 'v'
        if isinstance(n, ast.Subscript):
            base, k = self.tr(n.value)
            idx, ki = self.tr(n.slice)
            if k != 'v' or ki != 's':
                raise Untranslatable(ast.dump(n))
            return f'(Np.item {base} {idx})', 's'
        if isinstance(n, ast.Compare) and len(n.ops) == 1:
            op = self.CMP.get(type(n.ops[0]).__name__)
            l, kl = self.tr(n.left)
            r, kr = self.tr(n.comparators[0])
            if op is None or kr != 's':
                raise Untranslatable(ast.dump(n))
            if kl == 's':
                return f'(decide ({l} {op} {r}))' if op not in ('!=', '==') else f'({l} {op} {r})', 'p'
            if kl == 'v':
                body = f'decide (x {op} {r})' if op not in ('!=', '==') else f'x {op} {r}'
                return f'({l}.map (fun x => {body}))', 'b'
            raise Untranslatable(ast.dump(n))
        if isinstance(n, ast.BinOp) and type(n.op).__name__ in ('Add', 'Sub', 'Mult'):
            l, kl = self.tr(n.left)
            r, kr = self.tr(n.right)
            if kl == kr == 's':
                return f'({l} {dict(Add="+", Sub="-", Mult="*")[type(n.op).__name__]} {r})', 's'
            raise Untranslatable(ast.dump(n))
        if isinstance(n, ast.Call) and not n.keywords and len(n.args) == 1:
            f = n.func
            name = f.attr if (isinstance(f, ast.Attribute) and isinstance(f.value, ast.Name) and f.value.id == 'np') \
                else (f.id if isinstance(f, ast.Name) else None)
            a, ka = self.tr(n.args[0])
            if name == 'diff' and ka == 'v':
                return f'(Np.diff {a})', 'v'
            if name in ('any', 'all') and ka == 'b':
                return f'(Np.{name} {a})', 'p'
            if name == 'len' and ka == 'v':
                return f'(({a}.length : Nat) : Int)', 's'
        raise Untranslatable(ast.dump(n))

    def want(self, n, kind):
        t, k = self.tr(n)
        if k != kind:
            import ast
            raise Untranslatable(f'kind {k} where {kind} expected: ' + ast.dump(n))
        return t


def parrec_fast_path_source():
    """(guard expression AST, its text, offset constant, order constant) of `PARRECArrayProxy._get_unscaled` in the
    working tree; the STRUCTURE of the function is checked on the way (Untranslatable otherwise)."""
    import ast
    src = open(os.path.join(REPO, 'nibabel', 'parrec.py')).read()
    tree = ast.parse(src)
    cls = [n for n in tree.body if isinstance(n, ast.ClassDef) and n.name == 'PARRECArrayProxy']
    fn = [n for n in cls[0].body if isinstance(n, ast.FunctionDef) and n.name == '_get_unscaled'][0]
    body = [st for st in fn.body if not (isinstance(st, ast.Expr) and isinstance(st.value, ast.Constant))]
    if len(body) != 3:
        raise Untranslatable('_get_unscaled: expected assignment, if/elif, with')
    asg, iff, tail = body
    if not (isinstance(asg, ast.Assign) and ast.unparse(asg) == 'indices = self._slice_indices'):
        raise Untranslatable('first statement: ' + ast.unparse(asg))
    if not (isinstance(iff, ast.If) and ast.unparse(iff.test) == 'slicer == ()' and len(iff.orelse) == 1
            and isinstance(iff.orelse[0], ast.If) and not iff.orelse[0].orelse):
        raise Untranslatable('if/elif structure')
    whole = ast.unparse(iff.body)
    if 'rec_data = rec_data[..., indices]' not in whole or "return rec_data.reshape(self._shape, order='F')" not in whole:
        raise Untranslatable('whole-array branch: ' + whole)
    el = iff.orelse[0]
    if [ast.unparse(st) for st in el.body] != ['return self._get_unscaled(())[slicer]']:
        raise Untranslatable('elif body: ' + ast.unparse(el.body))
    if not (isinstance(tail, ast.With) and len(tail.body) == 1 and isinstance(tail.body[0], ast.Return)):
        raise Untranslatable('fast path: ' + ast.unparse(tail))
    call = tail.body[0].value
    if not (isinstance(call, ast.Call) and ast.unparse(call.func) == 'fileslice' and not call.keywords
            and [ast.unparse(a) for a in call.args[:4]] == ['fileobj', 'slicer', 'self._shape', 'self._dtype']
            and len(call.args) == 6 and isinstance(call.args[4], ast.Constant) and type(call.args[4].value) is int
            and call.args[4].value >= 0 and isinstance(call.args[5], ast.Constant) and call.args[5].value in ('F', 'C')):
        raise Untranslatable('fileslice call: ' + ast.unparse(call))
    return el.test, ast.unparse(el.test), call.args[4].value, call.args[5].value


GEN_ECAT = os.path.join(os.path.dirname(GEN_PARREC), 'C03Ecat.lean')


def ecat_frame_order_source():
    """Generated/C03Ecat.lean from `get_frame_order` and its two call sites in `EcatImageArrayProxy` (working tree):
    which column holds the matrix id, which ids count as valid, what invalid ids are replaced with, and which field of
    a `frame_mapping` entry is handed to `data_from_fileobj`.  The statement structure is checked on the way."""
    import ast
    src = open(os.path.join(REPO, 'nibabel', 'ecat.py')).read()
    tree = ast.parse(src)
    fn = [n for n in tree.body if isinstance(n, ast.FunctionDef) and n.name == 'get_frame_order'][0]
    body = [st for st in fn.body if not (isinstance(st, ast.Expr) and isinstance(st.value, ast.Constant))]
    if len(body) != 8:
        raise Untranslatable('get_frame_order: expected 8 statements, found %d' % len(body))
    u = [ast.unparse(st) for st in body]
    cmpops = {'Gt': '>', 'GtE': '>=', 'Lt': '<', 'LtE': '<=', 'Eq': '==', 'NotEq': '!='}

    def int_const(n):
        if isinstance(n, ast.Constant) and type(n.value) is int:
            return n.value
        if isinstance(n, ast.UnaryOp) and isinstance(n.op, ast.USub) and isinstance(n.operand, ast.Constant) \
                and type(n.operand.value) is int:
            return -n.operand.value
        raise Untranslatable(ast.dump(n))

    def ids_cmp(n):
        if not (isinstance(n, ast.Compare) and len(n.ops) == 1 and ast.unparse(n.left) == 'ids'
                and type(n.ops[0]).__name__ in cmpops):
            raise Untranslatable(ast.unparse(n))
        return cmpops[type(n.ops[0]).__name__], int_const(n.comparators[0])
    # ids = mlist[:, COL].copy()
    st = body[0]
    if not (isinstance(st, ast.Assign) and ast.unparse(st.targets[0]) == 'ids' and isinstance(st.value, ast.Call)
            and ast.unparse(st.value.func).startswith('mlist[:, ') and ast.unparse(st.value.func).endswith('].copy')
            and not st.value.args):
        raise Untranslatable(u[0])
    col = int_const(st.value.func.value.slice.elts[1])
    # n_valid = np.sum(ids > 0)
    st = body[1]
    if not (isinstance(st, ast.Assign) and ast.unparse(st.targets[0]) == 'n_valid' and isinstance(st.value, ast.Call)
            and ast.unparse(st.value.func) == 'np.sum' and len(st.value.args) == 1 and not st.value.keywords):
        raise Untranslatable(u[1])
    vop, vc = ids_cmp(st.value.args[0])
    # ids[ids <= 0] = ids.max() + 1
    st = body[2]
    if not (isinstance(st, ast.Assign) and isinstance(st.targets[0], ast.Subscript)
            and ast.unparse(st.targets[0].value) == 'ids' and isinstance(st.value, ast.BinOp)
            and isinstance(st.value.op, (ast.Add, ast.Sub)) and ast.unparse(st.value.left) == 'ids.max()'):
        raise Untranslatable(u[2])
    iop, ic = ids_cmp(st.targets[0].slice)
    inc = int_const(st.value.right) * (1 if isinstance(st.value.op, ast.Add) else -1)
    if u[3] != 'valid_order = np.argsort(ids)':
        raise Untranslatable(u[3])
    st = body[4]
    if not (isinstance(st, ast.If) and not st.orelse and len(st.body) == 1 and isinstance(st.body[0], ast.Expr)
            and ast.unparse(st.body[0].value.func) == 'warnings.warn_explicit'):
        raise Untranslatable(u[4])
    if u[5] != 'id_dict = {}' or u[7] != 'return id_dict' or \
            u[6] != 'for i in range(n_valid):\n    id_dict[i] = [valid_order[i], ids[valid_order[i]]]':
        raise Untranslatable('loop / return: ' + u[6])
    # call sites: data_from_fileobj(frame_mapping[<frame>][FIELD]) in __array__ and __getitem__
    cls = [n for n in tree.body if isinstance(n, ast.ClassDef) and n.name == 'EcatImageArrayProxy'][0]
    fields, keys = [], []
    for meth in cls.body:
        if isinstance(meth, ast.FunctionDef) and meth.name in ('__array__', '__getitem__'):
            if 'frame_mapping = get_frame_order(self._subheader._mlist)' not in \
                    [ast.unparse(x) for x in ast.walk(meth) if isinstance(x, ast.Assign)]:
                raise Untranslatable(meth.name + ': frame_mapping is not get_frame_order(self._subheader._mlist)')
            for n in ast.walk(meth):
                if isinstance(n, ast.Call) and ast.unparse(n.func).endswith('data_from_fileobj'):
                    a = n.args[0] if len(n.args) == 1 and not n.keywords else None
                    if not (isinstance(a, ast.Subscript) and isinstance(a.value, ast.Subscript)
                            and ast.unparse(a.value.value) == 'frame_mapping'):
                        raise Untranslatable(meth.name + ': ' + ast.unparse(n))
                    fields.append(int_const(a.slice))
                    keys.append((meth.name, ast.unparse(a.value.slice)))
    if sorted(keys) != [('__array__', 'i'), ('__getitem__', 'i'), ('__getitem__', 'slice3')]:
        raise Untranslatable('data_from_fileobj call sites: %r' % (keys,))
    if len(set(fields)) != 1:
        raise Untranslatable('data_from_fileobj call sites use different fields of the frame_mapping entry: %r' % fields)
    return f"""import NibabelModel.Model.C03
/-! GENERATED by harness/props/c03.py regen() from the working tree of nibabel (nibabel/ecat.py, `get_frame_order` and
    the `data_from_fileobj(frame_mapping[…][…])` calls of `EcatImageArrayProxy`). Do not edit: rewritten on every run of
    `./check C03`. Core Lean only. -/
namespace Nb.Gen.C03
open Nb Nb.C03

/-- `ids = mlist[:, {col}].copy()` -/
def ecatIdColumn : Nat := {col}

/-- `n_valid = np.sum(ids {vop} {vc})` -/
def ecatNValid (ids : List Int) : Nat := (ids.filter (fun v => decide (v {vop} ({vc} : Int)))).length

/-- `ids[ids {iop} {ic}] = ids.max() + {inc}` -/
def ecatEffIds (ids : List Int) : List Int :=
  let mx := ids.foldl max (ids.headD 0)
  ids.map (fun v => if v {iop} ({ic} : Int) then mx + ({inc} : Int) else v)

/-- `id_dict[i] = [valid_order[i], ids[valid_order[i]]]`; all three call sites pass `frame_mapping[…][{fields[0]}]` -/
def ecatRowField : Nat := {fields[0]}

end Nb.Gen.C03
"""


def regen():
    """Generated/C03Parrec.lean: the fast-path guard of `PARRECArrayProxy._get_unscaled` translated from the working
    tree + the offset/order constants of its `fileslice` call (theorem `Nb.C03.parrec_guard_from_source`)."""
    from common import write_if_changed
    test, text, off, order = parrec_fast_path_source()
    lean, kind = NpExpr('indices').tr(test)
    if kind != 'p':
        raise Untranslatable('guard is not a Bool scalar')
    out = f"""import NibabelModel.Model.C03
/-! GENERATED by harness/props/c03.py regen() from the working tree of nibabel (nibabel/parrec.py,
    `PARRECArrayProxy._get_unscaled`). Do not edit: rewritten on every run of `./check C03`. Core Lean only. -/
namespace Nb.Gen.C03
open Nb Nb.C03

/-- the test of the `elif` (True = fall back to "read everything, reorder, then index"):
    `{text}` -/
def parrecFallback (indices : List Int) : Bool :=
  {lean}

/-- `fileslice(fileobj, slicer, self._shape, self._dtype, {off}, '{order}')` -/
def parrecFastOffset : Nat := {off}
def parrecFastOrder : Nb.C06.Order := .{order}

end Nb.Gen.C03
"""
    write_if_changed(GEN_PARREC, out)
    write_if_changed(GEN_ECAT, ecat_frame_order_source())
    return ['Generated.C03Parrec.parrecFallback', 'Generated.C03Parrec.parrecFastOffset/Order',
            'Generated.C03Ecat.ecatNValid/ecatEffIds/ecatIdColumn/ecatRowField']


PENDING_FINDINGS = [
    {'property': 'C03', 'signature': 'afni:reshape:raise', 'status': 'open',
     'what': 'AFNIArrayProxy.reshape() raises TypeError (ArrayProxy.reshape re-instantiates self.__class__ with the '
             'keywords file_like=/spec=/order=, which AFNIArrayProxy.__init__(file_like, header, *, mmap, keep_file_open) '
             'does not accept): the AFNI proxy inherits a public reshape() that cannot work',
     'input': {'op': 'reshape', 'build': {'fmt': 'afni', 'shape': [2, 1, 1, 2], 'dt': 'i2', 'facs': [0.5, 2.25],
                                          'bo': 'LSB_FIRST', 'comp': 'plain', 'seed': 5},
               'cfg': {'mmap': True, 'kfo': False, 'src': 'path', 'igzip': True}, 'idx': [], 'pre': None,
               'newshape': [2, 2], 'stream': 'afni-reshape'}},
    {'property': 'C03', 'signature': 'afni:copy:raise', 'status': 'open',
     'what': 'AFNIArrayProxy.copy() raises TypeError (ArrayProxy.copy passes order= and a spec tuple to '
             'AFNIArrayProxy.__init__, which accepts neither)',
     'input': {'op': 'copy', 'build': {'fmt': 'afni', 'shape': [2, 1, 1, 2], 'dt': 'i2', 'facs': [0.5, 2.25],
                                       'bo': 'LSB_FIRST', 'comp': 'plain', 'seed': 5},
               'cfg': {'mmap': True, 'kfo': False, 'src': 'path', 'igzip': True}, 'idx': [], 'pre': None,
               'stream': 'afni-copy'}},
]

logging.getLogger('nibabel.global').setLevel(logging.CRITICAL)   # header-check chatter on odd offsets

_TMP = None
_BUILT = {}


_COUNTER = [0]


def next_id():
    _COUNTER[0] += 1
    return _COUNTER[0]


def tmpdir():
    global _TMP
    if _TMP is None:
        _TMP = tempfile.mkdtemp(prefix='c03_')
        atexit.register(shutil.rmtree, _TMP, True)
    return _TMP


# ------------------------------------------------------------------ index helpers (same syntax as C06)

def _fmt_o(v):
    return '_' if v is None else str(int(v))


def fmt_item(it):
    if it is None:
        return 'n'
    if it is Ellipsis:
        return 'e'
    if isinstance(it, slice):
        return 's' + ','.join(_fmt_o(v) for v in (it.start, it.stop, it.step))
    return 'i%d' % int(it)


def fmt_idx(idx):
    return ';'.join(fmt_item(i) for i in idx) if idx else '-'


def item_to_data(it):
    if it is None:
        return 'newaxis'
    if it is Ellipsis:
        return 'ellipsis'
    if isinstance(it, slice):
        return [it.start, it.stop, it.step]
    return int(it)


def item_from_data(d):
    if d == 'newaxis':
        return None
    if d == 'ellipsis':
        return Ellipsis
    if isinstance(d, list):
        return slice(*d)
    return int(d)


def bounds(n, pad=2):
    return [None] + list(range(-n - pad, n + pad + 1))


STEPS = [None, 1, 2, 3, -1, -2, -3]


def rand_item(rng, n, bad_int=False):
    r = rng.random()
    if r < 0.3 and n > 0:
        return rng.randrange(-n, n)
    if r < 0.33:
        return rng.randrange(-n - 2, n + 2) if bad_int else (rng.randrange(-n, n) if n else slice(None))
    if r < 0.45:
        return slice(None)
    if r < 0.5:
        return slice(0, n, rng.choice([None, 1]))
    return slice(rng.choice(bounds(n)), rng.choice(bounds(n)), rng.choice(STEPS))


def rand_index(rng, shape, bad_int=False):
    nd = len(shape)
    if rng.random() < 0.3:
        k = rng.randrange(0, nd + 1)
        before = rng.randrange(0, k + 1)
        axes = list(range(before)) + list(range(nd - (k - before), nd))
        items = [rand_item(rng, shape[a], bad_int) for a in axes]
        items = items[:before] + [Ellipsis] + items[before:]
    else:
        k = rng.randrange(0, nd + 1) if rng.random() < 0.3 else nd
        items = [rand_item(rng, shape[a], bad_int) for a in range(k)]
    for _ in range(rng.choice([0, 0, 0, 1, 2])):
        items.insert(rng.randrange(0, len(items) + 1), None)
    return tuple(items)


# ------------------------------------------------------------------ built files

class Built:
    """A file (set) on disk whose content is known exactly."""

    def __init__(self, fmt, shape, order, full, qarr, slotarr, alts, opener, model, files=()):
        self.fmt, self.shape, self.order = fmt, tuple(shape), order
        self.full = full            # expected np.asarray(proxy)  (independent decode)
        self.qarr = qarr            # model element number of every logical element
        self.slotarr = slotarr      # scale slot of every logical element (None: single/no scaling)
        self.opener = opener        # cfg -> proxy
        self.model = model          # idx -> protocol line (without the idx) pieces
        self.files = files
        self.lut = {}
        self.ambiguous = False
        self.alts = alts
        self._lut64 = None
        # alts: list of (slot, array like full decoded as if every element used that slot)
        for slot, arr in alts:
            a = np.ascontiguousarray(arr.astype(arr.dtype.newbyteorder('='), copy=False))
            isz = a.dtype.itemsize
            buf = a.tobytes()
            qs = np.ascontiguousarray(qarr).ravel()
            for k in range(a.size):
                key = (a.dtype.str, buf[k * isz:(k + 1) * isz])
                val = (int(qs[k]), slot)
                if self.lut.setdefault(key, val) != val:
                    self.ambiguous = True


def lut64(bt):
    """look-up table for results converted to float64 (`np.asarray(proxy, dtype=np.float64)`); only used where the
    conversion is exact (integer or float64 decode)"""
    if bt._lut64 is None:
        lut = {}
        qs = np.ascontiguousarray(bt.qarr).ravel()
        for slot, arr in bt.alts:
            a = np.ascontiguousarray(np.asarray(arr).astype(np.float64))
            buf = a.tobytes()
            for k in range(a.size):
                lut.setdefault(('<f8', buf[k * 8:(k + 1) * 8]), (int(qs[k]), slot))
        bt._lut64 = lut
    return bt._lut64


def bits_key(arr):
    a = np.ascontiguousarray(arr.astype(arr.dtype.newbyteorder('='), copy=False))
    isz = a.dtype.itemsize
    buf = a.tobytes()
    return [(a.dtype.str, buf[k * isz:(k + 1) * isz]) for k in range(a.size)]


def distinct_raw(rng, n, dt):
    """n distinct raw values of integer dtype `dt`, none zero, moderately spread"""
    info = np.iinfo(dt)
    lo, hi = max(info.min, -20000), min(info.max, 20000)
    pool = [v for v in range(lo, hi + 1) if v != 0]
    if n > len(pool):
        raise ValueError('array too large for distinct raw values')
    return np.array(rng.sample(pool, n), dtype=dt)


def comp_write(path, data):
    if path.endswith('.gz') or path.endswith('.mgz'):
        with gzip.open(path, 'wb') as f:
            f.write(data)
    elif path.endswith('.bz2'):
        with bz2.open(path, 'wb') as f:
            f.write(data)
    elif path.endswith('.zst'):
        from nibabel._compression import pyzstd
        with open(path, 'wb') as f:
            f.write(pyzstd.compress(data))
    else:
        with open(path, 'wb') as f:
            f.write(data)


COMP_EXT = {'plain': '', 'gz': '.gz', 'bz2': '.bz2', 'zst': '.zst'}


def have_zstd():
    from nibabel._compression import HAVE_ZSTD
    return HAVE_ZSTD


class IGzipFlag:
    """`nibabel.openers.HAVE_INDEXED_GZIP` switched for the duration of a read"""

    def __init__(self, on):
        self.on = on

    def __enter__(self):
        from nibabel import openers
        self.old = openers.HAVE_INDEXED_GZIP
        if not self.on:
            openers.HAVE_INDEXED_GZIP = False

    def __exit__(self, *a):
        from nibabel import openers
        openers.HAVE_INDEXED_GZIP = self.old


def scaled2(raw, slope, inter, ftype=np.float64):
    """two-step IEEE evaluation fl(fl(raw*slope)+inter) in `ftype`"""
    r = raw.astype(ftype)
    with np.errstate(all='ignore'):
        return (r * ftype(slope)) + ftype(inter)


# ---------------------------------------------------------------- generic ArrayProxy formats

GENERIC = ('nifti1', 'nifti1pair', 'nifti2', 'analyze', 'spm99', 'mgh', 'direct', 'cifti2')
DT = {'u1': np.dtype('u1'), 'i2': np.dtype('<i2'), 'i4': np.dtype('<i4'), 'f4': np.dtype('<f4'), 'bi2': np.dtype('>i2')}


def build_generic(b):
    """b: {'fmt', 'shape', 'dt', 'slope', 'inter', 'comp', 'seed', 'order'}"""
    import nibabel as nib
    fmt, shape, comp = b['fmt'], tuple(b['shape']), b.get('comp', 'plain')
    rng = random.Random(b['seed'])
    n = int(np.prod(shape))
    order = b.get('order', 'F')
    dt = DT[b['dt']]
    slope, inter = b.get('slope'), b.get('inter')
    if dt.kind == 'f':
        rawflat = np.array(rng.sample(range(-30000, 30000), n), dtype=dt) / dt.type(8)
        rawflat = rawflat.astype(dt)
    else:
        rawflat = distinct_raw(rng, n, dt).astype(dt)
    d = tmpdir()
    stem = os.path.join(d, 'g%d' % next_id())
    ext = COMP_EXT[comp]
    off = 0
    if fmt in ('nifti1', 'nifti2', 'cifti2'):
        klass = nib.Nifti1Header if fmt == 'nifti1' else nib.Nifti2Header
        hdr = klass()
        hdr.set_data_dtype(dt)
        hdr.set_data_shape(shape if fmt != 'cifti2' else (1, 1, 1, 1) + shape)
        set_si(hdr, slope, inter)
        off = b.get('off', 352 if fmt == 'nifti1' else 544)
        hdr.set_data_offset(off)
        blob = hdr.binaryblock
        if fmt == 'cifti2':
            blob = cifti_header_blob(hdr, shape)
            off = len(blob)
        else:
            blob = blob + b'\0\0\0\0'
            blob = blob + bytes((37 * i + 11) % 251 for i in range(off - len(blob)))
        path = stem + '.nii' + ext
        comp_write(path, blob + rawflat.tobytes())
        files = {'image': path}
    elif fmt in ('nifti1pair', 'analyze', 'spm99'):
        from nibabel.nifti1 import Nifti1PairHeader
        from nibabel.analyze import AnalyzeHeader
        from nibabel.spm99analyze import Spm99AnalyzeHeader
        klass = {'nifti1pair': Nifti1PairHeader, 'analyze': AnalyzeHeader, 'spm99': Spm99AnalyzeHeader}[fmt]
        hdr = klass()
        hdr.set_data_dtype(dt)
        hdr.set_data_shape(shape)
        if fmt == 'nifti1pair':
            set_si(hdr, slope, inter)
        elif fmt == 'spm99':
            hdr.set_slope_inter(slope, None)
            inter = None
        else:
            slope = inter = None
        off = b.get('off', 0)
        hdr.set_data_offset(off)
        hpath, ipath = stem + '.hdr' + ext, stem + '.img' + ext
        comp_write(hpath, hdr.binaryblock)
        comp_write(ipath, bytes((91 * i + 7) % 253 for i in range(off)) + rawflat.tobytes())
        files = {'header': hpath, 'image': ipath}
        path = ipath
    elif fmt == 'mgh':
        # written by nibabel's writer (MGH stores no scale factors); decoded from the bytes below
        dtb = dt.newbyteorder('>')
        arr = rawflat.reshape(shape, order='F')
        img = nib.MGHImage(arr, np.eye(4))
        path = stem + ('.mgz' if comp == 'gz' else '.mgh')
        img.to_filename(path)
        blob = gzip.open(path, 'rb').read() if comp == 'gz' else open(path, 'rb').read()
        off = 284
        back = np.frombuffer(blob, dtype=dtb, count=n, offset=off)
        assert np.array_equal(back, rawflat), 'MGH writer did not store the raw numbers'
        slope = inter = None
        files = {'image': path}
    elif fmt == 'direct':
        off = b.get('off', 7)
        path = stem + '.dat' + ext
        comp_write(path, bytes((37 * i + 11) % 251 for i in range(off)) + rawflat.tobytes())
        files = {'image': path}
    else:
        raise ValueError(fmt)
    # ---- independent decode of the bytes just written
    stored_dt = dt.newbyteorder('>') if fmt == 'mgh' else dt
    blob = read_plain(path)
    raw = np.frombuffer(blob, dtype=stored_dt, count=n, offset=off).reshape(shape, order=order)
    eff_slope, eff_inter = slope, inter
    if fmt in ('nifti1', 'nifti2', 'nifti1pair', 'cifti2'):
        # NIfTI stores slope/inter as float32 (NIfTI-1) / float64 (NIfTI-2); slope 0 or NaN = none
        sdt = np.float32 if fmt in ('nifti1', 'nifti1pair') else np.float64
        eff_slope = None if slope is None else float(sdt(slope))
        eff_inter = None if inter is None else float(sdt(inter))
        if eff_slope is not None and (eff_slope == 0 or not np.isfinite(eff_slope)):
            eff_slope = eff_inter = None
        if eff_slope is not None and eff_inter is None:
            eff_inter = 0.0
    if fmt == 'spm99' and slope is not None:
        eff_slope = float(np.float32(slope))
        eff_inter = 0.0
        if eff_slope == 0 or not np.isfinite(eff_slope):
            eff_slope = None
    if fmt == 'direct':
        eff_slope = 1.0 if slope is None else slope
        eff_inter = 0.0 if inter is None else inter
    if eff_slope is None or (eff_slope == 1.0 and eff_inter == 0.0):
        full = raw
    else:
        # SPM99 hands the slope on as a float32 scalar: the library evaluates in float32 for these raw dtypes;
        # all other formats hand on Python floats -> float64
        full = scaled2(raw, eff_slope, eff_inter, np.float32 if fmt == 'spm99' else np.float64)
    qarr = np.arange(n).reshape(shape, order=order)
    hdr_for_direct = (shape, stored_dt, off, 1.0 if slope is None else slope, 0.0 if inter is None else inter)

    def opener(cfg):
        return open_generic(fmt, files, cfg, hdr_for_direct, order, shape)
    bt = Built(fmt, shape, order, full, qarr, None, [(None, full)], opener, None, files)
    bt.off = off
    return bt


def set_si(hdr, slope, inter):
    if slope == 0:            # the setter refuses 0; the reader must treat a stored 0 as "no scaling"
        hdr['scl_slope'], hdr['scl_inter'] = 0, inter
    else:
        hdr.set_slope_inter(slope, inter)


def cifti_header_blob(hdr, shape):
    """NIfTI-2 header + CIFTI-2 extension for a (series x scalars-like) matrix: written by nibabel, the data
    bytes are appended by the caller"""
    import nibabel as nib
    from nibabel import cifti2 as ci
    ax0 = ci.SeriesAxis(0, 1, shape[0])
    ax1 = ci.ScalarAxis(['s%d' % i for i in range(shape[1])])
    img = ci.Cifti2Image(np.zeros(shape, dtype=np.float32), header=(ax0, ax1))
    bio = io.BytesIO()
    img.to_file_map({'image': nib.FileHolder(fileobj=bio)})
    blob = bytearray(bio.getvalue())
    # vox_offset of NIfTI-2: int64 at byte 168; datatype int16 at 12, bitpix at 14; slope/inter f8 at 176/184
    off = struct.unpack('<q', blob[168:176])[0]
    blob = blob[:off]
    blob[12:14] = hdr.binaryblock[12:14]
    blob[14:16] = hdr.binaryblock[14:16]
    blob[176:192] = hdr.binaryblock[176:192]
    return bytes(blob)


def read_plain(path):
    if path.endswith('.gz') or path.endswith('.mgz'):
        return gzip.open(path, 'rb').read()
    if path.endswith('.bz2'):
        return bz2.open(path, 'rb').read()
    if path.endswith('.zst'):
        from nibabel._compression import pyzstd
        return pyzstd.decompress(open(path, 'rb').read())
    return open(path, 'rb').read()


class Keep:
    """keeps file objects alive as long as the proxy"""
    objs = []


def open_generic(fmt, files, cfg, spec, order, shape):
    import nibabel as nib
    from nibabel.arrayproxy import ArrayProxy
    mmap, kfo, src = cfg['mmap'], cfg['kfo'], cfg['src']
    if fmt == 'direct':
        if src == 'path':
            return ArrayProxy(files['image'], spec, mmap=mmap, order=order, keep_file_open=kfo)
        fobj = make_fobj(files['image'], src, cfg)
        return ArrayProxy(fobj, spec, mmap=mmap, order=order, keep_file_open=kfo)
    from nibabel.spm99analyze import Spm99AnalyzeImage
    klass = {'nifti1': nib.Nifti1Image, 'nifti2': nib.Nifti2Image, 'nifti1pair': nib.Nifti1Pair,
             'analyze': nib.AnalyzeImage, 'spm99': Spm99AnalyzeImage, 'mgh': nib.MGHImage,
             'cifti2': nib.Cifti2Image}[fmt]
    if src == 'path':
        if cfg.get('via') == 'load':
            img = nib.load(files['image'], mmap=mmap, keep_file_open=kfo)
            if not isinstance(img, klass) and fmt not in ('analyze',):
                raise AssertionError(f'loaded {type(img).__name__} for {fmt}')
            if fmt == 'analyze' and not isinstance(img, klass):
                img = klass.from_filename(files['image'], mmap=mmap, keep_file_open=kfo)
        else:
            img = klass.from_filename(files['image'], mmap=mmap, keep_file_open=kfo)
        return img.dataobj
    fm = klass.make_file_map()
    for k in fm:
        if k in files:
            fm[k].fileobj = make_fobj(files[k], src, cfg)
        elif k == 'mat':
            fm[k].fileobj = io.BytesIO(b'')
        elif k == 'header':
            fm[k].fileobj = fm['image'].fileobj if fm['image'].fileobj is not None else make_fobj(files['image'], src, cfg)
    if 'header' in fm and fm['image'].fileobj is not None and 'header' not in files:
        fm['header'].fileobj = fm['image'].fileobj
    img = klass.from_file_map(fm, mmap=mmap, keep_file_open=kfo)
    return img.dataobj


def make_fobj(path, src, cfg):
    if src == 'bytesio':
        f = io.BytesIO(read_plain(path))
    else:
        f = open(path, 'rb')
    Keep.objs.append(f)
    if len(Keep.objs) > 64:
        old = Keep.objs.pop(0)
        try:
            old.close()
        except Exception:
            pass
    f.seek(cfg.get('pos', 0))
    return f


# ---------------------------------------------------------------- AFNI

HEAD_TMPL = """
type = string-attribute
name = TYPESTRING
count = 15
'3DIM_HEAD_ANAT~

type = integer-attribute
name = SCENE_DATA
count = 8
 0 2 0 -999 -999
 -999 -999 -999

type = integer-attribute
name = ORIENT_SPECIFIC
count = 3
 1 2 4

type  = float-attribute
name  = ORIGIN
count = 3
 66 87 -54

type  = float-attribute
name  = DELTA
count = 3
 -3 -3 3

type  = float-attribute
name  = IJK_TO_DICOM_REAL
count = 12
 -3 0 0 66 0
 -3 0 87 0 0
 3 -54

type = string-attribute
name = BYTEORDER_STRING
count = 10
'%(bo)s~

type = integer-attribute
name = DATASET_RANK
count = 8
 3 %(nvol)d 0 0 0
 0 0 0

type = integer-attribute
name = DATASET_DIMENSIONS
count = 5
 %(nx)d %(ny)d %(nz)d 0 0

type = integer-attribute
name = BRICK_TYPES
count = %(nvol)d
 %(types)s
%(facs)s
type = string-attribute
name = TEMPLATE_SPACE
count = 5
'ORIG~
"""


def build_afni(b):
    """b: {'shape' (4), 'dt' i2|f4|u1, 'facs' list of floats | None, 'bo' 'LSB_FIRST'|'MSB_FIRST', 'comp', 'seed'}"""
    shape = tuple(b['shape'])
    rng = random.Random(b['seed'])
    n = int(np.prod(shape))
    bo = b.get('bo', 'LSB_FIRST')
    code, base = {'u1': (0, 'u1'), 'i2': (1, 'i2'), 'f4': (3, 'f4')}[b['dt']]
    dt = np.dtype(('<' if bo == 'LSB_FIRST' else '>') + base)
    if dt.kind == 'f':
        rawflat = (np.array(rng.sample(range(-30000, 30000), n)) / 8.0).astype(dt)
    else:
        rawflat = distinct_raw(rng, n, dt).astype(dt)
    facs = b.get('facs')
    nvol = shape[3]
    factxt = ''
    if facs is not None:
        factxt = '\ntype = float-attribute\nname = BRICK_FLOAT_FACS\ncount = %d\n %s\n' % (
            nvol, ' '.join(repr(float(v)) for v in facs))
    head = HEAD_TMPL % dict(bo=bo, nvol=nvol, nx=shape[0], ny=shape[1], nz=shape[2],
                            types=' '.join([str(code)] * nvol), facs=factxt)
    stem = os.path.join(tmpdir(), 'a%d+orig' % next_id())
    with open(stem + '.HEAD', 'w') as f:
        f.write(head)
    comp = b.get('comp', 'plain')
    bpath = stem + '.BRIK' + COMP_EXT[comp]
    comp_write(bpath, rawflat.tobytes())
    files = {'header': stem + '.HEAD', 'image': bpath}
    # independent decode
    raw = np.frombuffer(read_plain(bpath), dtype=dt, count=n).reshape(shape, order='F')
    qarr = np.arange(n).reshape(shape, order='F')
    if facs is None or not any(v != 0 for v in facs):
        full, slotarr, alts = raw, None, [(None, raw)]
    else:
        eff = [1.0 if v == 0 else float(v) for v in facs]
        slots = [0 if v == 0 else t + 1 for t, v in enumerate(facs)]
        ft = np.result_type(dt, np.float64)
        with np.errstate(all='ignore'):
            full = raw.astype(ft) * np.array(eff, dtype=ft)
        slotarr = np.broadcast_to(np.array(slots), shape)
        alts = []
        for s, e in sorted(set(zip(slots, eff))):
            with np.errstate(all='ignore'):
                alts.append((s, raw.astype(ft) * ft.type(e)))

    def opener(cfg):
        import nibabel as nib
        from nibabel.brikhead import AFNIImage, AFNIArrayProxy, AFNIHeader
        if cfg['src'] == 'path':
            if cfg.get('via') == 'load':
                img = nib.load(files['header'], mmap=cfg['mmap'], keep_file_open=cfg['kfo'])
            else:
                img = AFNIImage.from_filename(files['image'], mmap=cfg['mmap'], keep_file_open=cfg['kfo'])
            assert isinstance(img, AFNIImage)
            return img.dataobj
        hdr = AFNIHeader.from_fileobj(open(files['header']))
        return AFNIArrayProxy(make_fobj(files['image'], cfg['src'], cfg), hdr, mmap=cfg['mmap'],
                              keep_file_open=cfg['kfo'])
    return Built('afni', shape, 'F', full, qarr, slotarr, alts, opener, None, files)


# ---------------------------------------------------------------- ECAT (builder after fixes/C03_ecat_frame_slicing_repro.py)

BLOCK = 512


def build_ecat(b):
    """b: {'shape3', 'nframes', 'orient' code, 'perm' (storage order of the frames) , 'seed'}"""
    from nibabel import ecat
    shape3, nfr = tuple(b['shape3']), b['nframes']
    rng = random.Random(b['seed'])
    with open(os.path.join(REPO, 'nibabel', 'tests', 'data', 'tinypet.v'), 'rb') as f:
        template = f.read()
    hdr = ecat.EcatHeader(template[:BLOCK], endianness='>')
    hdr['num_frames'] = nfr + len(b.get('holes') or []) + b.get('padrows', 0)   # rows of the matrix list array nibabel allocates
    calib = b.get('calib', 2.0)
    hdr['ecat_calibration_factor'] = calib
    hdr['patient_orientation'] = b.get('orient', 1)
    subhdr_dt = ecat.subhdr_dtype.newbyteorder('>')
    subhdr0 = np.ndarray((), dtype=subhdr_dt, buffer=template[2 * BLOCK:3 * BLOCK]).copy()
    x, y, z = shape3
    V = x * y * z
    nblk = -(-(V * 2) // BLOCK)
    perm = list(b.get('perm') or range(nfr))          # perm[k] = frame number stored in the k-th VALID mlist row
    # 'holes': positions (in the final row list) of directory entries with an INVALID matrix id (<= 0; get_frame_order:
    # "put invalid frames at end after sort") that still point at a sub-header + data blocks (junk)
    holes = sorted(b.get('holes') or [])
    R = nfr + len(holes)
    itp = iter(perm)
    layout = [None if r in holes else next(itp) for r in range(R)]
    mlist = np.zeros((32, 4), dtype='>i4')
    mlist[0] = (31 - R, 2, 0, R)
    blk = 3
    out = bytearray(hdr.binaryblock) + bytes(BLOCK)
    allraw = distinct_raw(rng, V * nfr, np.dtype('>i2')).astype('>i2').reshape((nfr,) + shape3)
    scales, scale_by_row = {}, {}
    for row in range(R):
        fno = layout[row]
        sh = subhdr0.copy()
        sh['x_dimension'], sh['y_dimension'], sh['z_dimension'] = x, y, z
        sh['data_type'] = 6
        if fno is None:
            mlist[row + 1] = (b.get('holeid', 0), blk, blk + nblk, 3)
            sh['scale_factor'] = np.float32(77.0)
            out += sh.tobytes().ljust(BLOCK, b'\0')
            out += np.full(V, 12345 + row, dtype='>i2').tobytes().ljust(nblk * BLOCK, b'\0')
        else:
            mlist[row + 1] = (16842752 + fno + 1, blk, blk + nblk, 1)
            sc = np.float32(0.5 * (fno + 1) + 0.015625 * fno * fno)
            sh['scale_factor'] = sc
            scales[fno] = float(sc)
            scale_by_row[row] = float(sc)
            out += sh.tobytes().ljust(BLOCK, b'\0')
            out += allraw[fno].tobytes(order='F').ljust(nblk * BLOCK, b'\0')
        blk += 1 + nblk
    out[BLOCK:2 * BLOCK] = mlist.tobytes()
    path = os.path.join(tmpdir(), 'e%d.v' % next_id())
    with open(path, 'wb') as f:
        f.write(out)
    # independent decode from the bytes: VALID entries (id > 0) in matrix-id order, orientation flips, two multiplications
    blob = open(path, 'rb').read()
    ml = np.frombuffer(blob, dtype='>i4', count=128, offset=BLOCK).reshape(32, 4)
    rows = sorted((r for r in range(1, 1 + int(ml[0, 3])) if int(ml[r, 0]) > 0), key=lambda r: int(ml[r, 0]))
    assert len(rows) == nfr
    shape4 = shape3 + (nfr,)
    full = np.empty(shape4)
    orient = b.get('orient', 1)
    for fno, r in enumerate(rows):
        start = int(ml[r, 1]) * BLOCK
        raw = np.frombuffer(blob, dtype='>i2', count=V, offset=start).reshape(shape3, order='F')
        if orient in (1, 3, 5, 7):       # neurological codes
            raw = raw[::-1, ::-1, ::-1]
        elif orient in (0, 2, 4, 6):
            raw = raw[:, ::-1, ::-1]
        sf = float(struct.unpack('>f', blob[start - BLOCK + 26:start - BLOCK + 30])[0])
        assert sf == scales[fno], (sf, scales[fno])
        full[..., fno] = (raw.astype(np.float64) * float(calib)) * sf
    # element numbers BY FILE ROW (0-based matrix-list row of the frame's volume), scale slot = that row
    qarr = np.empty(shape4, dtype=np.int64)
    slotarr = np.empty(shape4, dtype=np.int64)
    row_of = {fno: r - 1 for fno, r in enumerate(rows)}
    for fno in range(nfr):
        qarr[..., fno] = np.arange(V).reshape(shape3, order='F') + V * row_of[fno]
        slotarr[..., fno] = row_of[fno]
    alts = []
    for r0 in sorted(scale_by_row):   # the whole image as if every frame had been scaled with the factor stored in row r0
        alt = np.empty(shape4)
        for fno, r in enumerate(rows):
            start = int(ml[r, 1]) * BLOCK
            raw = np.frombuffer(blob, dtype='>i2', count=V, offset=start).reshape(shape3, order='F')
            if orient in (1, 3, 5, 7):
                raw = raw[::-1, ::-1, ::-1]
            elif orient in (0, 2, 4, 6):
                raw = raw[:, ::-1, ::-1]
            alt[..., fno] = (raw.astype(np.float64) * float(calib)) * scale_by_row[r0]
        alts.append((r0, alt))
    ids = [int(ml[r, 0]) for r in range(1, 1 + R)] + [0] * b.get('padrows', 0)

    def opener(cfg):
        with warnings.catch_warnings():
            warnings.simplefilter('ignore')
            if cfg['src'] == 'path':
                img = ecat.load(path)
            else:
                import nibabel as nib
                fm = ecat.EcatImage.make_file_map()
                fobj = make_fobj(path, cfg['src'], cfg)
                for k in fm:
                    fm[k].fileobj = fobj
                img = ecat.EcatImage.from_file_map(fm)
        assert isinstance(img.dataobj, ecat.EcatImageArrayProxy)
        return img.dataobj
    bt = Built('ecat', shape4, 'F', full, qarr, slotarr, alts, opener, None, {'image': path})
    bt.ids = ids
    return bt


# ---------------------------------------------------------------- PAR/REC

def parrec_kept(rows, ns, strict):
    """INDEPENDENT statement of which REC rows make up the loaded array, in output order (slice fastest).
    `rows`: [slice number, dynamic number] per REC row, as stored.
    lax   (strict_sort=False, documented: "volumes are sorted by the order in which the slices appear in the PAR
          file"): the k-th occurrence of slice number s is slice s of volume k; volumes that have every slice.
    strict: volumes are the dynamics (label 'dynamic scan number'), ordered by label; those that have every slice.
    Returns (indices, nvols); raises ValueError for the regions of the OPEN C20 findings (no complete volume /
    get_data_shape over-counting the complete volumes), which this property's generator stays out of."""
    occ, where_lax, where_dyn = {}, {}, {}
    for r, (s, d) in enumerate(rows):
        k = occ.get(s, 0)
        occ[s] = k + 1
        where_lax[(s, k)] = r
        where_dyn[(s, d)] = r
    if sorted(occ) != list(range(1, ns + 1)):
        raise ValueError('a slice number never occurs')
    nv_count = min(occ.values())
    if strict:
        dyns = sorted({d for _, d in rows})
        vols = [d for d in dyns if all((s, d) in where_dyn for s in range(1, ns + 1))]
        where = where_dyn
    else:
        vols = list(range(nv_count))
        where = where_lax
    if not vols or len(vols) != nv_count:
        raise ValueError('outside the region where the header counts the complete volumes correctly')
    return [where[(s, v)] for v in vols for s in range(1, ns + 1)], len(vols)


def build_parrec(b):
    """b: {'nx','ny','nslices','ndyn','rows' (list of [slice, dyn] in REC order) | None, 'scaled' bool, 'seed', 'comp',
           'drop' (positions in `rows` of image lines/REC slices that were never written: a TRUNCATED recording, needs
           'permit'), 'permit' (permit_truncated), 'strict' (strict_sort), 'scaling' ('dv' | 'fp')}"""
    rng = random.Random(b['seed'])
    nx, ny, ns, nd = b['nx'], b['ny'], b['nslices'], b['ndyn']
    lines = open(os.path.join(REPO, 'nibabel', 'tests', 'data', 'phantom_varscale.PAR')).read().split('\n')
    first = [i for i, l in enumerate(lines) if l.strip() and not l.startswith(('#', '.'))]
    tmpl = lines[first[0]].split()
    head, tail = lines[:first[0]], lines[first[-1] + 1:]
    head = [('.    Max. number of slices/locations     :   %d' % ns) if l.startswith('.    Max. number of slices') else
            ('.    Max. number of dynamics             :   %d' % nd) if l.startswith('.    Max. number of dynamics') else l
            for l in head]
    rows = b.get('rows') or [[s + 1, d + 1] for d in range(nd) for s in range(ns)]
    drop = set(b.get('drop') or ())
    rows = [r for i, r in enumerate(rows) if i not in drop]
    strict, permit, scaling = bool(b.get('strict')), bool(b.get('permit')), b.get('scaling', 'dv')
    S = nx * ny
    slopes, inters = [], []
    body = []
    for r, (s, d) in enumerate(rows):
        f = list(tmpl)
        f[0], f[2], f[6] = str(s), str(d), str(r)
        f[9], f[10] = str(nx), str(ny)
        if b.get('scaled', True):
            ri = round(rng.uniform(-3, 3), 5)
            rs = round(rng.uniform(0.05, 4), 5)
        else:
            ri, rs = 0.0, 1.0
        f[11], f[12] = repr(ri), repr(rs)
        ri, rs = float(repr(ri)), float(repr(rs))
        if scaling == 'fp':
            # FP = DV / (RS * SS): slope 1/SS, intercept RI/(RS*SS)   (parrec.py get_data_scaling)
            ss = round(rng.uniform(0.002, 0.9), 6)
            f[13] = repr(ss)
            ss = np.float64(float(repr(ss)))
            with np.errstate(all='ignore'):
                slopes.append(float(np.float64(1.0) / ss))
                inters.append(float(np.float64(ri) / (np.float64(rs) * ss)))
        else:
            inters.append(ri)
            slopes.append(rs)
        body.append('  ' + '  '.join(f))
    stem = os.path.join(tmpdir(), 'p%d' % next_id())
    with open(stem + '.PAR', 'w') as f:
        f.write('\n'.join(head + body + tail))
    nrec = len(rows)
    rawflat = distinct_raw(rng, S * nrec, np.dtype('<u2')).astype('<u2')
    comp = b.get('comp', 'plain')
    rpath = stem + '.REC' + COMP_EXT[comp]
    comp_write(rpath, rawflat.tobytes())
    # independent decode: output position k (slice fastest, then volume) -> REC row
    indices, nv = parrec_kept(rows, ns, strict)
    shape = (nx, ny, ns) + ((nv,) if nv > 1 else ())
    rec = np.frombuffer(read_plain(rpath), dtype='<u2', count=S * nrec).reshape((nx, ny, nrec), order='F')
    raw = rec[:, :, indices].reshape(shape, order='F')
    recq = np.arange(S * nrec).reshape((nx, ny, nrec), order='F')
    qarr = recq[:, :, indices].reshape(shape, order='F')
    K = len(indices)
    slotarr = np.broadcast_to(np.arange(K).reshape((1, 1) + shape[2:], order='F'), shape)
    sl = np.array([slopes[r] for r in indices]).reshape((1, 1) + shape[2:], order='F')
    it = np.array([inters[r] for r in indices]).reshape((1, 1) + shape[2:], order='F')
    with np.errstate(all='ignore'):
        full = raw.astype(np.float64) * sl + it
    alts = []
    for k in range(K):
        with np.errstate(all='ignore'):
            alts.append((k, raw.astype(np.float64) * slopes[indices[k]] + inters[indices[k]]))
    files = {'header': stem + '.PAR', 'image': rpath}
    kw = {}
    if permit:
        kw['permit_truncated'] = True
    if strict:
        kw['strict_sort'] = True
    if scaling != 'dv' or b.get('scaling'):
        kw['scaling'] = scaling

    def opener(cfg):
        import nibabel as nib
        from nibabel import parrec
        if cfg['src'] == 'path' and comp == 'plain':
            img = nib.load(files['header'], mmap=cfg['mmap'], **kw) if cfg.get('via') == 'load' else \
                parrec.PARRECImage.from_filename(files['header'], mmap=cfg['mmap'], **kw)
            assert isinstance(img.dataobj, parrec.PARRECArrayProxy)
            return img.dataobj
        if cfg['src'] != 'path' and cfg.get('via') == 'load':
            fm = parrec.PARRECImage.make_file_map()
            hf = open(files['header'], 'rt')
            Keep.objs.append(hf)
            fm['header'].fileobj = hf
            fm['image'].fileobj = make_fobj(files['image'], cfg['src'], cfg)
            img = parrec.PARRECImage.from_file_map(fm, mmap=cfg['mmap'], **kw)
            return img.dataobj
        hdr = parrec.PARRECHeader.from_fileobj(open(files['header']), permit_truncated=permit, strict_sort=strict)
        src = files['image'] if cfg['src'] == 'path' else make_fobj(files['image'], cfg['src'], cfg)
        return parrec.PARRECArrayProxy(src, hdr, mmap=cfg['mmap'], scaling=scaling)
    bt = Built('parrec', shape, 'F', full, qarr, slotarr, alts, opener, None, files)
    bt.indices, bt.S = indices, S
    return bt


# ---------------------------------------------------------------- MINC1 / MINC2

def minc_parts(b):
    rng = random.Random(b['seed'])
    shape = tuple(b['shape'])                      # C order: (z, y, x) or (t, z, y, x)
    n = int(np.prod(shape))
    dt = np.dtype({'u1': 'u1', 'i2': '>i2', 'u2': '>u2'}[b['dt']])
    info = np.iinfo(dt)
    ns = b['nscales']
    vr = b.get('valid_range') or [float(info.min), float(info.max)]
    lo, hi = max(info.min, -20000, int(vr[0])), min(info.max, 20000, int(vr[1]))
    vals = rng.sample(range(lo + 1, hi), n)
    if b.get('valid_range') and n >= 2:
        # exactly one value above and one below the valid range (clipped to dmax / dmin, which are not used otherwise)
        if int(vr[1]) + 5 <= info.max:
            vals[rng.randrange(n)] = int(vr[1]) + 5
        k = rng.randrange(n)
        if int(vr[0]) - 5 >= info.min and vals[k] <= int(vr[1]):
            vals[k] = int(vr[0]) - 5
    raw = np.array(vals).astype(dt).reshape(shape)
    sshape = shape[:ns]
    m = int(np.prod(sshape)) if ns else 1
    imin = np.array([round(rng.uniform(-5, 0), 4) + 0.37 * k for k in range(m)]).reshape(sshape)
    imax = imin + np.array([round(rng.uniform(1, 9), 4) + 0.11 * k for k in range(m)]).reshape(sshape)
    return shape, dt, raw, ns, vr, imin, imax


def minc_expected(raw, ns, vr, imin, imax, shape):
    dmin, dmax = float(vr[0]), float(vr[1])
    bshape = imin.shape + (1,) * (len(shape) - ns)

    def norm(mn, mx):
        with np.errstate(all='ignore'):
            out = np.clip(raw, dmin, dmax).astype(np.float64)
            slope = (mx - mn) / (dmax - dmin)
            inter = mn - dmin * slope
            out = out * slope
            out = out + inter
        return out
    full = norm(imin.reshape(bshape), imax.reshape(bshape))
    m = imin.size
    alts = [(k, norm(imin.ravel()[k], imax.ravel()[k])) for k in range(m)]
    slotarr = np.broadcast_to(np.arange(m).reshape(bshape), shape)
    return full, alts, slotarr


DIMNAMES = ['time', 'zspace', 'yspace', 'xspace']


def build_minc1(b):
    from scipy.io import netcdf_file as sp_netcdf
    shape, dt, raw, ns, vr, imin, imax = minc_parts(b)
    names = DIMNAMES[4 - len(shape):]
    comp = b.get('comp', 'plain')
    path0 = os.path.join(tmpdir(), 'm%d.mnc' % next_id())
    with warnings.catch_warnings():
        warnings.simplefilter('ignore')
        f = sp_netcdf(path0, 'w', mmap=False, version=1)
        for nm, ln in zip(names, shape):
            f.createDimension(nm, ln)
        tc = {'u1': 'b', 'i2': 'h', 'u2': 'h'}[b['dt']]
        v = f.createVariable('image', tc, tuple(names))
        v[:] = raw.view({'b': 'i1', 'h': '>i2'}[tc])
        v.signtype = b'unsigned' if dt.kind == 'u' else b'signed__'
        v.valid_range = np.array(vr, dtype='>f8')
        for nm, arr in (('image-max', imax), ('image-min', imin)):
            sv = f.createVariable(nm, 'd', tuple(names[:ns]))
            if ns:
                sv[:] = arr
            else:
                sv[...] = float(arr)
        for nm in names:
            dv = f.createVariable(nm, 'i', ())
            dv[...] = 0
            dv.spacing = b'regular__'
            dv.step = 2.0
            dv.start = -3.0
        f.close()
    path = path0 + COMP_EXT[comp]
    if comp != 'plain':
        comp_write(path, open(path0, 'rb').read())
    full, alts, slotarr = minc_expected(raw, ns, vr, imin, imax, shape)
    qarr = np.arange(raw.size).reshape(shape)

    def opener(cfg):
        import nibabel as nib
        from nibabel.minc1 import Minc1Image
        if cfg['src'] == 'path':
            img = nib.load(path, mmap=cfg['mmap']) if cfg.get('via') == 'load' else Minc1Image.from_filename(path)
        else:
            fm = Minc1Image.make_file_map()
            fm['image'].fileobj = make_fobj(path, cfg['src'], cfg)
            img = Minc1Image.from_file_map(fm)
        assert isinstance(img, Minc1Image)
        return img.dataobj
    return Built('minc1', shape, 'C', full, qarr, slotarr if ns else None, alts if ns else [(None, full)], opener, None,
                 {'image': path})


def build_minc2(b):
    import h5py
    shape, dt, raw, ns, vr, imin, imax = minc_parts(b)
    names = DIMNAMES[4 - len(shape):]
    path = os.path.join(tmpdir(), 'h%d.mnc' % next_id())
    with h5py.File(path, 'w') as h:
        g = h.create_group('minc-2.0')
        dg = g.create_group('dimensions')
        for nm, ln in zip(names, shape):
            d = dg.create_dataset(nm, data=np.int32(0))
            d.attrs['length'] = np.uint32(ln)
            d.attrs['spacing'] = np.bytes_(b'regular__')
            d.attrs['step'] = 2.0
            d.attrs['start'] = -3.0
        ig = g.create_group('image').create_group('0')
        im = ig.create_dataset('image', data=raw.astype(dt.newbyteorder('=')))
        im.attrs['dimorder'] = np.bytes_(','.join(names).encode())
        im.attrs['valid_range'] = np.array(vr, dtype='f8')
        for nm, arr in (('image-max', imax), ('image-min', imin)):
            sv = ig.create_dataset(nm, data=np.asarray(arr, dtype='f8'))
            if ns:
                sv.attrs['dimorder'] = np.bytes_(','.join(names[:ns]).encode())
    full, alts, slotarr = minc_expected(raw, ns, vr, imin, imax, shape)
    qarr = np.arange(raw.size).reshape(shape)

    def opener(cfg):
        import nibabel as nib
        from nibabel.minc2 import Minc2Image
        img = nib.load(path) if cfg.get('via') == 'load' else Minc2Image.from_filename(path)
        assert isinstance(img, Minc2Image)
        return img.dataobj
    return Built('minc2', shape, 'C', full, qarr, slotarr if ns else None, alts if ns else [(None, full)], opener, None,
                 {'image': path})


BUILDERS = {'afni': build_afni, 'ecat': build_ecat, 'parrec': build_parrec, 'minc1': build_minc1, 'minc2': build_minc2}


def get_built(b):
    key = repr(sorted(b.items()))
    if key not in _BUILT:
        if len(_BUILT) > 1500:
            _BUILT.clear()          # files stay on disk (unique names) until exit
        bt = None
        for attempt in range(25):
            bb = dict(b, seed=b['seed'] + 7919 * attempt)
            bt = (BUILDERS.get(b['fmt']) or build_generic)(bb)
            if not bt.ambiguous:
                break
        _BUILT[key] = bt
    return _BUILT[key]


# ---------------------------------------------------------------- cases

def idx_of(d, key='idx'):
    v = d.get(key)
    return None if v is None else tuple(item_from_data(i) for i in v)


def model_line(d):
    """protocol line for the Lean driver, or None (oracle only)"""
    from nibabel import fileslice as fs
    thr = fs.SKIP_THRESH
    b, op = d['build'], d.get('op', 'get')
    if op == 'hist':
        line = model_line(dict(d, op='reshape' if d.get('newshape') else 'get', idx=[]))
        if line is None or not line.endswith(' -'):
            return None
        toks = []
        for st in d['steps']:
            if st[0] in ('a', 'ad'):
                toks.append('a')
            elif st[0] == 'g':
                toks.append('g ' + fmt_idx(tuple(item_from_data(i) for i in st[1])))
            else:
                toks.append('m %d' % st[1])
        return 'C03 hist ' + line[len('C03 '):-2] + ' @ ' + ' @ '.join(toks)
    idx = fmt_idx(idx_of(d))
    fmt = b['fmt']
    shp = lambda s: ','.join(map(str, s)) if len(s) else '-'
    if op == 'frz':
        return None
    if fmt in GENERIC:
        isz = DT[b['dt']].itemsize
        off = get_built(b).off
        if op == 'frzr':
            return f'C03 frzr {b.get("order", "F")} {thr} {isz} {off} {shp(b["shape"])} {idx} ' + ' '.join(d['ops'])
        if fmt == 'cifti2':
            return f'C03 rs F F {thr} {isz} {off} 1,1,1,1,{shp(b["shape"])} {shp(b["shape"])} {idx}'
        if op == 'reshape':
            ns = ','.join(map(str, d['newshape']))
            o = b.get("order", "F")
            return f'C03 rs {o} {o} {thr} {isz} {off} {shp(b["shape"])} {ns} {idx}'
        return f'C03 px {b.get("order", "F")} {thr} {isz} {off} {shp(b["shape"])} {idx}'
    if fmt == 'afni':
        if op in ('reshape', 'copy'):
            return None           # oracle only (open finding: AFNIArrayProxy cannot be reshaped / copied)
        isz = {'u1': 1, 'i2': 2, 'f4': 4}[b['dt']]
        facs = b.get('facs')
        ft = '-' if facs is None else ''.join('z' if v == 0 else 'n' for v in facs)
        return f'C03 afni {thr} {isz} {shp(b["shape"])} {ft} {idx}'
    if fmt == 'ecat':
        if op == 'arr':
            return f'C03 ecatrarr {shp(b["shape3"])} {shp(get_built(b).ids)}'
        return f'C03 ecatr {shp(b["shape3"])} {shp(get_built(b).ids)} {idx}'
    if fmt == 'parrec':
        bt = get_built(b)
        return f'C03 par {thr} 2 {shp(bt.shape)} {bt.S} {shp(bt.indices)} {idx}'
    if fmt in ('minc1', 'minc2'):
        return f'C03 minc {b["nscales"]} {shp(b["shape"])} {idx}'
    return None


def minc_scalar_region(d):
    """MINC, multi-byte integers, every axis indexed by an integer: the region of the repaired defect
    `minc1:get:scalar-index-multibyte` (fix commit 9050d811) — only used to name the signature"""
    b = d['build']
    if b['fmt'] not in ('minc1', 'minc2') or b['dt'] == 'u1':
        return False
    idx = [i for i in idx_of(d) if i is not None]
    return len(idx) == len(b['shape']) and all(isinstance(i, int) for i in idx)


def mk_case(build, cfg, idx, stream, op='get', pre=None, newshape=None, extra=None):
    data = {'op': op, 'build': build, 'cfg': cfg, 'idx': [item_to_data(i) for i in idx],
            'pre': None if pre is None else [item_to_data(i) for i in pre], 'stream': stream}
    if newshape is not None:
        data['newshape'] = list(newshape)
    if extra:
        data.update(extra)
    return case_from_data(data)


def case_from_data(d):
    if d.get('op') == 'frz':
        ops = ' '.join(d['ops'])
        h = d['hdr']
        shp = ','.join(map(str, h['shape']))
        line = f'C03 frz F {shp} {h["isz"]} {h["off"]} {_fmt_o(h["slope"])} {_fmt_o(h["inter"])} {ops}'.rstrip()
        return Case(line, d, ('frz', shp, ops), 'frozen')
    if d.get('op') == 'hist':
        try:
            line = model_line(d)
        except Exception:
            line = None
        key = (repr(sorted(d['build'].items())), repr(sorted(d['cfg'].items())), repr(d['steps']), repr(d.get('newshape')))
        return Case(line, d, key, d.get('stream', 'hist'))
    idx = idx_of(d)
    trivial = all(isinstance(i, slice) and i == slice(None) for i in idx) and d.get('op') != 'arr'
    key = None if trivial else (repr(sorted(d['build'].items())), repr(sorted(d['cfg'].items())), fmt_idx(idx),
                                d.get('op'), repr(d.get('newshape')), repr(d.get('ops')), d.get('target'))
    try:
        line = model_line(d)
    except Exception:
        line = None
    return Case(line, d, key, d.get('stream', 'main'))


# ---------------------------------------------------------------- implementation side

def canon(bt, res, lut=None):
    """print the real result as stored element numbers (+ scale slots) through the value look-up table"""
    res = np.asarray(res)
    order = bt.order
    flat = res.ravel(order=order)
    qs, slots = [], []
    lut = bt.lut if lut is None else lut
    for key in bits_key(flat):
        v = lut.get(key)
        if v is None:
            qs.append('?')
            slots.append('?')
        else:
            qs.append(str(v[0]))
            slots.append(v[1])
    s = f'ok [{",".join(map(str, res.shape))}] [{",".join(qs)}]'
    if bt.fmt in ('afni', 'parrec', 'minc1', 'minc2', 'ecat'):
        if all(x is None for x in slots):
            s += ' [0' + ',0' * (len(slots) - 1) + ']' if (bt.fmt.startswith('minc') and slots) else ' []'
        else:
            s += ' [' + ','.join('?' if x is None else str(x) for x in slots) + ']'
    return s


def release(proxy):
    """close what the proxy keeps open (harness hygiene only)"""
    mf = getattr(proxy, 'minc_file', None)
    f = getattr(mf, '_mincfile', None)
    try:
        if f is not None and hasattr(f, 'close'):
            with warnings.catch_warnings():
                warnings.simplefilter('ignore')
                f.close()
    except Exception:
        pass
    op = getattr(proxy, '_opener', None)
    try:
        if op is not None:
            op.close_if_mine()
    except Exception:
        pass


def impl(case):
    d = case.data
    if d.get('op') == 'frz':
        return impl_frozen(d)
    if d.get('op') == 'hist':
        return impl_hist(case)
    bt = get_built(d['build'])
    if bt.ambiguous:
        raise RuntimeError('builder could not make the value look-up table injective')
    cfg = d['cfg']
    idx = idx_of(d)
    case.extra = {}
    with warnings.catch_warnings():
        warnings.simplefilter('ignore')
        with IGzipFlag(cfg.get('igzip', True)):
            if d.get('op') == 'frzr':
                proxy, cells, keep = open_frozen(bt, d)
            else:
                proxy = bt.opener(cfg)
            if d.get('op') == 'copy':
                proxy = proxy.copy()
            if d.get('op') == 'reshape':
                try:
                    proxy = proxy.reshape(tuple(d['newshape']))
                except ValueError:
                    case.extra['reshape_err'] = True
                    return 'ERR'
            if d.get('pre') is not None:
                try:
                    proxy[idx_of(d, 'pre')]
                except (IndexError, ValueError):
                    pass
            if cfg.get('repos') is not None and getattr(proxy, 'file_like', None) is not None \
                    and hasattr(proxy.file_like, 'seek'):
                proxy.file_like.seek(cfg['repos'])
            if d.get('op') == 'frzr':
                # a read, then operations on the header OBJECTS (cell 0: the object the proxy was built from / the
                # image's header; cell 1: an equal copy), then the read that is reported
                try:
                    case.extra['res0'] = np.array(proxy[idx])
                except (IndexError, ValueError):
                    case.extra['res0'] = None
                for tok in d['ops']:
                    c, rest = tok.split(':', 1)
                    apply_hdr_op(cells[int(c)], rest)
            try:
                res = np.asarray(proxy) if d.get('op') == 'arr' else proxy[idx]
            except (IndexError, ValueError) as e:
                case.extra['err'] = e
                return 'ERR'
            # everything the oracle needs is read inside the same configuration; arrays are COPIED so that no
            # memory map / open file outlives this call (thousands of cases per run)
            res = np.array(res)
            case.extra['res'] = res
            try:
                case.extra['full'] = np.array(np.asarray(proxy))
            except Exception as e:
                case.extra['full_err'] = e
            if hasattr(proxy, 'get_unscaled') and d.get('op') != 'reshape':
                try:
                    case.extra['unscaled_shape'] = proxy.get_unscaled().shape
                except Exception as e:
                    case.extra['full_err'] = e
            release(proxy)
    return canon(bt, res)


def mutate_in_place(obj, kind):
    """what a caller does to an array it was handed: edit it in place.  False = cannot be edited (scalar, read-only
    memory map, empty)"""
    if not isinstance(obj, np.ndarray) or obj.size == 0 or not obj.flags.writeable:
        return False
    with np.errstate(all='ignore'):
        if kind == 'fill':
            obj[...] = 99
        elif kind == 'scale':
            obj *= 3
            obj += 1
        elif obj.dtype.kind in 'iu':
            np.invert(obj, out=obj)
        else:
            obj += 1000.5
    return True


def impl_hist(case):
    """a HISTORY on one proxy object: conversions (`np.asarray(proxy)`, `np.asarray(proxy, dtype=float64)`), partial
    reads, in-place edits of arrays earlier reads returned.  Every returned OBJECT is retained together with a copy
    of what it held when it was returned; at the end (proxy released) the retained objects are compared again."""
    d = case.data
    bt = get_built(d['build'])
    if bt.ambiguous:
        raise RuntimeError('builder could not make the value look-up table injective')
    cfg = d['cfg']
    case.extra = {}
    objs, snaps, outs, touched = [], [], [], set()
    with warnings.catch_warnings():
        warnings.simplefilter('ignore')
        with IGzipFlag(cfg.get('igzip', True)):
            proxy = bt.opener(cfg)
            if d.get('newshape'):
                proxy = proxy.reshape(tuple(d['newshape']))
            for st in d['steps']:
                if st[0] == 'm':
                    if st[1] < len(objs) and objs[st[1]] is not None:
                        mutate_in_place(objs[st[1]], st[2])
                    touched.add(st[1])
                    continue
                if cfg.get('repos') is not None and getattr(proxy, 'file_like', None) is not None \
                        and hasattr(proxy.file_like, 'seek'):
                    proxy.file_like.seek(cfg['repos'])
                try:
                    if st[0] == 'a':
                        r = np.asarray(proxy)
                    elif st[0] == 'ad':
                        r = np.asarray(proxy, dtype=np.float64)
                    else:
                        r = proxy[tuple(item_from_data(i) for i in st[1])]
                except (IndexError, ValueError) as e:
                    objs.append(None)
                    snaps.append(None)
                    outs.append('ERR')
                    case.extra.setdefault('errs', {})[len(objs) - 1] = e
                    continue
                objs.append(r)
                snap = np.array(r)
                snaps.append(snap)
                outs.append(canon(bt, snap, lut64(bt) if st[0] == 'ad' and snap.dtype != bt.full.dtype else None))
            release(proxy)
            del proxy
    flags = []
    for i, (o, sn) in enumerate(zip(objs, snaps)):
        if i in touched:
            flags.append('-')
        elif o is None:
            flags.append('k')
        else:
            flags.append('k' if same_bits(np.asarray(o), sn) is None else 'c')
    case.extra['snaps'] = snaps
    case.extra['flags'] = flags
    return 'hist ' + ' | '.join(outs) + ' || ' + ''.join(flags)


ISZ2DT = {1: np.uint8, 2: np.int16, 4: np.int32, 8: np.float64}


def apply_hdr_op(hdr, tok):
    k, *v = tok.split(':')
    if k == 'shape':
        hdr.set_data_shape([int(x) for x in v[0].split(',')])
    elif k == 'isz':
        hdr.set_data_dtype(ISZ2DT[int(v[0])])
    elif k == 'off':
        hdr.set_data_offset(int(v[0]))
    elif k == 'si':
        s, i = (None if x == '_' else int(x) for x in v)
        hdr.set_slope_inter(s, (i or 0) if s is not None else None)
    else:
        raise ValueError(tok)


def open_frozen(bt, d):
    """(proxy, [header object 0, header object 1], keep-alive).  target 'proxy-hdr': the proxy is constructed here from a
    header object that the case then edits; 'img-hdr': the image is loaded by nibabel and the IMAGE's header is edited."""
    import nibabel as nib
    from nibabel.arrayproxy import ArrayProxy
    cfg = d['cfg']
    klass = {'nifti1': nib.Nifti1Image, 'nifti2': nib.Nifti2Image}[bt.fmt]
    path = bt.files['image']
    if d.get('target') == 'img-hdr':
        img = klass.from_filename(path, mmap=cfg['mmap'], keep_file_open=cfg['kfo'])
        return img.dataobj, [img.header, img.header.copy()], img
    hdr = klass.header_class.from_fileobj(io.BytesIO(read_plain(path)))
    proxy = ArrayProxy(path, hdr, mmap=cfg['mmap'], keep_file_open=cfg['kfo'])
    return proxy, [hdr, hdr.copy()], None


def impl_frozen(d):
    """build an ArrayProxy from a header, mutate the header, print what the proxy holds now"""
    import nibabel as nib
    from nibabel.arrayproxy import ArrayProxy
    h = d['hdr']
    hdr = nib.Nifti1Header()
    isz2dt = {1: np.uint8, 2: np.int16, 4: np.int32, 8: np.float64}
    hdr.set_data_shape(h['shape'])
    hdr.set_data_dtype(isz2dt[h['isz']])
    hdr.set_data_offset(h['off'])
    hdr.set_slope_inter(h['slope'], (h['inter'] or 0) if h['slope'] is not None else None)
    proxy = ArrayProxy(io.BytesIO(b''), hdr)
    for op in d['ops']:
        k, *v = op.split(':')
        if k == 'shape':
            hdr.set_data_shape([int(x) for x in v[0].split(',')])
        elif k == 'isz':
            hdr.set_data_dtype(isz2dt[int(v[0])])
        elif k == 'off':
            hdr.set_data_offset(int(v[0]))
        elif k == 'si':
            s, i = (None if x == '_' else int(x) for x in v)
            hdr.set_slope_inter(s, (i or 0) if s is not None else None)

    def show(shape, dt, off, sl, it):
        fi = lambda x: str(int(x)) if float(x) == int(x) else repr(x)
        return f'[{",".join(map(str, shape))}] {np.dtype(dt).itemsize} {int(off)} {fi(sl)} {fi(it)}'
    s2, i2 = hdr.get_slope_inter()
    now = show(hdr.get_data_shape(), hdr.get_data_dtype(), hdr.get_data_offset(), 1.0 if s2 is None else s2,
               0.0 if i2 is None else i2)
    return show(proxy.shape, proxy.dtype, proxy.offset, proxy.slope, proxy.inter) + ' | ' + now


def same_bits(a, b):
    a, b = np.asarray(a), np.asarray(b)
    if a.shape != b.shape:
        return f'shape {a.shape} != {b.shape}'
    if a.dtype.newbyteorder('=') != b.dtype.newbyteorder('='):
        return f'dtype {a.dtype} != {b.dtype}'
    x = np.ascontiguousarray(a.astype(a.dtype.newbyteorder('='), copy=False))
    y = np.ascontiguousarray(b.astype(b.dtype.newbyteorder('='), copy=False))
    if x.tobytes() != y.tobytes():
        bad = np.argwhere(~((x == y) | ((x != x) & (y != y))))
        w = tuple(bad[0]) if len(bad) else '?'
        return f'values differ (first at {w}: {x[w] if len(bad) else ""} vs {y[w] if len(bad) else ""})'
    return None


def describe(d):
    if d.get('op') == 'hist':
        return f'{d["build"]["fmt"]} build={d["build"]} cfg={d["cfg"]} steps={d["steps"]}' + \
            (f' newshape={d["newshape"]}' if d.get('newshape') else '')
    return f'{d["build"]["fmt"]} build={d["build"]} cfg={d["cfg"]} idx={idx_of(d)}' + \
        (f' newshape={d["newshape"]}' if d.get('op') == 'reshape' else '') + \
        (f' pre={idx_of(d, "pre")}' if d.get('pre') is not None else '') + \
        (f' header-ops={d["ops"]} target={d.get("target")}' if d.get('op') == 'frzr' else '')


def oracle(case, out):
    d = case.data
    if d.get('op') == 'frz':
        left = out.split(' | ')[0]
        h = d['hdr']
        want = f'[{",".join(map(str, h["shape"]))}] {h["isz"]} {h["off"]} ' \
               f'{1 if h["slope"] is None else h["slope"]} {0 if h["slope"] is None or h["inter"] is None else h["inter"]}'
        if left != want:
            return f'proxy parameters changed after header operations {d["ops"]}: proxy holds {left}, built from {want}'
        return None
    if out.startswith('ERR:'):
        return f'proxy read raised {out}: {describe(d)}'
    if d.get('op') == 'hist':
        return oracle_hist(case, out)
    bt = get_built(d['build'])
    ex = case.extra or {}
    idx = idx_of(d)
    expected_full = bt.full
    if d.get('op') == 'reshape':
        ns = list(d['newshape'])
        try:
            expected_full = bt.full.reshape(ns, order=bt.order)
        except ValueError:
            expected_full = None
        if expected_full is None:
            return None if ex.get('reshape_err') else f'reshape to an impossible shape accepted: {describe(d)}'
        if ex.get('reshape_err'):
            return f'reshape to a valid shape refused: {describe(d)}'
    elif bt.fmt == 'cifti2':
        pass
    # 1. whole array == independent decode
    if 'full_err' in ex:
        return f'np.asarray(proxy) raised {ex["full_err"]!r}: {describe(d)}'
    try:
        want = expected_full[idx]
    except IndexError:
        want = None
    if out == 'ERR':
        if want is None:
            return None
        return f'proxy[idx] raised {ex.get("err")!r} where NumPy indexing of the loaded array succeeds: {describe(d)}'
    full = ex['full']
    bad = same_bits(full, expected_full)
    if bad:
        return f'np.asarray(proxy) differs from the independent decode of the file bytes: {bad}: {describe(d)}'
    if want is None:
        return f'proxy[idx] returned a result where NumPy raises IndexError: {describe(d)}'
    # 2. proxy[idx] == np.asarray(proxy)[idx]
    bad = same_bits(ex['res'], full[idx])
    if bad:
        return f'proxy[idx] != np.asarray(proxy)[idx]: {bad}: {describe(d)}'
    if d.get('op') == 'frzr':
        if ex.get('res0') is None:
            return f'the read before the header operations raised, the read after them did not: {describe(d)}'
        bad = same_bits(ex['res'], ex['res0'])
        if bad:
            return f'proxy[idx] changed after operations {d["ops"]} on header objects: {bad}: {describe(d)}'
    if 'unscaled_shape' in ex and tuple(ex['unscaled_shape']) != tuple(expected_full.shape):
        return f'get_unscaled() shape {ex["unscaled_shape"]} != {expected_full.shape}: {describe(d)}'
    return None


def oracle_hist(case, out):
    """the property on EVERY read of the history: a conversion is the independent decode of the file, a partial read
    is NumPy indexing of that decode (or fails where NumPy fails) — whatever was read or edited before; and no array
    handed to the caller changes afterwards unless the caller edits it"""
    d = case.data
    bt = get_built(d['build'])
    ex = case.extra or {}
    full = bt.full
    if d.get('newshape'):
        full = full.reshape(list(d['newshape']), order=bt.order)
    snaps, flags = ex['snaps'], ex['flags']
    r = 0
    for n, st in enumerate(d['steps']):
        if st[0] == 'm':
            continue
        if st[0] == 'a':
            want = full
        elif st[0] == 'ad':
            want = full.astype(np.float64)
        else:
            try:
                want = full[tuple(item_from_data(i) for i in st[1])]
            except IndexError:
                want = None
        got = snaps[r]
        what = {'a': 'np.asarray(proxy)', 'ad': 'np.asarray(proxy, dtype=float64)'}.get(st[0], 'proxy[idx]')
        if got is None and want is not None:
            return f'step {n} {what} raised {ex.get("errs", {}).get(r)!r} where the loaded array can be indexed: {describe(d)}'
        if got is not None and want is None:
            return f'step {n} proxy[idx] returned a result where NumPy raises IndexError: {describe(d)}'
        if got is not None:
            bad = same_bits(got, want)
            if bad:
                src = 'the independent decode of the file bytes' if st[0] != 'g' else 'the same index on the decoded array'
                return f'step {n} {what} differs from {src} (history dependence): {bad}: {describe(d)}'
        r += 1
    if 'c' in flags:
        return f'the array returned by read {flags.index("c")} changed after it was returned although the caller ' \
               f'never edited it (results share memory): {describe(d)}'
    return None


def drop_step(steps, i):
    """history without step i (edit targets renumbered)"""
    if steps[i][0] == 'm':
        return steps[:i] + steps[i + 1:]
    r = sum(1 for st in steps[:i] if st[0] != 'm')
    out = []
    for j, st in enumerate(steps):
        if j == i or (st[0] == 'm' and st[1] == r):
            continue
        out.append(['m', st[1] - 1, st[2]] if st[0] == 'm' and st[1] > r else st)
    return out


def signature(case, what):
    d = case.data
    if d.get('op') == 'frz':
        return 'frozen-params'
    if d.get('op') == 'hist':
        return f'{d["build"]["fmt"]}:hist:' + ('alias' if 'share memory' in what else 'raise' if 'raised' in what else 'value')
    fmt = d['build']['fmt']
    if minc_scalar_region(d):
        return fmt + ':get:scalar-index-multibyte'
    kind = 'whole' if 'independent decode' in what else ('raise' if 'raised' in what else 'slice')
    return f'{fmt}:{d.get("op", "get")}:{kind}'


def shrink_candidates(case):
    d = case.data
    if d.get('op') == 'frz':
        for i in range(len(d['ops'])):
            yield case_from_data(dict(d, ops=d['ops'][:i] + d['ops'][i + 1:]))
        return
    if d.get('op') == 'hist':
        steps = d['steps']
        for i in reversed(range(len(steps))):
            if len(steps) > 1:
                yield case_from_data(dict(d, steps=drop_step(steps, i)))
        simple = {'mmap': True, 'kfo': False, 'src': 'path', 'igzip': True}
        if any(d['cfg'].get(k) != v for k, v in simple.items()) or d['cfg'].get('pos') or d['cfg'].get('repos') is not None:
            yield case_from_data(dict(d, cfg=simple))
        for i, st in enumerate(steps):
            if st[0] == 'g' and st[1]:
                yield case_from_data(dict(d, steps=steps[:i] + [['a']] + steps[i + 1:]))
            if st[0] == 'ad':
                yield case_from_data(dict(d, steps=steps[:i] + [['a']] + steps[i + 1:]))
        return
    if d.get('pre') is not None:
        yield case_from_data(dict(d, pre=None))
    if d.get('op') == 'frzr':
        for i in range(len(d['ops'])):
            yield case_from_data(dict(d, ops=d['ops'][:i] + d['ops'][i + 1:]))
    cfg = d['cfg']
    simple = {'mmap': True, 'kfo': False, 'src': 'path', 'igzip': True}
    if any(cfg.get(k) != v for k, v in simple.items()) or cfg.get('pos') or cfg.get('repos') is not None:
        yield case_from_data(dict(d, cfg=simple))
    b = d['build']
    if b.get('comp', 'plain') != 'plain':
        yield case_from_data(dict(d, build=dict(b, comp='plain')))
    idx = list(d['idx'])
    for i, it in enumerate(idx):
        if it == 'newaxis':
            yield case_from_data(dict(d, idx=idx[:i] + idx[i + 1:]))
        elif isinstance(it, list) and it != [None, None, None]:
            yield case_from_data(dict(d, idx=idx[:i] + [[None, None, None]] + idx[i + 1:]))
            if it[2] not in (None, 1, -1):
                yield case_from_data(dict(d, idx=idx[:i] + [[it[0], it[1], 1 if it[2] > 0 else -1]] + idx[i + 1:]))


# ---------------------------------------------------------------- generators

def rand_cfg(rng, fmt, comp):
    cfg = {'mmap': rng.choice([True, False, 'c', 'r']), 'kfo': rng.choice([True, False]),
           'igzip': rng.random() < 0.6, 'src': 'path', 'via': rng.choice(['load', 'class'])}
    if comp == 'plain' and fmt not in ('minc2',) and rng.random() < 0.35:
        cfg['src'] = rng.choice(['file', 'bytesio'])
        cfg['pos'] = rng.choice([0, 1, 5, 17, 100, 4000])
        if rng.random() < 0.5:
            cfg['repos'] = rng.choice([0, 3, 64, 1000])
    return cfg


def rand_shape(rng, nd, maxel=240):
    while True:
        shape = tuple(rng.choice([1, 1, 2, 3, 4, 5]) for _ in range(nd))
        if int(np.prod(shape)) <= maxel:
            return shape


def comps():
    return ['plain', 'gz', 'bz2'] + (['zst'] if have_zstd() else [])


def gen_generic(rng, out, nbuilds, nidx):
    for _ in range(nbuilds):
        fmt = rng.choice(['nifti1', 'nifti1', 'nifti1pair', 'nifti2', 'analyze', 'spm99', 'mgh', 'direct', 'direct',
                          'cifti2'])
        comp = rng.choice(comps()) if rng.random() < 0.5 else 'plain'
        b = {'fmt': fmt, 'seed': rng.randrange(10 ** 6), 'comp': comp}
        if fmt == 'mgh':
            b['shape'] = rand_shape(rng, rng.choice([3, 4]))
            b['dt'] = rng.choice(['u1', 'i2', 'i4', 'f4'])
            if len(b['shape']) == 4 and b['shape'][3] == 1:
                b['shape'] = b['shape'][:3] + (2,)      # (x,y,z,1) cannot be written as MGH (known finding of C01/C19)
            if comp not in ('plain', 'gz'):
                b['comp'] = comp = 'plain'
            if b['dt'] == 'u1' and int(np.prod(b['shape'])) > 200:
                b['dt'] = 'i2'
        elif fmt == 'cifti2':
            b['shape'] = (rng.choice([1, 2, 3, 5]), rng.choice([1, 2, 4, 6]))
            b['dt'] = rng.choice(['f4', 'i2', 'f4'])
            b['comp'] = comp = 'plain'          # Cifti2Image accepts no compressed file names
        else:
            b['shape'] = rand_shape(rng, rng.choice([1, 2, 3, 3, 4, 4, 5] if fmt != 'analyze' else [3, 4]))
            b['dt'] = rng.choice(['u1', 'i2', 'i2', 'i4', 'f4'] if fmt != 'spm99' else ['u1', 'i2', 'f4'])
            if b['dt'] == 'u1' and int(np.prod(b['shape'])) > 200:
                b['dt'] = 'i2'
        if fmt in ('nifti1', 'nifti1pair', 'nifti2', 'spm99', 'direct', 'cifti2'):
            r = rng.random()
            if r < 0.25:
                b['slope'], b['inter'] = None, None
            elif r < 0.35:
                b['slope'], b['inter'] = 1.0, rng.choice([0.0, 2.5])
            elif r < 0.4 and fmt not in ('direct', 'spm99'):
                b['slope'], b['inter'] = 0.0, 3.0
            else:
                b['slope'] = rng.choice([2.0, 0.5, 0.1, 1.7, -3.3, 1e-3, 123.456, 3.0000001])
                b['inter'] = rng.choice([0.0, 1.0, -7.25, 0.3, 1000.1, 1e-5])
            if fmt == 'spm99':
                b['inter'] = None
        if fmt == 'direct':
            b['order'] = rng.choice(['F', 'C'])
            b['off'] = rng.choice([0, 1, 7, 352])
        if fmt == 'nifti1' and rng.random() < 0.3:
            b['off'] = rng.choice([352, 368, 400])
        if fmt in ('nifti1pair', 'analyze', 'spm99') and rng.random() < 0.3:
            b['off'] = rng.choice([0, 16, 5] if fmt == 'nifti1pair' else [0, 16, 32])
        for _ in range(nidx):
            cfg = rand_cfg(rng, fmt, b['comp'])
            if fmt in ('spm99', 'analyze'):
                cfg['via'] = 'class'       # nib.load picks Spm2AnalyzeImage for these files
            shape = b['shape']
            idx = rand_index(rng, shape, bad_int=rng.random() < 0.08)
            pre = rand_index(rng, shape) if rng.random() < 0.3 else None
            if fmt != 'cifti2' and rng.random() < 0.15:
                n = int(np.prod(shape))
                ns = rand_factor_shape(rng, n)
                if rng.random() < 0.3 and len(ns) > 0:
                    k = rng.randrange(len(ns))
                    ns = ns[:k] + (-1,) + ns[k + 1:]
                tgt = tuple(abs(v) for v in ns) if -1 not in ns else None
                shp2 = tgt or tuple(np.empty(shape).reshape(ns, order='F').shape)
                shp2 = tgt or tuple(np.empty(shape).reshape(ns, order=b.get('order', 'F')).shape)
                out.append(mk_case(b, cfg, rand_index(rng, shp2), 'generic-reshape', op='reshape', newshape=ns, pre=pre))
            elif rng.random() < 0.1:
                out.append(mk_case(b, cfg, idx, 'generic-copy', op='copy', pre=pre))
            else:
                out.append(mk_case(b, cfg, idx, 'generic:' + fmt, pre=pre))


def rand_factor_shape(rng, n):
    dims = []
    m = n
    for p in (2, 3, 5, 2, 2, 3):
        if m % p == 0 and rng.random() < 0.7:
            dims.append(p)
            m //= p
    dims.append(m)
    rng.shuffle(dims)
    for _ in range(rng.choice([0, 0, 1])):
        dims.insert(rng.randrange(len(dims) + 1), 1)
    return tuple(dims)


def gen_afni(rng, out, nbuilds, nidx):
    for _ in range(nbuilds):
        shape = rand_shape(rng, 3, 60) + (rng.choice([1, 2, 3, 4]),)
        nv = shape[3]
        r = rng.random()
        if r < 0.15:
            facs = None
        elif r < 0.25:
            facs = [0.0] * nv
        else:
            # generic (non-dyadic) factors: raw*f never coincides with another raw*g or raw*1 (look-up injective)
            facs = [rng.choice([0.0, 0.0, 3.883363e-08, round(rng.uniform(0.01, 9), 6) + 1e-7,
                                round(rng.uniform(0.01, 2), 7) + 3e-8]) * (1 + 0.001 * t) for t in range(nv)]
        b = {'fmt': 'afni', 'shape': shape, 'dt': rng.choice(['i2', 'i2', 'f4', 'u1']), 'facs': facs,
             'bo': rng.choice(['LSB_FIRST', 'MSB_FIRST']), 'comp': rng.choice(['plain', 'plain', 'gz', 'bz2']),
             'seed': rng.randrange(10 ** 6)}
        for _ in range(nidx):
            cfg = rand_cfg(rng, 'afni', b['comp'])
            out.append(mk_case(b, cfg, rand_index(rng, shape, rng.random() < 0.08), 'afni',
                               pre=rand_index(rng, shape) if rng.random() < 0.2 else None))
        if nv > 1 and facs is not None and any(facs):
            # >= 2 sub-bricks with non-zero factors x new axes AFTER the sub-brick axis (and elsewhere)
            for _ in range(max(2, nidx // 4)):
                items = [rand_item(rng, n) for n in shape]
                if rng.random() < 0.4:
                    items = [Ellipsis, items[3]]
                items = items + [None] * rng.choice([1, 1, 2])
                if rng.random() < 0.3:
                    items.insert(rng.randrange(0, len(items)), None)
                out.append(mk_case(b, rand_cfg(rng, 'afni', b['comp']), tuple(items), 'afni-trailing-newaxis'))


def frame_axis_items(n):
    items = list(range(-n, n))
    for a in bounds(n, 1):
        for bb in bounds(n, 1):
            for c in STEPS:
                items.append(slice(a, bb, c))
    return items


def gen_ecat(rng, out, nbuilds, nidx, exhaustive):
    builds = []
    for _ in range(nbuilds):
        nfr = rng.choice([1, 2, 3, 3, 4, 5])
        perm = list(range(nfr))
        if rng.random() < 0.4:
            rng.shuffle(perm)
        b = {'fmt': 'ecat', 'shape3': rand_shape(rng, 3, 40), 'nframes': nfr, 'perm': perm,
             'orient': rng.choice([0, 1, 1, 8]), 'seed': rng.randrange(10 ** 6)}
        if rng.random() < 0.35:
            # directory entries with an INVALID matrix id (<= 0) anywhere between the valid ones, and/or a matrix-list
            # array longer than the directory (main header announces more frames than were written: all-zero rows)
            r = rng.random()
            if r < 0.7:
                nh = rng.choice([1, 1, 2])
                b['holes'] = sorted(rng.sample(range(nfr + nh), nh))
                b['holeid'] = rng.choice([0, 0, -1, -16842753])
            if r > 0.5:
                b['padrows'] = rng.choice([1, 2])
        builds.append(b)
    for b in builds:
        shape = tuple(b['shape3']) + (b['nframes'],)
        for _ in range(nidx):
            cfg = {'mmap': True, 'kfo': False, 'igzip': True, 'src': rng.choice(['path', 'path', 'file', 'bytesio']),
                   'pos': rng.choice([0, 3, 700])}
            out.append(mk_case(b, cfg, rand_index(rng, shape, rng.random() < 0.08), 'ecat'))
    # matrix list NOT in ascending id order x an INTEGER on the frame axis (any sign), new axes anywhere; whole array
    for b in builds:
        nfr = b['nframes']
        cfg = {'mmap': True, 'kfo': False, 'igzip': True, 'src': 'path', 'pos': 0}
        out.append(mk_case(b, cfg, (), 'ecat-whole', op='arr'))
        if nfr < 2:
            continue
        perm = list(b['perm'])
        while perm == sorted(perm):
            rng.shuffle(perm)
        b2 = dict(b, perm=perm)
        shape = tuple(b2['shape3']) + (nfr,)
        out.append(mk_case(b2, cfg, (), 'ecat-whole', op='arr'))
        for _ in range(max(2, nidx // 4)):
            lead = [rand_item(rng, n) for n in shape[:3]]
            f = rng.randrange(-nfr, nfr)
            items = (lead + [f]) if rng.random() < 0.6 else [Ellipsis, f]
            for _ in range(rng.choice([0, 0, 1, 2])):
                items.insert(rng.randrange(0, len(items) + 1), None)
            out.append(mk_case(b2, cfg, tuple(items), 'ecat-unordered-int'))
    if exhaustive:
        b = {'fmt': 'ecat', 'shape3': (2, 3, 2), 'nframes': 3, 'perm': [0, 1, 2], 'orient': 1, 'seed': 11}
        cfg = {'mmap': True, 'kfo': False, 'igzip': True, 'src': 'path', 'pos': 0}
        for f in frame_axis_items(3):
            out.append(mk_case(b, cfg, (Ellipsis, f), 'ecat-frame-axis'))
            out.append(mk_case(b, cfg, (slice(None), 1, None, slice(None, None, -1), f), 'ecat-frame-axis'))
        b4 = dict(b, nframes=4, perm=[2, 0, 3, 1], shape3=(1, 2, 2))
        for f in frame_axis_items(4)[::3]:
            out.append(mk_case(b4, cfg, (0, Ellipsis, f, None), 'ecat-frame-axis'))


def parrec_drop(rng, rows, ns, nd, strict):
    """positions (in `rows`) of the image lines a truncated recording lost; None if nothing suitable.
    The lost slices are NOT restricted to the end of the REC file: the kept indices may be ascending with a hole,
    a prefix, or out of order.  Stays inside the region where `parrec_kept` is defined (see there)."""
    n = len(rows)
    mode = rng.choice(['tail', 'vol-end', 'vol-any', 'random', 'whole-vol'])
    by_dyn = {}
    for i, (s, d) in enumerate(rows):
        by_dyn.setdefault(d, []).append(i)
    dyns = sorted(by_dyn)
    if mode == 'tail':                       # the scan was stopped: the last few lines are missing
        drop = list(range(n - rng.randrange(1, max(2, ns)), n))
    elif mode == 'vol-end':                  # the last slice(s) of one volume that is not the last one
        d = rng.choice(dyns[:-1] or dyns)
        drop = by_dyn[d][-rng.randrange(1, max(2, ns)):]
    elif mode == 'vol-any':                  # any slices of one volume
        d = rng.choice(dyns)
        drop = rng.sample(by_dyn[d], rng.randrange(1, len(by_dyn[d]) + 1))
    elif mode == 'whole-vol':
        drop = list(by_dyn[rng.choice(dyns)])
    else:
        drop = rng.sample(range(n), rng.randrange(1, min(n, 4)))
    drop = sorted(set(drop))
    left = [r for i, r in enumerate(rows) if i not in set(drop)]
    try:
        parrec_kept(left, ns, strict)
    except ValueError:
        return None
    return drop


def gen_parrec(rng, out, nbuilds, nidx):
    for _ in range(nbuilds):
        ns, nd = rng.choice([1, 2, 3, 4]), rng.choice([1, 1, 2, 3])
        rows = None
        if rng.random() < 0.5:
            pairs = [(s + 1, d + 1) for d in range(nd) for s in range(ns)]
            rng.shuffle(pairs)
            # within one slice number the dynamics must appear in increasing order (lax volume numbering)
            seen = {}
            rows = []
            for s, _ in pairs:
                seen[s] = seen.get(s, 0) + 1
                rows.append([s, seen[s]])
        b = {'fmt': 'parrec', 'nx': rng.choice([1, 2, 3, 4]), 'ny': rng.choice([1, 2, 3]), 'nslices': ns, 'ndyn': nd,
             'rows': rows, 'scaled': True, 'comp': rng.choice(['plain', 'plain', 'gz']),
             'seed': rng.randrange(10 ** 6)}
        shape = (b['nx'], b['ny'], ns) + ((nd,) if nd > 1 else ())
        for _ in range(nidx):
            cfg = rand_cfg(rng, 'parrec', b['comp'])
            idx = rand_index(rng, shape, rng.random() < 0.08)
            if rng.random() < 0.08:
                idx = ()
            out.append(mk_case(b, cfg, idx, 'parrec'))


def gen_parrec_opts(rng, out, nbuilds, nidx):
    """PAR/REC loaded with non-default options: permit_truncated (with TRUNCATED recordings whose lost slices sit
    anywhere in the REC file), strict_sort, scaling='fp' — the index vector handed to the proxy is then a proper
    subset of the REC slices (ascending with holes, or unordered)."""
    for _ in range(nbuilds):
        ns, nd = rng.choice([1, 2, 2, 3, 4]), rng.choice([2, 3, 3, 4])
        full_rows = [[s + 1, d + 1] for d in range(nd) for s in range(ns)]
        order = rng.choice(['volume-major', 'volume-major', 'shuffled', 'slice-major', 'reversed-vols'])
        if order == 'shuffled':
            pairs = list(full_rows)
            rng.shuffle(pairs)
            seen, full_rows = {}, []
            for s, _ in pairs:
                seen[s] = seen.get(s, 0) + 1
                full_rows.append([s, seen[s]])
        elif order == 'slice-major':
            full_rows = [[s + 1, d + 1] for s in range(ns) for d in range(nd)]
        elif order == 'reversed-vols':        # dynamics stored last-first: strict and lax sorting differ
            full_rows = [[s + 1, d + 1] for d in reversed(range(nd)) for s in range(ns)]
        strict = rng.random() < 0.5
        b = {'fmt': 'parrec', 'nx': rng.choice([1, 2, 3, 4]), 'ny': rng.choice([1, 2, 3]), 'nslices': ns, 'ndyn': nd,
             'rows': full_rows, 'scaled': True, 'comp': rng.choice(['plain', 'plain', 'plain', 'gz']),
             'seed': rng.randrange(10 ** 6), 'strict': strict, 'permit': True,
             'scaling': rng.choice(['dv', 'dv', 'fp'])}
        if rng.random() < 0.8:
            drop = parrec_drop(rng, full_rows, ns, nd, strict)
            if drop:
                b['drop'] = drop
        if not b.get('drop') and rng.random() < 0.5:
            b['permit'] = False
        try:
            bt = get_built(b)
        except Exception:
            raise
        shape = bt.shape
        for _ in range(nidx):
            cfg = rand_cfg(rng, 'parrec', b['comp'])
            idx = rand_index(rng, shape, rng.random() < 0.08)
            if rng.random() < 0.08:
                idx = ()
            out.append(mk_case(b, cfg, idx, 'parrec-truncated' if b.get('drop') else 'parrec-opts',
                               pre=rand_index(rng, shape) if rng.random() < 0.15 else None))


def gen_minc(rng, out, nbuilds, nidx):
    for _ in range(nbuilds):
        fmt = rng.choice(['minc1', 'minc2'])
        nd = rng.choice([3, 3, 4])
        shape = rand_shape(rng, nd, 120)
        dt = rng.choice(['u1', 'i2', 'u2'])
        if dt == 'u1' and int(np.prod(shape)) > 200:
            dt = 'i2'
        b = {'fmt': fmt, 'shape': shape, 'dt': dt, 'nscales': rng.choice([0, 1, 1, 2, 2]),
             'seed': rng.randrange(10 ** 6), 'comp': rng.choice(['plain', 'plain', 'gz', 'bz2']) if fmt == 'minc1' else 'plain'}
        if rng.random() < 0.3:
            info = np.iinfo({'u1': 'u1', 'i2': 'i2', 'u2': 'u2'}[dt])
            b['valid_range'] = [float(max(info.min, -15000)), float(min(info.max, 15000))]
        for _ in range(nidx):
            cfg = rand_cfg(rng, fmt, b['comp'])
            if fmt == 'minc2':
                cfg['src'] = 'path'
            out.append(mk_case(b, cfg, rand_index(rng, shape, rng.random() < 0.08), fmt))
        for _ in range(2):      # all-integer indices (0-d result; region of the repaired MINC1 byte-order defect)
            out.append(mk_case(b, rand_cfg(rng, fmt, b['comp']) if fmt == 'minc1' else cfg,
                               tuple(rng.randrange(-n, n) for n in shape), fmt + '-scalar'))


def gen_frozen(rng, out, n):
    for _ in range(n):
        h = {'shape': list(rand_shape(rng, rng.choice([2, 3, 4]))), 'isz': rng.choice([1, 2, 4, 8]), 'off': rng.choice([352, 400]),
             'slope': rng.choice([None, 2, 3, -4]), 'inter': rng.choice([None, 0, 5, -1])}
        if h['slope'] is None:
            h['inter'] = None
        ops = []
        for _ in range(rng.randrange(0, 5)):
            k = rng.choice(['shape', 'isz', 'off', 'si'])
            if k == 'shape':
                ops.append('shape:' + ','.join(map(str, rand_shape(rng, rng.choice([2, 3])))))
            elif k == 'isz':
                ops.append('isz:%d' % rng.choice([1, 2, 4, 8]))
            elif k == 'off':
                ops.append('off:%d' % rng.choice([352, 360, 512]))
            else:
                s = rng.choice([None, 2, 5, -3])
                i = rng.choice([None, 0, 1, 9]) if s is not None else None
                ops.append('si:%s:%s' % (_fmt_o(s), _fmt_o(i)))
        out.append(case_from_data({'op': 'frz', 'hdr': h, 'ops': ops}))


def gen_frozen_reads(rng, out, nbuilds, nidx):
    """header OBJECT edited between two reads of the same proxy (the object the proxy was built from, or the header of
    the loaded image; occasionally an unrelated equal copy)"""
    for _ in range(nbuilds):
        fmt = rng.choice(['nifti1', 'nifti1', 'nifti2'])
        shape = rand_shape(rng, rng.choice([2, 3, 3, 4]))
        b = {'fmt': fmt, 'seed': rng.randrange(10 ** 6), 'comp': 'plain', 'shape': shape,
             'dt': rng.choice(['u1', 'i2', 'i2', 'i4', 'f4']), 'slope': rng.choice([None, 2.0, 0.5, 1.7]),
             'inter': rng.choice([0.0, 1.0, -7.25])}
        if b['dt'] == 'u1' and int(np.prod(shape)) > 200:
            b['dt'] = 'i2'
        if b['slope'] is None:
            b['inter'] = None
        for _ in range(nidx):
            ops = []
            for _ in range(rng.randrange(1, 5)):
                cell = rng.choice([0, 0, 0, 1])
                k = rng.choice(['shape', 'shape', 'isz', 'off', 'si', 'si'])
                if k == 'shape':
                    r = rng.random()
                    if r < 0.4:          # same number of elements, other shape
                        ns = [abs(v) for v in rand_factor_shape(rng, int(np.prod(shape)))]
                    elif r < 0.6:        # same shape, axes permuted
                        ns = list(shape)
                        rng.shuffle(ns)
                    else:
                        ns = list(rand_shape(rng, rng.choice([2, 3, 4])))
                    ops.append('%d:shape:%s' % (cell, ','.join(map(str, ns))))
                elif k == 'isz':
                    ops.append('%d:isz:%d' % (cell, rng.choice([1, 2, 4, 8])))
                elif k == 'off':
                    ops.append('%d:off:%d' % (cell, rng.choice([352, 360, 544, 512, 1024])))
                else:
                    sl = rng.choice([None, 2, 5, -3, 1])
                    it = rng.choice([None, 0, 1, 9]) if sl is not None else None
                    ops.append('%d:si:%s:%s' % (cell, _fmt_o(sl), _fmt_o(it)))
            cfg = {'mmap': rng.choice([True, False, 'c', 'r']), 'kfo': rng.choice([True, False]), 'igzip': True,
                   'src': 'path'}
            out.append(mk_case(b, cfg, rand_index(rng, shape), 'frozen-read', op='frzr',
                               extra={'ops': ops, 'target': rng.choice(['proxy-hdr', 'proxy-hdr', 'img-hdr'])}))


def rand_steps(rng, shape, allow_ad):
    """a history: reads of all kinds (whole, whole with dtype, partial incl. refused ones) interleaved with in-place
    edits of arrays EARLIER reads returned; always ends with reads, so that every edit is followed by a read"""
    steps, nreads = [], 0

    def read():
        nonlocal nreads
        r = rng.random()
        earlier = [st for st in steps if st[0] == 'g']
        if earlier and r < 0.35:          # the SAME partial read again (after whatever happened in between)
            steps.append(list(rng.choice(earlier)))
        elif r < 0.5:
            steps.append(['a'])
        elif r < 0.6 and allow_ad:
            steps.append(['ad'])
        else:
            steps.append(['g', [item_to_data(i) for i in rand_index(rng, shape, rng.random() < 0.1)]])
        nreads += 1
    r0 = rng.random()
    if r0 < 0.35:           # convert, post-process the result in place, read again
        steps.append(['a'] if (rng.random() < 0.8 or not allow_ad) else ['ad'])
        nreads = 1
        steps.append(['m', 0, rng.choice(['fill', 'scale', 'inv'])])
    elif r0 < 0.6:          # partial read (an integer on one axis, slices elsewhere: e.g. one volume), edit it, same read again
        items = [slice(None)] * len(shape)
        if shape:
            ax = rng.choice([len(shape) - 1, len(shape) - 1, rng.randrange(len(shape))])
            if shape[ax] > 0:
                items[ax] = rng.randrange(-shape[ax], shape[ax])
        g = ['g', [item_to_data(i) for i in items]]
        steps.extend([g, ['m', 0, rng.choice(['fill', 'scale', 'inv'])], list(g)])
        nreads = 2
    for _ in range(rng.randrange(1, 5)):
        if nreads and rng.random() < 0.3:
            steps.append(['m', rng.randrange(nreads), rng.choice(['fill', 'scale', 'inv'])])
        else:
            read()
    for _ in range(rng.choice([1, 2, 2, 3])):
        read()
    return steps


def gen_hist(rng, out, k):
    """histories on ONE proxy object, for every proxy class: the (build, configuration) pairs are those of the other
    streams (all formats, compressions, mmap modes, keep_file_open, sources, load options, unordered ECAT matrix
    lists, truncated PAR/REC …), so the state a proxy is in when it is read varies along every dimension they vary"""
    tmp = []
    gen_ecat(rng, tmp, 3 * k, 1, exhaustive=False)
    gen_generic(rng, tmp, 10 * k, 1)
    gen_afni(rng, tmp, 3 * k, 1)
    gen_parrec(rng, tmp, 2 * k, 1)
    gen_parrec_opts(rng, tmp, 2 * k, 1)
    gen_minc(rng, tmp, 4 * k, 1)
    seen = set()
    for c in tmp:
        d = c.data
        if d.get('op') not in ('get', 'arr'):
            continue
        b, cfg = d['build'], dict(d['cfg'])
        key = repr(sorted(b.items()))
        if key in seen:
            continue
        seen.add(key)
        bt = get_built(b)
        shape = tuple(bt.shape)
        extra = {}
        if b['fmt'] in GENERIC and b['fmt'] != 'cifti2' and rng.random() < 0.2:
            ns = tuple(abs(v) for v in rand_factor_shape(rng, int(np.prod(shape))))
            extra['newshape'] = list(ns)
            shape = ns
        allow_ad = bt.full.dtype == np.float64 or bt.full.dtype.kind in 'iu'
        for _ in range(2):
            data = {'op': 'hist', 'build': b, 'cfg': cfg, 'idx': [], 'pre': None, 'steps': rand_steps(rng, shape, allow_ad),
                    'stream': 'hist:' + ('generic' if b['fmt'] in GENERIC else b['fmt'])}
            data.update(extra)
            out.append(case_from_data(data))
            cfg = dict(cfg)
            if b['fmt'] in GENERIC or b['fmt'] == 'afni':
                cfg['kfo'] = not cfg.get('kfo')


def cases(rng, tier):
    out = []
    k = {'quick': 4, 'thorough': 100, 'search': 4}[tier]
    gen_hist(rng, out, {'quick': 10, 'thorough': 60, 'search': 10}[tier])
    gen_ecat(rng, out, 4 * k, 25, exhaustive=True)
    gen_generic(rng, out, 30 * k, 14)
    gen_afni(rng, out, 8 * k, 14)
    gen_parrec(rng, out, 8 * k, 14)
    gen_parrec_opts(rng, out, 10 * k, 12)
    gen_minc(rng, out, 10 * k, 14)
    gen_frozen(rng, out, 40 * k)
    gen_frozen_reads(rng, out, 8 * k, 10)
    return out
