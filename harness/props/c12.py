"""C12 — all serialisation routes and accepted file names are equivalent.

Python side: regeneration of Generated/C12FileTypes.lean, case generators, implementation runner,
property oracle.  See /verif/DESIGN.md §5 C12 and lean/NibabelModel/Model/C12.lean.
"""
import bz2
import gzip
import hashlib
import atexit
import inspect
import io
import itertools
import json
import os
import pathlib
import shutil
import subprocess
import sys
import tempfile
import urllib.parse

import numpy as np

import common
from common import Case, errname

PID = 'C12'
LEAN_TARGETS = ['NibabelModel.Props.C12']
THEOREMS = ['Nb.C12.' + t for t in [
    'table_wf', 'table_rw_modelled', 'table_mgz_fresh', 'table_exts_lower', 'table_valid_exts',
    'table_members_loadable', 'table_codecs', 'table_serial_single',
    'named_file_is_written_generic', 'named_file_is_written', 'mgz_named_file_is_written',
    'orig_mixed_case_counterexample', 'sibling_case_rule', 'table_names_letters', 'sibling_name_same_files_partial', 'mixed_case_sibling_counterexample', 'load_finds_class', 'load_finds_writer',
    'load_class_case_insensitive', 'codec_same_for_read_and_write', 'mgz_codec', 'routes_equal',
    'multi_file_not_serialisable',
    'table_opener_keys', 'opener_classes_agree_except_mgz', 'load_returns_writer', 'sniffFile_is_written_header',
    'table_findRow', 'save_then_load_returns_writer', 'save_load_after_any_opener_calls',
    'hist_independent_of_opener_calls', 'save_obs_independent_of_history', 'codec_case_insensitive',
    'holders_agree', 'backward_and_dangling_seek_counterexamples', 'routes_equal_holder',
    'gen_endswith_eq', 'gen_iendswith_eq', 'gen_slice_is_cutEnd', 'gen_splitext_addext_loop', 'gen_splitext_addext_eq', 'gen_parse_filename_eq', 'gen_osPathSplitext_eq', 'gen_types_filenames_loop_partial',
    'gen_splitLast_is_rfind', 'gen_strip_empty_is_all_dots',
]]
ASSUMPTIONS = [
    'hand-written Lean model (Model/C12.lean) of filename_parser.py, posixpath.splitext, '
    'FileBasedImage.filespec_to_file_map / path_maybe_image extension test, MGHImage.filespec_to_file_map, '
    'Opener._get_opener_argnames, load()/save() class choice, SerializableImage routes; tied to the code by the '
    'differential correspondence on every case of this run',
    'strings are modelled as UTF-8 byte lists with ASCII case folding: names whose NON-ASCII characters have '
    'case mappings that interact with the extension (e.g. KELVIN SIGN in ".brik") are outside the model',
    '`_stringify_path` (pathlib.Path(...).expanduser().as_posix()) is not modelled: the model takes its result',
    'stage T: _endswith, _iendswith, splitext_addext, parse_filename, types_filenames are translated from the working '
    'tree on every run (harness/py2lean_c12.py -> Generated/C12Funcs.lean); trusted: the translator (purely syntactic; '
    'desugars for-break-else with a flag, function-valued locals as tags + generated dispatcher) and the operator semantics '
    'of Basic/PyStrC12.lean (ASCII-only str.lower/upper, posixpath.splitext, _stringify_path = identity on names pathlib '
    'leaves unchanged, TypesFilenamesError -> the single "refused" outcome), both validated every run by the `gen` '
    '(translated functions vs real functions) and `pyop` (every operator vs CPython) streams; PROVED equal to the model: '
    '_endswith, _iendswith, the suffix loop of splitext_addext; NOT proved (gen stream only): tail of splitext_addext, '
    'parse_filename, types_filenames',
    'class tables (files_types, valid_exts, _compressed_suffixes, rw, opener keys) are regenerated from the '
    'working tree on every run and the table lemmas re-proved by `decide`',
    'codecs (gzip/bz2/zstd) enter routes_equal only through the contract decomp(comp(b)) = b; real content '
    'equality (to_bytes = file = stream, decompression) is checked by the oracle on the real code',
    'header sniffing (`may_contain_header`) is an external input of the model (`sniffOK`), computed by the real '
    'code for the header each writable class writes',
    'AFNIImage.filespec_to_file_map (depends on which files exist; class is read-only) is not modelled',
    'histories: the model threads ONLY the file system (name -> writer class, codec on disk) through a history; that '
    'the code keeps no other process-wide state is what the hist streams test (every history in a fresh forked '
    'interpreter, every step compared with the stateless model); side files of plain Opener steps live in a '
    'directory no save/load step names',
    'write programs: BytesIO / plain-file / GzipFile / BZ2File / ZstdFile seek+write behaviour is modelled by two '
    'small machines (random access, sequential zero-filling) and compared with the real objects on every wprog case; '
    'that each class\'s to_file_map is a forward-only program is observed (recorded calls), not proved',
    'kw / shist streams are oracle-only (no model line): the reference is the real code on another route / on a BytesIO; '
    'a from_stream that fails on another class\'s bytes is compared as "fails" only (exception class and stream position '
    'after parsing foreign bytes depend on the holder), the position after reading the DATA of an image is not compared '
    '(memory map vs read), seeks are taken modulo the stream length (decompressors clamp at EOF)',
    'names whose last path component before the extension is empty or only dots (".mgz", "..nii") are '
    'compared model-vs-code but are outside the oracle (os.path.splitext sees no extension there)',
]
RULE = ('streams: fm = every modelled class x member (+ .mgz) x EVERY case mix of the extension x {none, every case '
        'mix of every compression suffix of the class} x path shapes (plain, dots/spaces in directories, directory '
        'named like an image, upper-case stem, non-ASCII, hidden file, stems containing other extensions, nested) '
        'through filespec_to_file_map; fm-edge = same with empty/all-dots basename; fm-malformed/tf/parse/sae/codec/'
        'ext = hand-made malformed names + random token strings through every low-level function (enforce on/off, '
        'match_case on/off); save = real nib.save on a temp directory for all 10 writable classes (str and '
        'pathlib.Path; NIfTI-1/2 single+pair, Analyze and SPM images built with BOTH header byte orders), observing the directory listing, per-file codec magic, generic load of the name and of every '
        'written file, to_bytes/to_stream/from_bytes/from_stream; save-cross = saving under another class\'s name; '
        'hist-order / hist = HISTORIES OVER ONE PROCESS, each run in a fresh interpreter state (forked child of a worker '
        'that only imported nibabel): base Opener / ImageOpener used on unrelated, compressed and mixed-case names '
        '(.txt .trk .GZ .Bz2 .MGZ .Mgz ...) in every ORDER before/between nib.save of all 10 writable classes under '
        'lower/UPPER/Mixed extension x suffix spellings (str and pathlib), nib.load of the name, of every written '
        'member (.img.zst, .hdr.bz2 ...), of case-changing renames of all members, after losing a member, and after '
        'ANOTHER class overwrote the same name; observable per step: codec on disk, files written, class loaded; '
        'wprog-class = the write/seek calls each serialisable class really makes (recorded, both header byte orders) '
        'replayed on BytesIO, plain file, gzip, bz2, zstd through ImageOpener + seek_tell; wprog = random and hand-made '
        'write programs (forward gaps, empty writes, backward and dangling seeks) on the same five holder kinds; '
        'kw = KEYWORD routes: all 10 writable classes x data dtypes that make the keyword matter (GIFTI arrays declared '
        'float64/int64/uint16/int16/int8 and mixtures; volume data int16/uint8/float32/float64/int32/int64, both header byte '
        'orders) x every keyword the class\'s to_file_map accepts with default, non-default, invalid values and a keyword the '
        'class does not accept (GIFTI enc x mode; NIfTI/Analyze/CIFTI-2 dtype= incl. byte-order-specific, compat, smallest; '
        'MGH none) x every route (to_bytes, to_stream on BytesIO and on an open file, to_filename str/Path, nib.save str/Path, '
        'to_file_map with explicit map / own map / BytesIO map) under a random accepted spelling (member, case, suffix): same '
        'decompressed bytes per member or the same exception class, and equivalent images when loaded back; '
        'shist = STREAM HISTORIES: from_stream on ONE stream object of kind {BytesIO, buffered file, raw FileIO, GzipFile, '
        'BZ2File, ZstdFile, the fobj of ImageOpener for plain/.gz/.bz2/.zst, non-seekable raw / buffered / over gzip} after '
        '{nothing, an earlier from_stream of the same class, failed from_stream of one or two other classes, peek+rewind, '
        'read without rewind, full read+rewind, seek elsewhere, EOF} and random step lists, 5 serialisable classes (both '
        'header byte orders); observable per step: loaded image re-serialised / failure, stream position; spec = same steps '
        'on a BytesIO of the decompressed bytes and a fresh from_bytes; '
        'bo = BYTE ORDER OF THE FILE ON DISK: every class nib.load picks by sniffing (NIfTI-1/2 single+pair, CIFTI-2, Analyze, '
        'SPM99/2, MGH) x container in BOTH byte orders (CIFTI-2: the NIfTI-2 container re-written byte-swapped) x member x '
        'spelling x suffix x stem: nib.load (str, Path) vs the class loader vs from_bytes / from_stream: same class and data; '
        'gen = the five functions of filename_parser.py translated from the source, run by the driver, vs the real functions '
        'on malformed + random + accepted names x real class tables and hand-made tables (extension without dot, None / empty '
        'extension, duplicate keys, empty table) x suffix lists (empty, upper-case, empty-string suffix) x match_case x '
        'enforce_extensions; pyop = every string operator of Basic/PyStrC12.lean vs CPython (slices with every bound in -7..7, '
        'rfind/strip/removesuffix/endswith/lower/upper/splitext on edge strings incl. uncased non-ASCII); '
        'a case is distinct by (op, class, name[, flags]) / by its step list; every case is non-trivial (has a real name).')
PENDING_FINDINGS = []

FAKE_ROOT = '/T'          # the model sees FAKE_ROOT/<rel>, the implementation <tmpdir>/<rel>


# --------------------------------------------------------------------------- small helpers

def enc(s):
    """percent-encoding of the UTF-8 bytes; safe set = alnum and _.-~/ (same in Driver/C12.lean)"""
    return urllib.parse.quote(s, safe='/')


def tok(s):
    return '=' + enc(s)


def codes(s):
    return '[' + ', '.join(str(b) for b in s.encode('utf-8')) + ']'


def _nib():
    import nibabel  # noqa: F401  (resolved to common.REPO)
    from nibabel import filebasedimages, filename_parser, imageclasses, loadsave, openers
    return filebasedimages, filename_parser, imageclasses, loadsave, openers


def class_by_name(name):
    _, _, ic, _, _ = _nib()
    for k in ic.all_image_classes:
        if k.__name__ == name:
            return k
    raise KeyError(name)


# --------------------------------------------------------------------------- regeneration (Leg T)

CODEC_IDS = {'gz_def': 1, 'bz2_def': 2, 'zstd_def': 3}


def table_facts():
    fbi, fp, ic, ls, op = _nib()
    rows = []
    for k in ic.all_image_classes:
        f = k.filespec_to_file_map.__func__
        if f is fbi.FileBasedImage.filespec_to_file_map.__func__:
            kind = 0
        elif k.__name__ == 'MGHImage':
            kind = 1
        else:
            kind = 2
        if k.path_maybe_image.__func__ is not fbi.FileBasedImage.path_maybe_image.__func__:
            raise RuntimeError(f'{k.__name__} overrides path_maybe_image: not modelled')
        rows.append(dict(
            name=k.__name__, files_types=[(n, e) for n, e in k.files_types], valid_exts=list(k.valid_exts),
            suffixes=list(k._compressed_suffixes), makeable=bool(k.makeable), rw=bool(k.rw),
            sniffs=hasattr(k.header_class, 'may_contain_header'), kind=kind,
            serial=issubclass(k, fbi.SerializableImage)))
    keys = []
    for ext, d in op.ImageOpener.compress_ext_map.items():
        if ext is None:
            continue
        cid = [v for n, v in CODEC_IDS.items() if getattr(op.Opener, n) is d]
        if not cid:
            raise RuntimeError(f'unknown opener definition for {ext!r}')
        keys.append((ext, cid[0]))
    base_keys = []
    for ext, d in op.Opener.compress_ext_map.items():
        if ext is None:
            continue
        cid = [v for n, v in CODEC_IDS.items() if getattr(op.Opener, n) is d]
        if not cid:
            raise RuntimeError(f'unknown base opener definition for {ext!r}')
        base_keys.append((ext, cid[0]))
    sae_default = list(inspect.signature(fp.splitext_addext).parameters['addexts'].default)
    tf_default = list(inspect.signature(fp.types_filenames).parameters['trailing_suffixes'].default)
    return dict(rows=rows, keys=keys, base_keys=base_keys, icase=bool(op.Opener.compress_ext_icase),
                save_sfx=list(ls._compressed_suffixes), sae_default=sae_default, tf_default=tf_default)


def _lean_str(s):
    return f'{codes(s)} /- {s!r} -/' if s is not None else None


def _lean_list(items):
    return '[' + ', '.join(items) + ']'


def regen():
    t = table_facts()
    L = ['import NibabelModel.Model.C12',
         '/-! REGENERATED on every run by harness/props/c12.py `regen()` from the working tree:',
         '    `nibabel.imageclasses.all_image_classes` (files_types, valid_exts, _compressed_suffixes,',
         '    makeable, rw, sniffing header, filespec override, serialisable), `ImageOpener.compress_ext_map`,',
         '    `Opener.compress_ext_icase`, `loadsave._compressed_suffixes`, default `addexts`. Do not edit. -/',
         'namespace Nb.C12.Gen', 'open Nb.C12', '']
    names = []
    for r in t['rows']:
        ft = _lean_list([f'({_lean_str(n)}, ' + ('none' if e is None else f'some {_lean_str(e)}') + ')'
                         for n, e in r['files_types']])
        nm = 'row' + r['name']
        names.append(nm)
        L += [f'def {nm} : ClassRow :=',
              f'  {{ name := {_lean_str(r["name"])},',
              f'    filesTypes := {ft},',
              f'    validExts := {_lean_list([_lean_str(e) for e in r["valid_exts"]])},',
              f'    suffixes := {_lean_list([_lean_str(e) for e in r["suffixes"]])},',
              f'    makeable := {str(r["makeable"]).lower()}, rw := {str(r["rw"]).lower()}, '
              f'sniffs := {str(r["sniffs"]).lower()}, fmKind := {r["kind"]}, serial := {str(r["serial"]).lower()} }}', '']
    L += ['/-- `all_image_classes`, in load/save priority order -/',
          'def classTable : List ClassRow := ' + _lean_list(names), '',
          '/-- `ImageOpener.compress_ext_map` without the `None` entry, dict order; codec 1 gzip, 2 bz2, 3 zstd -/',
          'def openerKeys : List (Str × Nat) := ' + _lean_list([f'({_lean_str(e)}, {c})' for e, c in t['keys']]), '',
          '/-- `Opener.compress_ext_map` of the BASE class (used by streamlines, freesurfer.io, user code) -/',
          'def baseOpenerKeys : List (Str × Nat) := ' + _lean_list([f'({_lean_str(e)}, {c})' for e, c in t['base_keys']]), '',
          f'def compressExtIcase : Bool := {str(t["icase"]).lower()}', '',
          '/-- `loadsave._compressed_suffixes` -/',
          'def saveSuffixes : List Str := ' + _lean_list([_lean_str(e) for e in t['save_sfx']]), '',
          '/-- default `addexts` of `splitext_addext` -/',
          'def saeDefault : List Str := ' + _lean_list([_lean_str(e) for e in t['sae_default']]), '',
          '/-- default `trailing_suffixes` of `types_filenames` -/',
          'def tfDefault : List Str := ' + _lean_list([_lean_str(e) for e in t['tf_default']]), '',
          'end Nb.C12.Gen', '']
    common.write_if_changed(os.path.join(common.LEAN, 'NibabelModel', 'Generated', 'C12FileTypes.lean'), '\n'.join(L))
    return ['Generated.C12FileTypes.classTable', 'Generated.C12FileTypes.openerKeys',
            'Generated.C12FileTypes.baseOpenerKeys'] + regen_funcs()


# whole functions of filename_parser.py, translated from the working tree on every run (stage T)
GEN_FUNCS = [('_endswith', 'py_endswith'), ('_iendswith', 'py_iendswith'), ('splitext_addext', 'splitext_addext'),
             ('parse_filename', 'parse_filename'), ('types_filenames', 'types_filenames')]
GEN_PATH = os.path.join(common.LEAN, 'NibabelModel', 'Generated', 'C12Funcs.lean')


def regen_funcs():
    import py2lean_c12
    fp = _nib()[1]     # (no importlib.reload: a second TypesFilenamesError class would no longer be caught elsewhere)
    objs = [(getattr(fp, py), ln) for py, ln in GEN_FUNCS]
    hdr = ('/-! GENERATED by harness/props/c12.py regen() with harness/py2lean_c12.py (+ py2lean.py) from the working tree '
           'of nibabel\n    (nibabel/filename_parser.py). Do not edit: rewritten on every run of `./check C12`. '
           'Core Lean only. -/')
    common.write_if_changed(GEN_PATH, py2lean_c12.translate_functions(objs, 'Nb.Gen.C12F', hdr))
    return ['Generated.C12Funcs.' + ln for _, ln in GEN_FUNCS]


# --------------------------------------------------------------------------- images and observables

DATA_I16 = (np.arange(24, dtype=np.int16).reshape(2, 3, 4) * 7 - 30)
DATA_F32 = np.arange(6, dtype=np.float32).reshape(2, 3) * 0.5 - 1
AFFINE = np.diag([2.0, 3.0, 4.0, 1.0])

WRITABLE = ['Nifti1Pair', 'Nifti1Image', 'Nifti2Pair', 'Cifti2Image', 'Nifti2Image', 'Spm2AnalyzeImage',
            'Spm99AnalyzeImage', 'AnalyzeImage', 'MGHImage', 'GiftiImage']


# classes whose header can be built in either byte order (`header_class(endianness=...)`); MGH is always
# big-endian, GIFTI is XML, and Cifti2Image's constructor re-creates its NIfTI-2 header in native order
ENDIAN_CLASSES = ('Nifti1Pair', 'Nifti1Image', 'Nifti2Pair', 'Nifti2Image', 'Spm2AnalyzeImage',
                  'Spm99AnalyzeImage', 'AnalyzeImage')


def make_image(clsname, endian=None):
    k = class_by_name(clsname)
    if endian is not None and clsname in ENDIAN_CLASSES:
        hdr = k.header_class(endianness=endian)
        hdr.set_data_dtype(DATA_I16.dtype)
        return k(DATA_I16.copy(), AFFINE.copy(), header=hdr)
    if clsname == 'Cifti2Image':
        from nibabel.cifti2 import cifti2_axes as ax
        sc = ax.ScalarAxis(['a', 'b'])
        bm = ax.BrainModelAxis.from_surface([0, 1, 2], 5, name='CortexLeft')
        return k(DATA_F32.copy(), header=(sc, bm))
    if clsname == 'GiftiImage':
        from nibabel.gifti import GiftiDataArray
        return k(darrays=[GiftiDataArray(DATA_F32.copy(), intent='NIFTI_INTENT_POINTSET',
                                         datatype='NIFTI_TYPE_FLOAT32')])
    return k(DATA_I16.copy(), AFFINE.copy())


def img_data(img):
    if hasattr(img, 'darrays'):
        return [np.asarray(d.data) for d in img.darrays]
    return [np.asarray(img.dataobj)]


def data_digest(img):
    h = hashlib.sha1()
    for a in img_data(img):
        a = np.ascontiguousarray(a)
        a = a.astype(a.dtype.newbyteorder('='))      # values, not the byte order they were stored in
        h.update(repr((a.shape, a.dtype.kind, a.dtype.itemsize)).encode())
        h.update(a.tobytes())
    return h.hexdigest()[:16]


def same_data(a, b):
    a, b = img_data(a), img_data(b)
    return len(a) == len(b) and all(x.shape == y.shape and np.array_equal(x, y) for x, y in zip(a, b))


MAGIC = [(b'\x1f\x8b', 1), (b'BZh', 2), (b'\x28\xb5\x2f\xfd', 3)]


def codec_of_bytes(b):
    for m, c in MAGIC:
        if b.startswith(m):
            return c
    return 0


def decompress(b):
    c = codec_of_bytes(b)
    if c == 1:
        return gzip.decompress(b)
    if c == 2:
        return bz2.decompress(b)
    if c == 3:
        import pyzstd
        return pyzstd.decompress(b)
    return b


def have_zstd():
    try:
        import pyzstd  # noqa: F401
        return True
    except Exception:
        return False


def listing(root):
    out = []
    for dp, _, fns in os.walk(root):
        for fn in fns:
            out.append(os.path.relpath(os.path.join(dp, fn), root))
    return sorted(out)


class _SpyToFilename:
    """records which class's `to_filename` finally wrote (harness-side observation only)"""

    def __enter__(self):
        fbi = _nib()[0]
        self.fbi, self.orig, self.seen = fbi, fbi.FileBasedImage.to_filename, []
        seen, orig = self.seen, self.orig

        def spy(self_, filename, **kw):
            seen.append(type(self_).__name__)
            return orig(self_, filename, **kw)
        fbi.FileBasedImage.to_filename = spy
        return self

    def __exit__(self, *a):
        self.fbi.FileBasedImage.to_filename = self.orig


_SNIFF_TABLE = {}


def sniff_table(endian=None):
    """for every writable class W (header written in byte order `endian` where W supports it): which
    sniffing classes' `may_contain_header` accept the header W writes (the external input of the model's
    `loadClass`)"""
    if endian in _SNIFF_TABLE:
        return _SNIFF_TABLE[endian]
    _, _, ic, _, _ = _nib()
    ent = []
    with tempfile.TemporaryDirectory() as tmp:
        for w in WRITABLE:
            k = class_by_name(w)
            exts = [e for _, e in k.files_types]
            img = make_image(w, endian)
            img.to_filename(os.path.join(tmp, 'sniff_' + w + exts[0]))
            hdr_ext = dict(k.files_types).get('header', exts[0])
            blob = decompress(open(os.path.join(tmp, 'sniff_' + w + hdr_ext), 'rb').read())
            acc = []
            for c in ic.all_image_classes:
                hc = c.header_class
                if hasattr(hc, 'may_contain_header'):
                    b = blob[:max(1024, c._meta_sniff_len)]
                    if len(b) >= c._meta_sniff_len and hc.may_contain_header(b):
                        acc.append(c.__name__)
            ent.append(w + ':' + ','.join(acc))
    _SNIFF_TABLE[endian] = ';'.join(ent)
    return _SNIFF_TABLE[endian]


# --------------------------------------------------------------------------- cases

def posix(s):
    return pathlib.Path(s).expanduser().as_posix()


def mk_fm(cls, name, stream='fm', meta=None):
    """`klass.filespec_to_file_map(name)`; `meta` = (member_ext, ext_spelling, sfx_spelling, stem) when the
    name was built as an accepted spelling"""
    d = {'op': 'fm', 'cls': cls, 'name': name, 'stream': stream}
    if meta:
        d['meta'] = list(meta)
    return Case(f'C12 fm {cls} {tok(posix(name))}', d, ('fm', cls, name), stream)


def mk_simple(op, name, cls=None, flags=(), stream=None):
    d = {'op': op, 'cls': cls, 'name': name, 'flags': list(flags), 'stream': stream or op}
    parts = ['C12', op] + ([cls] if cls is not None else []) + [tok(posix(name) if op != 'codec' else name)] + \
        [str(int(f)) for f in flags]
    return Case(' '.join(parts), d, (op, cls, name, tuple(flags)), stream or op)


def mk_save(cls, dirpart, stem, ext, ext_sp, sfx_sp, as_path, stream='save', endian=None):
    """save an image of class `cls` under <dir>/<stem><ext_sp><sfx_sp>; `ext` = canonical member extension;
    `endian` = byte order of the header the image is built with ('<', '>'; None = the class default)"""
    rel = (dirpart + '/' if dirpart else '') + stem + ext_sp + sfx_sp
    if cls not in ENDIAN_CLASSES:
        endian = None
    d = {'op': 'save', 'cls': cls, 'dir': dirpart, 'stem': stem, 'ext': ext, 'ext_sp': ext_sp, 'sfx_sp': sfx_sp,
         'as_path': bool(as_path), 'stream': stream, 'endian': endian}
    line = f'C12 save {cls} {tok(FAKE_ROOT + "/")} {tok(posix(FAKE_ROOT + "/" + rel))} {sniff_table(endian)}'
    return Case(line, d, ('save', cls, rel, bool(as_path), endian), stream)


def case_from_data(d):
    op = d['op']
    if op == 'fm':
        return mk_fm(d['cls'], d['name'], d.get('stream', 'fm'), d.get('meta'))
    if op == 'save':
        return mk_save(d['cls'], d['dir'], d['stem'], d['ext'], d['ext_sp'], d['sfx_sp'], d['as_path'],
                       d.get('stream', 'save'), d.get('endian'))
    if op == 'hist':
        return mk_hist(d['steps'], d.get('stream', 'hist'))
    if op == 'wprog':
        return mk_wprog(d['kind'], d['ops'], d.get('stream', 'wprog'), d.get('cls'), d.get('endian'))
    if op == 'gen':
        return mk_gen(d['fn'], d['args'])
    if op == 'pyop':
        return mk_pyop(d['fn'], d['args'])
    if op == 'bo':
        return mk_bo(d['cls'], d['endian'], d['ext'], d['ext_sp'], d['sfx_sp'], d.get('stem', 'f'), d.get('stream', 'bo'))
    if op == 'kw':
        return mk_kw(d['cls'], d['var'], d['kw'], d['ext'], d['ext_sp'], d['sfx_sp'], d.get('endian'), d.get('stream', 'kw'))
    if op == 'shist':
        return mk_shist(d['cls'], d.get('endian'), d['kind'], d['steps'], d.get('stream', 'shist'))
    if op in ('tf', 'tforig', 'parse', 'sae', 'codec', 'ext'):
        return mk_simple(op, d['name'], d.get('cls'), d.get('flags', ()), d.get('stream'))
    raise ValueError(d)


def spellings(ext, rng=None, k=None):
    """all case mixes of '.ext' (lower first, UPPER second); a random sample of `k` mixed ones if given"""
    if not ext:
        return ['']
    body = ext[1:]
    letters = [i for i, c in enumerate(body) if c.isalpha()]
    out = []
    for mask in itertools.product([0, 1], repeat=len(letters)):
        s = list(body.lower())
        for i, m in zip(letters, mask):
            if m:
                s[i] = s[i].upper()
        out.append('.' + ''.join(s))
    lo, up = '.' + body.lower(), '.' + body.upper()
    mixed = [s for s in out if s not in (lo, up)]
    if k is not None and rng is not None and len(mixed) > k:
        mixed = rng.sample(mixed, k)
    return [lo, up] + mixed


SHAPES = [('', 'f'), ('with.dots.v1 and spaces', 'f'), ('p.nii.gz', 'sub-01_T1w'), ('a b', 'my scan.v2'),
          ('UPPER.DIR', 'Mixed.Case_STEM'), ('café', 'データ'), ('d', '.hidden'), ('d', 'x.gz'),
          ('d.img', 'x.hdr'), ('e', 'dot.'), ('e', 'x.nii'), ('e', 'x.mgz'), ('deep/er.dir/x y', 'z')]
EDGE_STEMS = [('h', ''), ('h', '.'), ('h', '..'), ('', '')]     # basename empty / all dots


def class_suffixes(cls):
    sf = [s for s in class_by_name(cls)._compressed_suffixes]
    if not have_zstd():
        sf = [s for s in sf if s.lower() != '.zst']
    return sf


def member_exts(cls):
    ex = [e for _, e in class_by_name(cls).files_types if e]
    if cls == 'MGHImage':
        ex.append('.mgz')
    return ex


def accepted_names(cls, rng=None, kmix=None):
    """(member ext, ext spelling, suffix spelling) for every accepted spelling of class `cls`"""
    for e in member_exts(cls):
        sfx = [''] if e == '.mgz' else [''] + class_suffixes(cls)
        for es in spellings(e, rng, kmix):
            for s in sfx:
                for ss in spellings(s, rng, kmix):
                    yield e, es, ss


MALFORMED = ['f', 'f.', 'f.gz', 'f.GZ', 'f.txt', 'f.nii.txt', 'f.gz.nii', 'f.nii.gz.gz', 'f.nii.gz.bz2', 'f.nii.', 'f.nii..',
             'f.img.hdr', 'f.hdr.img.gz', 'f.mat', 'f.MAT.gz', 'f.mgz.gz', 'f.mgh.gz', 'f.gii.zst', 'f.Gii.Bz2', 'f.mnc.gz',
             'f.MNC', 'f.rec', 'f.PAR', 'f.nii.Z', 'f.niigz', 'fnii', 'f.ni', '.nii', '.mgz', '..mgz', '.gz', 'd.x/', 'd.nii/f',
             'd.nii.gz/f', 'd.nii/f.', 'a.b/.nii.gz', 'f .nii', 'f.nii ', 'f.n ii', 'f.dscalar.nii', 'f.dscalar.nii.gz', 'f.zst',
             'f.nii.zst', 'f.nii.ZST', 'f.img.z', 'f.mgz.', 'F.MGZ', 'f.mgH', 'f.brik', 'f.HEAD', 'x/../f.nii', './f.nii',
             'x//f.nii', 'f.nii/', 'f..nii', 'f...', '...', 'f.nii.gz.', 'f.hdr.bz2', 'f.tar.gz', 'f.img.bz2.gz']


def rand_name(rng):
    alpha = ['f', 'x', 'A', '.', '.', ' ', '/', 'nii', 'NII', 'Nii', 'gz', 'GZ', 'bz2', 'zst', 'img', 'hdr', 'Hdr', 'mat',
             'mgh', 'mgz', 'MGZ', 'gii', 'mnc', 'par', 'rec', '.nii', '.gz', '.img', '.', 'z', '2', '_', '-']
    s = ''.join(rng.choice(alpha) for _ in range(rng.randrange(1, 7)))
    return s if stable(s) else 'f'


def stable(s):
    """`_stringify_path` is not modelled: keep names on which it is the identity also after
    `types_filenames` has removed one trailing dot (excludes names ending in '/.' or '/..')"""
    p = posix(s)
    q = p.removesuffix('.')
    return p not in ('.', '/') and q != '' and posix(q) == q


def cases(rng, tier):
    out = []
    if tier == 'search':
        # (the search after a broken proof / correspondence stops at the first oracle failure: the cheap streams
        #  with a reference oracle go first)
        out.extend(stage_t_cases(rng, tier))
    table = table_facts()
    modelled = [r['name'] for r in table['rows'] if r['kind'] != 2]
    # ---- fm: every modelled class x member x every case mix of extension and suffix x path shapes
    for cls in modelled:
        sfx_all = list(class_by_name(cls)._compressed_suffixes)
        exts = member_exts(cls)
        for e in exts:
            for es in spellings(e):
                for s in ([''] if e == '.mgz' else [''] + sfx_all):
                    for ss in spellings(s):
                        shapes = SHAPES if tier != 'quick' else [SHAPES[0]] + rng.sample(SHAPES[1:], 3)
                        for dp, st in shapes:
                            nm = (dp + '/' if dp else '') + st + es + ss
                            out.append(mk_fm(cls, nm, 'fm', (e, es, ss, (dp + '/' if dp else '') + st)))
                        for dp, st in EDGE_STEMS:
                            nm = (dp + '/' if dp else '') + st + es + ss
                            out.append(mk_fm(cls, nm, 'fm-edge'))
    # ---- malformed / edge names through every low-level function
    names = [n for n in MALFORMED if stable(n)] + [rand_name(rng) for _ in range({'quick': 400, 'thorough': 6000, 'search': 200}[tier])]
    for nm in names:
        for cls in modelled:
            out.append(mk_fm(cls, nm, 'fm-malformed'))
        cls = rng.choice(modelled)
        for enforce in (0, 1):
            for mc in (0, 1):
                out.append(mk_simple('tf', nm, cls, (enforce, mc)))
        for mc in (0, 1):
            out.append(mk_simple('parse', nm, rng.choice(modelled), (mc,)))
            out.append(mk_simple('sae', nm, rng.choice(modelled + ['*']), (mc,)))
        out.append(mk_simple('codec', posix(nm)))
        out.append(mk_simple('ext', nm))
    # accepted names also through parse / sae / codec / ext
    for cls in modelled:
        for e, es, ss in accepted_names(cls, rng, 2):
            dp, st = rng.choice(SHAPES)
            nm = (dp + '/' if dp else '') + st + es + ss
            out.append(mk_simple('parse', nm, cls, (0,)))
            out.append(mk_simple('sae', nm, cls, (0,)))
            out.append(mk_simple('codec', posix(nm)))
            out.append(mk_simple('ext', nm))
    # ---- save / load scenarios on the real file system
    full = []
    for cls in WRITABLE:
        for e, es, ss in accepted_names(cls):
            for (dp, st) in SHAPES:
                full.append((cls, dp, st, e, es, ss))
    if tier == 'thorough':
        # every spelling in the first four path shapes, a random third of the other shapes
        first = {(dp, st) for dp, st in SHAPES[:4]}
        rest = [c for c in full if (c[1], c[2]) not in first]
        chosen = [c for c in full if (c[1], c[2]) in first] + rng.sample(rest, len(rest) // 3)
    else:
        # always: lower / UPPER / Capitalised x every suffix in the plain shape; plus a random sample
        base = [c for c in full if c[1] == '' and c[4] in (c[3], c[3].upper(), '.' + c[3][1:].capitalize())
                and c[5] in (c[5].lower(), c[5].upper())]
        rest = [c for c in full if c not in set(base)]
        chosen = base + rng.sample(rest, {'quick': 500, 'search': 300}[tier])
    nbase = len(base) if tier != 'thorough' else 0
    for i, (cls, dp, st, e, es, ss) in enumerate(chosen):
        if cls in ENDIAN_CLASSES and (i < nbase or (tier == 'thorough' and dp == '')):
            ends = ['<', '>']                      # both byte orders of the header
        else:
            ends = [rng.choice(['<', '>'])]
        for en in ends:
            out.append(mk_save(cls, dp, st, e, es, ss, rng.random() < 0.4, endian=en))
    # ---- edge stems (basename empty / all dots) and cross-class saves
    for cls in WRITABLE:
        for e in member_exts(cls):
            for dp, st in EDGE_STEMS[:3]:
                for es in (e, e.upper()):
                    out.append(mk_save(cls, dp, st, e, es, '', False, 'save-edge', rng.choice(['<', '>'])))
    vol = ['Nifti1Pair', 'Nifti1Image', 'Nifti2Pair', 'Nifti2Image', 'Spm2AnalyzeImage', 'Spm99AnalyzeImage',
           'AnalyzeImage', 'MGHImage']
    for cls in vol:
        for e in ['.nii', '.img', '.hdr', '.mgh', '.mgz', '.mat', '.txt']:
            if e in member_exts(cls):
                continue
            for es in spellings(e, rng, 1):
                for s in ['', '.gz']:
                    if s and e in ('.mgh', '.mgz'):
                        continue
                    ss = rng.choice(spellings(s))
                    dp, st = rng.choice(SHAPES)
                    out.append(mk_save(cls, dp, st, e, es, ss, rng.random() < 0.3, 'save-cross',
                                       rng.choice(['<', '>'])))
    out.extend(hist_cases(rng, tier))
    out.extend(wprog_cases(rng, tier))
    out.extend(kw_cases(rng, tier))
    out.extend(bo_cases(rng, tier))
    if tier != 'search':
        out.extend(stage_t_cases(rng, tier))
    out.extend(shist_cases(rng, tier))
    return out



# --------------------------------------------------------------------------- histories over ONE process
#
# A history is a list of steps executed one after the other in a FRESH interpreter state (a forked child of
# a worker that has done nothing but `import nibabel`), so that process-wide state (class / module level
# caches, registries filled on first use) and the ORDER of operations are generator dimensions:
#   {'k': 'O'|'I', 'rel': name}             base `Opener` / `ImageOpener` writes a side file under side/
#   {'k': 'S', 'id': n, 'cls', 'dir', 'stem', 'ext', 'ext_sp', 'sfx_sp', 'as_path'[, 'home': m]}   nib.save into
#                                            s<n>/ (or into s<m>/, the directory of an EARLIER save: overwriting)
#   {'k': 'L', 'sid': n, 'rel', 'as_path', 'of': n|None}    nib.load (+ data); `of` = the S step whose image
#                                                            it must return (None: model comparison only)
#   {'k': 'R', 'sid': n, 'a': rel, 'b': rel}                os.rename

SIDE_PAYLOAD = b'side file, not an image\n' * 3


def step_rel(st):
    if st['k'] == 'S':
        return f's{st.get("home", st["id"])}/' + (st['dir'] + '/' if st['dir'] else '') + st['stem'] + st['ext_sp'] + st['sfx_sp']
    return st['rel']


def _model_name(rel):
    return tok(posix(FAKE_ROOT + '/' + rel))


def mk_hist(steps, stream='hist'):
    toks = []
    for st in steps:
        k = st['k']
        if k in ('O', 'I'):
            toks.append(f'{k}:{_model_name(st["rel"])}')
        elif k == 'S':
            toks.append(f'S:{st["cls"]}:{_model_name(step_rel(st))}')
        elif k == 'L':
            toks.append(f'L:{_model_name(st["rel"])}')
        elif k == 'R':
            toks.append(f'R:{_model_name(st["a"])}:{_model_name(st["b"])}')
        else:
            raise ValueError(st)
    line = f'C12 hist {tok(FAKE_ROOT + "/")} {sniff_table(None)} ' + ' '.join(toks)
    d = {'op': 'hist', 'steps': steps, 'stream': stream}
    return Case(line, d, ('hist', json.dumps(steps, sort_keys=True)), stream)


def run_history(steps):
    """executed in the forked child: returns one {'obs': str, ...extras} per step"""
    import nibabel as nib
    fbi, _, _, _, op = _nib()
    tmp = tempfile.mkdtemp(prefix='c12h_')
    res = []
    saved = {}
    try:
        for st in steps:
            k = st['k']
            if k in ('O', 'I'):
                full = os.path.join(tmp, st['rel'])
                os.makedirs(os.path.dirname(full), exist_ok=True)
                opener = op.Opener if k == 'O' else op.ImageOpener
                with opener(full, 'wb') as f:
                    f.write(SIDE_PAYLOAD)
                raw = open(full, 'rb').read()
                with opener(full, 'rb') as f:
                    back = f.read()
                res.append({'obs': f'c{codec_of_bytes(raw)}', 'roundtrip': back == SIDE_PAYLOAD,
                            'plain_ok': decompress(raw) == SIDE_PAYLOAD})
            elif k == 'S':
                rel = step_rel(st)
                full = os.path.join(tmp, rel)
                os.makedirs(os.path.dirname(full), exist_ok=True)
                home = st.get('home', st['id'])
                sdir = os.path.join(tmp, f's{home}')
                for f in listing(sdir):          # files of earlier steps: mark, to tell what THIS save writes
                    os.utime(os.path.join(sdir, f), ns=(1, 1))
                img = make_image(st['cls'])
                saved[st['id']] = st['cls']
                with _SpyToFilename() as spy:
                    try:
                        nib.save(img, pathlib.Path(full) if st['as_path'] else full)
                    except fbi.ImageFileError:
                        res.append({'obs': 'ERR', 'files': listing(sdir)})
                        continue
                files = [f's{home}/' + f for f in listing(sdir) if os.stat(os.path.join(sdir, f)).st_mtime_ns != 1]
                raw = {f: open(os.path.join(tmp, f), 'rb').read() for f in files}
                wrote = spy.seen[-1]
                r = {'obs': f'W={wrote},' + '|'.join(f'{enc(f)}:{codec_of_bytes(raw[f])}' for f in sorted(files)),
                     'files': sorted(files), 'codecs': {f: codec_of_bytes(raw[f]) for f in files},
                     'named_exists': os.path.isfile(posix(full))}
                wk = class_by_name(wrote)
                if issubclass(wk, fbi.SerializableImage) and len(files) == 1:
                    try:
                        r['plain_eq_bytes'] = decompress(raw[files[0]]) == make_image(st['cls']).to_bytes()
                    except Exception as e:  # noqa: BLE001
                        r['plain_eq_bytes'] = 'ERR:' + type(e).__name__
                res.append(r)
            elif k == 'L':
                full = posix(os.path.join(tmp, st['rel']))
                given = pathlib.Path(full) if st['as_path'] else full
                r = {}
                if not os.path.exists(full):
                    r['obs'] = 'NOFILE'
                else:
                    try:
                        img = nib.load(given)
                        try:
                            r['digest'] = data_digest(img)
                            r['obs'] = type(img).__name__
                            if st.get('of') in saved:
                                r['same_data'] = same_data(img, make_image(saved[st['of']]))
                        except Exception as e:  # noqa: BLE001
                            if isinstance(e, OSError) or 'DoesNotExist' in type(e).__name__:
                                r['obs'] = 'NOFILE'
                            else:
                                r['obs'] = errname(e)
                    except fbi.ImageFileError:
                        r['obs'] = 'ERR'
                    except Exception as e:  # noqa: BLE001
                        r['obs'] = errname(e)
                res.append(r)
            elif k == 'R':
                a, b = os.path.join(tmp, st['a']), os.path.join(tmp, st['b'])
                if os.path.exists(a):
                    os.makedirs(os.path.dirname(b), exist_ok=True)
                    os.rename(a, b)
                    res.append({'obs': 'mv1'})
                else:
                    res.append({'obs': 'mv0'})
            else:
                raise ValueError(st)
    finally:
        shutil.rmtree(tmp, ignore_errors=True)
    return res


def worker_main():
    """`python -c 'import props.c12 as m; m.worker_main()'`: imports nibabel (import-time state only, what a
    user's fresh process has) and then runs every history read from stdin in a forked child of its own"""
    import nibabel  # noqa: F401
    _nib()
    for line in sys.stdin:
        req = json.loads(line)
        r, w = os.pipe()
        pid = os.fork()
        if pid == 0:
            os.close(r)
            try:
                out = {'res': run_history(req['steps'])}
            except BaseException as e:  # noqa: BLE001
                out = {'fatal': errname(e) if isinstance(e, Exception) else repr(e)}
            with os.fdopen(w, 'w') as f:
                json.dump(out, f)
            os._exit(0)
        os.close(w)
        with os.fdopen(r) as f:
            data = f.read()
        os.waitpid(pid, 0)
        sys.stdout.write((data or json.dumps({'fatal': 'child died'})) + '\n')
        sys.stdout.flush()


_WORKER = [None]


def _stop_worker():
    w = _WORKER[0]
    if w is not None:
        try:
            w.stdin.close()
            w.wait(timeout=10)
        except Exception:  # noqa: BLE001
            w.kill()
        _WORKER[0] = None


def _worker():
    w = _WORKER[0]
    if w is None or w.poll() is not None:
        hdir = os.path.dirname(os.path.dirname(os.path.abspath(__file__)))
        code = f'import sys; sys.path.insert(0, {hdir!r}); import props.c12 as m; m.worker_main()'
        w = subprocess.Popen([sys.executable, '-W', 'ignore', '-c', code], stdin=subprocess.PIPE,
                             stdout=subprocess.PIPE, text=True, bufsize=1)
        if _WORKER[0] is None:
            atexit.register(_stop_worker)
        _WORKER[0] = w
    return w


def impl_hist(case):
    w = _worker()
    w.stdin.write(json.dumps({'steps': case.data['steps']}) + '\n')
    w.stdin.flush()
    line = w.stdout.readline()
    if not line:
        _stop_worker()
        return 'ERR:worker-died'
    out = json.loads(line)
    if 'fatal' in out:
        return 'ERR:' + str(out['fatal'])[:200]
    case.extra = {'steps': out['res']}
    return ';'.join(r['obs'] for r in out['res'])


OPENER_NAMES = ['notes.txt', 'tracks.trk', 'fibers.tck', 'lh.white', 'noext', 'log.GZ', 'log.gz', 'a.Bz2', 'b.ZST',
                'c.nii', 'c.NII.GZ', 'v.mgz', 'v.MGZ', 'v.Mgz', 'v.mGZ', 'w.mgh', 'dir.gz/plain', 'x.txt.gz',
                'y.Gz', 'z.bz2', 'u.zst', 'lh.curv.MGZ', 'readme']

HIST_SHAPES = [('', 'vol'), ('', 'f'), ('a b', 'my scan.v2'), ('with.dots', 'x.gz'), ('UP.DIR', 'Mixed.Case_STEM'),
               ('', 'x.mgz'), ('', 'sub-01_T1w')]


def _case_variant(rng, s):
    """a random re-casing of the letters of `s` (never identical to `s` when it has letters)"""
    if not any(c.isalpha() for c in s):
        return s
    for _ in range(20):
        t = ''.join(c.upper() if rng.random() < 0.5 else c.lower() for c in s)
        if t != s:
            return t
    return s.swapcase()


def _pick_spelling(rng, ext):
    sp = spellings(ext)
    if len(sp) == 1:
        return sp[0]
    r = rng.random()
    if r < 0.25:
        return sp[0]
    if r < 0.55 or len(sp) == 2:
        return sp[1]
    return rng.choice(sp[2:])


def hist_save_step(rng, sid, cls=None, e=None, es=None, ss=None, shape=None, as_path=None):
    cls = cls or rng.choice(WRITABLE)
    if e is None:
        e = rng.choice(member_exts(cls))
    if es is None:
        es = _pick_spelling(rng, e)
    if ss is None:
        sfx = [''] if e == '.mgz' else [''] + class_suffixes(cls)
        ss = _pick_spelling(rng, rng.choice(sfx)) if rng.random() < 0.75 else ''
        if e == '.mgz':
            ss = ''
    dp, stem = shape or rng.choice(HIST_SHAPES)
    return {'k': 'S', 'id': sid, 'cls': cls, 'dir': dp, 'stem': stem, 'ext': e, 'ext_sp': es, 'sfx_sp': ss,
            'as_path': bool(rng.random() < 0.4) if as_path is None else bool(as_path)}


def hist_opener_step(rng, name=None, image=None):
    image = (rng.random() < 0.4) if image is None else image
    return {'k': 'I' if image else 'O', 'rel': 'side/' + (name or rng.choice(OPENER_NAMES))}


def expected_files(st):
    """the files an own-name save step must write (relative to the history's root)"""
    k = class_by_name(st['cls'])
    rel = posix(step_rel(st))
    es, ss, e = st['ext_sp'], st['sfx_sp'], st['ext']
    stem_p = rel[:len(rel) - len(es) - len(ss)]
    if e == '.mgz':
        return [rel]
    sc = sibling_case(es)
    return sorted(stem_p + (es if me == e else sc(me)) + ss for _, me in k.files_types)


def _is_mat(f, ss):
    base = f[:len(f) - len(ss)] if ss else f
    return base.lower().endswith('.mat')


def hist_followups(rng, st):
    """load / rename steps that follow the save step `st` (with the oracle's expectation where it is certain)"""
    out = []
    sid = st['id']
    rel = step_rel(st)
    es, ss = st['ext_sp'], st['sfx_sp']
    r = rng.random()
    out.append({'k': 'L', 'sid': sid, 'rel': rel, 'as_path': rng.random() < 0.4, 'of': sid})
    files = expected_files(st)
    pure_case = es in (es.lower(), es.upper())
    if r < 0.35 and len(files) > 1:
        # generic load through every written member (suffix included): .img.zst, .hdr.bz2, ...
        for f in files:
            if not _is_mat(f, ss):
                out.append({'k': 'L', 'sid': sid, 'rel': f, 'as_path': rng.random() < 0.3, 'of': sid if pure_case else None})
    elif r < 0.7:
        # rename every written file: new stem, new case of extension + suffix (same extension, same codec)
        stem_p = posix(rel)[:len(posix(rel)) - len(es) - len(ss)]
        new_stem = stem_p + rng.choice(['_moved', '.v2', ' copy'])
        upper = rng.random() < 0.5
        newnames = []
        for f in files:
            tail = f[len(stem_p):]
            tail2 = tail.upper() if upper else (tail.lower() if rng.random() < 0.5 else _case_variant(rng, tail))
            newnames.append(new_stem + tail2)
            out.append({'k': 'R', 'sid': sid, 'a': f, 'b': new_stem + tail2})
        tails = [n[len(new_stem):] for n in newnames]
        consistent = all(t == t.upper() for t in tails) or all(t == t.lower() for t in tails)
        for n in newnames:
            if not _is_mat(n, ss):
                out.append({'k': 'L', 'sid': sid, 'rel': n, 'as_path': rng.random() < 0.3,
                            'of': sid if (consistent or len(files) == 1) else None})
        out.append({'k': 'L', 'sid': sid, 'rel': rel, 'as_path': False, 'of': None})     # the old name is gone
    elif r < 0.85 and len(files) > 1:
        # lose one member, then try every remaining one
        gone = rng.choice(files)
        out.append({'k': 'R', 'sid': sid, 'a': gone, 'b': gone + '.bak'})
        for f in files:
            out.append({'k': 'L', 'sid': sid, 'rel': f, 'as_path': False, 'of': None})
    return out


ORDER_PREFIXES = [[], ['O:notes.txt'], ['O:log.GZ'], ['I:notes.txt'], ['I:v.MGZ'], ['O:v.Mgz'], ['O:tracks.trk', 'I:c.nii'],
                  ['I:c.NII.GZ', 'O:lh.white'], ['O:noext', 'O:x.txt.gz', 'I:b.ZST']]
ORDER_TARGETS = [('MGHImage', '.mgz', '.MGZ', ''), ('MGHImage', '.mgz', '.Mgz', ''), ('MGHImage', '.mgz', '.mgz', ''),
                 ('MGHImage', '.mgh', '.MGH', ''), ('Nifti1Image', '.nii', '.NII', '.GZ'),
                 ('Nifti1Pair', '.hdr', '.HDR', '.Bz2'), ('GiftiImage', '.gii', '.Gii', '.gZ'),
                 ('Nifti2Image', '.nii', '.nii', '.ZST'), ('Spm2AnalyzeImage', '.img', '.IMG', '.GZ'),
                 ('Cifti2Image', '.nii', '.Nii', '')]


def hist_cases(rng, tier):
    out = []
    zst = have_zstd()
    # ---- order stream: every prefix of opener uses x every target, save then load (and a second target after)
    targets = [t for t in ORDER_TARGETS if zst or t[3].lower() != '.zst']
    for pre in ORDER_PREFIXES:
        for ti, (cls, e, es, ss) in enumerate(targets):
            steps = [hist_opener_step(rng, p[2:], p[0] == 'I') for p in pre]
            s1 = hist_save_step(rng, 1, cls, e, es, ss, HIST_SHAPES[0], as_path=(ti + len(pre)) % 2)
            steps += [s1, {'k': 'L', 'sid': 1, 'rel': step_rel(s1), 'as_path': bool(ti % 2), 'of': 1}]
            if tier != 'quick' or rng.random() < 0.5:
                c2, e2, es2, ss2 = rng.choice(targets)
                s2 = hist_save_step(rng, 2, c2, e2, es2, ss2, rng.choice(HIST_SHAPES))
                steps += [hist_opener_step(rng), s2] + hist_followups(rng, s2)
            out.append(mk_hist(steps, 'hist-order'))
    # ---- random histories
    n = {'quick': 110, 'thorough': 1500, 'search': 80}[tier]
    for _ in range(n):
        steps = []
        sid = 0
        for _ in range(rng.randrange(0, 4)):
            steps.append(hist_opener_step(rng))
        prev = []
        for _ in range(rng.randrange(1, 4)):
            sid += 1
            st = hist_save_step(rng, sid)
            if prev and rng.random() < 0.35:
                # overwrite: ANOTHER class saved under (a case variant of) the name an earlier step used
                old = rng.choice(prev)
                same_ext = [c for c in WRITABLE if c != old['cls'] and old['ext'] in member_exts(c)]
                if same_ext and old['ext'] != '.mgz':
                    c2 = rng.choice(same_ext)
                    ss2 = old['sfx_sp'] if any(old['sfx_sp'].lower() == x.lower() for x in [''] + class_suffixes(c2)) else ''
                    es2 = old['ext_sp'] if rng.random() < 0.6 else _pick_spelling(rng, old['ext'])
                    st = {**old, 'id': sid, 'home': old.get('home', old['id']), 'cls': c2, 'ext_sp': es2, 'sfx_sp': ss2,
                          'as_path': rng.random() < 0.4}
            if not zst and st['sfx_sp'].lower() == '.zst':
                st['sfx_sp'] = ''
            prev.append(st)
            steps.append(st)
            if rng.random() < 0.4:
                steps.append(hist_opener_step(rng))
            steps += hist_followups(rng, st)
            if rng.random() < 0.3:
                steps.append(hist_opener_step(rng))
        out.append(mk_hist(steps, 'hist'))
    return out


def oracle_hist(case, out):
    d = case.data
    ex = (case.extra or {}).get('steps')
    if out.startswith('ERR:') or ex is None:
        return f'history could not be run: {out}'
    saved = {}
    for i, (st, r) in enumerate(zip(d['steps'], ex)):
        k = st['k']
        where = f'step {i + 1}/{len(d["steps"])} of a history in one process'
        if k in ('O', 'I'):
            nm = 'ImageOpener' if k == 'I' else 'Opener'
            if not r.get('roundtrip'):
                return f'{where}: {nm}({st["rel"]!r}) does not read back what it wrote'
            if not r.get('plain_ok'):
                return f'{where}: the file {nm}({st["rel"]!r}) wrote does not decompress to the bytes written'
        elif k == 'S':
            saved[st['id']] = st
            rel = posix(step_rel(st))
            tag = f'{where}: {st["cls"]} saved as {rel!r}'
            if not r['obs'].startswith('W='):
                return f'{tag}: save of an accepted name failed: {r["obs"]}'
            want = expected_files(st)
            if r.get('files') != want:
                return f'{tag}: files written {r.get("files")}, expected exactly {want}'
            if not r.get('named_exists'):
                return f'{tag}: the named file does not exist'
            want_codec = {'': 0, '.gz': 1, '.bz2': 2, '.zst': 3}[st['sfx_sp'].lower()] if st['ext'] != '.mgz' else 1
            for f, c in r['codecs'].items():
                if c != want_codec:
                    return f'{tag}: file {f!r} has codec {c}, the name asks for {want_codec}'
            if r.get('plain_eq_bytes', True) is not True:
                return f'{tag}: (decompressed) file content != to_bytes() ({r.get("plain_eq_bytes")})'
        elif k == 'L':
            src = saved.get(st.get('of'))
            if src is None:
                continue
            tag = f'{where}: load of {st["rel"]!r} (image saved by step {st["of"]} as {step_rel(src)!r})'
            ref_cls, ref_dig = reference(src['cls'], src['ext'], src['sfx_sp'].lower())
            if ref_cls.startswith('ERR'):
                continue
            if r['obs'] != ref_cls:
                return f'{tag}: generic load gives {r["obs"]}, a fresh process with the lower-case spelling gives {ref_cls}'
            if r.get('digest') != ref_dig or not r.get('same_data'):
                return f'{tag}: loaded data differ from the data saved'
    return None



# --------------------------------------------------------------------------- write programs on the holder kinds
#
# `to_file_map` of every serialisable class is a sequence of `fileobj.write(b)` and
# `seek_tell(fileobj, off, write0=True)`; the model (`raRun` / `seqRun`) says what ends up on a random-access
# object (BytesIO, plain file) and on a sequential compressed writer (gzip, bz2, zstd).  kind in WKINDS.

WKINDS = {'bytesio': 'ra', 'plain': 'ra', 'gz': 'seq', 'bz2': 'seq', 'zst': 'seq'}
WSUFFIX = {'plain': '.bin', 'gz': '.gz', 'bz2': '.bz2', 'zst': '.zst'}
SERIAL = ['Nifti1Image', 'Nifti2Image', 'Cifti2Image', 'MGHImage', 'GiftiImage']


def mk_wprog(kind, ops, stream='wprog', cls=None, endian=None):
    toks = ' '.join(('w' + (o[1] or '-')) if o[0] == 'w' else f's{o[1]}' for o in ops)
    d = {'op': 'wprog', 'kind': kind, 'ops': [list(o) for o in ops], 'stream': stream, 'cls': cls, 'endian': endian}
    return Case(f'C12 wprog {WKINDS[kind]} {toks}', d, ('wprog', kind, toks), stream)


class _RecBytesIO(io.BytesIO):
    """records the write / seek calls a serialiser makes"""

    def __init__(self):
        super().__init__()
        self.ops = []

    def write(self, b):
        self.ops.append(['w', bytes(b).hex()])
        return super().write(b)

    def seek(self, pos, whence=0):
        self.ops.append(['s', int(pos)] if whence == 0 else ['x', int(pos), int(whence)])
        return super().seek(pos, whence)


def recorded_program(cls, endian=None):
    rec = _RecBytesIO()
    make_image(cls, endian).to_stream(rec)
    return rec.ops


def _wprog_ref(ops):
    """independent reference: the same calls on a plain BytesIO -> (bytes, monotone, complete)"""
    ref, mono = io.BytesIO(), True
    for o in ops:
        if o[0] == 'w':
            ref.write(bytes.fromhex(o[1]))
        else:
            if o[1] < ref.tell():
                mono = False
            ref.seek(o[1])
    return ref.getvalue(), mono, ref.tell() == len(ref.getvalue())


def impl_wprog(case):
    from nibabel.openers import ImageOpener
    from nibabel.volumeutils import seek_tell
    d = case.data
    kind, ops = d['kind'], d['ops']
    if any(o[0] not in ('w', 's') for o in ops):
        return 'ERR:unsupported-seek-whence'
    _, mono, complete = _wprog_ref(ops)
    flags = f'|m{int(mono)}|c{int(complete)}'
    tmp = None
    try:
        if kind == 'bytesio':
            bio = io.BytesIO()
            f = ImageOpener(bio)
        else:
            tmp = tempfile.mkdtemp(prefix='c12w_')
            path = os.path.join(tmp, 'prog' + WSUFFIX[kind])
            f = ImageOpener(path, 'wb')
        try:
            for o in ops:
                if o[0] == 'w':
                    f.write(bytes.fromhex(o[1]))
                else:
                    seek_tell(f, o[1], write0=True)
        except OSError:
            f.close_if_mine()
            return 'ERR' + flags
        f.close_if_mine()
        raw = None if kind == 'bytesio' else open(path, 'rb').read()
        got = bio.getvalue() if kind == 'bytesio' else decompress(raw)
        # (a zstd writer that was given no byte at all leaves an empty file: no frame, nothing to decompress)
        if kind not in ('bytesio', 'plain') and raw and codec_of_bytes(raw) == 0:
            return 'ERR:not-compressed' + flags
        return (got.hex() or '-') + flags
    finally:
        if tmp:
            shutil.rmtree(tmp, ignore_errors=True)


def oracle_wprog(case, out):
    d = case.data
    ref, mono, complete = _wprog_ref([o for o in d['ops'] if o[0] in ('w', 's')])
    tag = f'write program on a {d["kind"]} holder'
    if d.get('cls'):
        tag = f'{d["cls"]}.to_file_map write program' + (f' (header byte order {d["endian"]})' if d.get('endian') else '') + \
            f' replayed on a {d["kind"]} holder'
        if any(o[0] not in ('w', 's') for o in d['ops']) or not (mono and complete):
            return f'{tag}: the serialiser seeks backwards / relative / leaves a dangling seek (monotone={mono}, complete={complete})'
        if ref != make_image(d['cls'], d.get('endian')).to_bytes():
            return f'{tag}: replaying the recorded calls does not reproduce to_bytes()'
    if mono and complete:
        got = out.split('|')[0]
        if got != (ref.hex() or '-'):
            return (f'{tag}: a forward-only program leaves {got[:60]} (after decompression), BytesIO has '
                    f'{(ref.hex() or "-")[:60]}: stream, file and compressed file differ')
    return None


def wprog_cases(rng, tier):
    out = []
    kinds = [k for k in WKINDS if k != 'zst' or have_zstd()]
    # the real serialisers' programs on every holder kind
    for cls in SERIAL:
        for en in (['<', '>'] if cls in ENDIAN_CLASSES else [None]):
            ops = recorded_program(cls, en)
            for k in kinds:
                out.append(mk_wprog(k, ops, 'wprog-class', cls, en))
    fixed = [[['w', '0102'], ['s', 5], ['w', '07']], [['w', '010203'], ['s', 1], ['w', '09']], [['w', '01'], ['s', 3]],
             [['s', 4], ['w', '']], [['s', 4], ['w', 'ff']], [['w', ''], ['s', 0], ['w', 'aa']], [['w', 'aabb'], ['s', 2], ['w', 'cc']],
             [['w', 'aabb'], ['s', 0], ['w', 'cc'], ['s', 2], ['w', 'dd']], [['s', 3], ['s', 1], ['w', 'ee']], [['w', '']]]
    progs = list(fixed)
    for _ in range({'quick': 150, 'thorough': 1500, 'search': 60}[tier]):
        ops, pos = [], 0
        for _ in range(rng.randrange(1, 7)):
            r = rng.random()
            if r < 0.5:
                n = rng.choice([0, 1, 1, 2, 3, 5])
                ops.append(['w', bytes(rng.randrange(256) for _ in range(n)).hex()])
                pos += n
            else:
                q = rng.random()
                tgt = pos + rng.randrange(0, 6) if q < 0.7 else pos if q < 0.8 else rng.randrange(0, pos + 1)
                ops.append(['s', tgt])
                pos = tgt
        progs.append(ops)
    for ops in progs:
        for k in kinds:
            out.append(mk_wprog(k, ops))
    return out



# --------------------------------------------------------------------------- keyword routes (stream `kw`)
#
# Every serialisation route forwards its keyword arguments to the class's `to_file_map` (GIFTI: `enc`, `mode`;
# NIfTI / Analyze / CIFTI-2: `dtype`; MGH: none).  For one image and one keyword set, EVERY route must give the
# same bytes (after decompression) or fail with the same exception class:
#   to_bytes, to_stream(BytesIO), to_stream(open file), to_filename(str), to_filename(Path), nib.save(str),
#   nib.save(Path), to_file_map(explicit map), to_file_map() with img.file_map set, to_file_map(map of BytesIO)
# (multi-file classes: the name-based routes only; observable = member -> bytes).  Oracle-only stream.

KW_GIFTI_DTYPES = ['float32', 'int32', 'uint8', 'float64', 'int64', 'uint16', 'int16', 'int8']
KW_VOL_DTYPES = ['int16', 'uint8', 'float32', 'float64', 'int32']
KW_DTYPE_VALUES = ['int16', 'uint8', 'float32', '>f4', '<i2', 'float64', 'int32', '>i4', 'compat', 'smallest', 'bogus']
KW_MODES = ['strict', 'compat', 'force', 'bogus']
KW_ENCS = ['utf-8', 'UTF-8', 'ascii', 'latin-1', 'utf-16', 'bogus']


def make_kw_image(cls, var, endian=None):
    """image of class `cls` whose data make the keywords matter; `var` = data dtype name (GIFTI: '+'-joined list of
    the data arrays' dtypes, declared with that GIFTI datatype — non-standard ones included)"""
    k = class_by_name(cls)
    if cls == 'GiftiImage':
        from nibabel.gifti import GiftiDataArray
        das = []
        for i, dt in enumerate(var.split('+')):
            arr = ((np.arange(15) + i) % 7).astype(dt).reshape(5, 3)
            das.append(GiftiDataArray(arr, intent='NIFTI_INTENT_POINTSET' if i == 0 else 'NIFTI_INTENT_SHAPE',
                                      datatype=np.dtype(dt).name))
        return k(darrays=das)
    if cls == 'Cifti2Image':
        from nibabel.cifti2 import cifti2_axes as ax
        sc = ax.ScalarAxis(['a', 'b'])
        bm = ax.BrainModelAxis.from_surface([0, 1, 2], 5, name='CortexLeft')
        return k((np.arange(6).reshape(2, 3) * 3 - 4).astype(var), header=(sc, bm))
    data = (np.arange(24).reshape(2, 3, 4) * 5 - 30).astype(var) if np.dtype(var).kind != 'u' else \
        (np.arange(24).reshape(2, 3, 4) * 5).astype(var)
    if cls == 'MGHImage':
        return k(data, AFFINE.copy())
    if endian is not None and cls in ENDIAN_CLASSES:
        hdr = k.header_class(endianness=endian)
        hdr.set_data_dtype(data.dtype)
        return k(data, AFFINE.copy(), header=hdr)
    return k(data, AFFINE.copy())


def kw_vars(cls):
    if cls == 'GiftiImage':
        return KW_GIFTI_DTYPES + ['float32+float64', 'int64+uint8']
    if cls == 'Cifti2Image':
        return ['float32', 'float64', 'int16']
    if cls == 'MGHImage':
        return ['int16', 'uint8', 'float32', 'int32']
    return KW_VOL_DTYPES + (['int64'] if cls.startswith('Nifti') else [])


def mk_kw(cls, var, kw, ext, ext_sp, sfx_sp, endian=None, stream='kw'):
    if cls not in ENDIAN_CLASSES:
        endian = None
    d = {'op': 'kw', 'cls': cls, 'var': var, 'kw': dict(kw), 'ext': ext, 'ext_sp': ext_sp, 'sfx_sp': sfx_sp,
         'endian': endian, 'stream': stream}
    return Case(None, d, ('kw', cls, var, json.dumps(kw, sort_keys=True), ext_sp, sfx_sp, endian), stream)


def _content_id(m):
    """canonical id of a route's result: member (lower-case extension) -> decompressed bytes"""
    h = hashlib.sha1()
    for key in sorted(m):
        h.update(key.encode() + b'\0' + str(len(m[key])).encode() + b'\0' + m[key])
    return 'ok:' + h.hexdigest()[:16]


def _member_key(fname, sfx_sp):
    base = fname[:len(fname) - len(sfx_sp)] if sfx_sp else fname
    return '.' + base.rsplit('.', 1)[-1].lower()


def impl_kw(case):
    import nibabel as nib
    fbi = _nib()[0]
    d = case.data
    cls, var, kw, en = d['cls'], d['var'], d['kw'], d.get('endian')
    k = class_by_name(cls)
    serial = issubclass(k, fbi.SerializableImage) and len(k.files_types) == 1
    key0 = k.files_types[0][0]
    ext0 = _member_key('x' + d['ext_sp'], '') if d['ext'] != '.mgz' else '.mgz'
    ex = case.extra = {'bytes': {}}
    tmp = tempfile.mkdtemp(prefix='c12k_')
    res = {}

    def run(route, fn):
        img = make_kw_image(cls, var, en)
        try:
            m = fn(img)
        except Exception as e:  # noqa: BLE001  (the exception class IS the observable)
            res[route] = 'ERR:' + type(e).__name__
            return
        res[route] = _content_id(m)
        ex['bytes'][route] = m

    def read_dir(sub):
        root = os.path.join(tmp, sub)
        return {_member_key(f, d['sfx_sp']): decompress(open(os.path.join(root, f), 'rb').read()) for f in listing(root)}

    def named(sub):
        os.makedirs(os.path.join(tmp, sub), exist_ok=True)
        return os.path.join(tmp, sub, 'f' + d['ext_sp'] + d['sfx_sp'])

    try:
        if serial:
            run('to_bytes', lambda img: {ext0: img.to_bytes(**kw)})

            def r_stream(img):
                bio = io.BytesIO()
                img.to_stream(bio, **kw)
                return {ext0: bio.getvalue()}
            run('to_stream(BytesIO)', r_stream)

            def r_stream_file(img):
                p = os.path.join(tmp, 'stream.bin')
                with open(p, 'wb') as f:
                    img.to_stream(f, **kw)
                return {ext0: open(p, 'rb').read()}
            run('to_stream(file)', r_stream_file)

            def r_fm_bio(img):
                bio = io.BytesIO()
                img.to_file_map(k.make_file_map({key0: bio}), **kw)
                return {ext0: bio.getvalue()}
            run('to_file_map(BytesIO map)', r_fm_bio)

        def r_to_filename(img, sub='tf', as_path=False):
            p = named(sub)
            img.to_filename(pathlib.Path(p) if as_path else p, **kw)
            return read_dir(sub)
        run('to_filename(str)', r_to_filename)
        run('to_filename(Path)', lambda img: r_to_filename(img, 'tfp', True))

        def r_save(img, sub='sv', as_path=False):
            p = named(sub)
            nib.save(img, pathlib.Path(p) if as_path else p, **kw)
            return read_dir(sub)
        run('nib.save(str)', r_save)
        run('nib.save(Path)', lambda img: r_save(img, 'svp', True))

        def r_fm(img):
            img.to_file_map(k.filespec_to_file_map(named('fm')), **kw)
            return read_dir('fm')
        run('to_file_map(map)', r_fm)

        def r_fm_self(img):
            img.file_map = k.filespec_to_file_map(named('fms'))
            img.to_file_map(**kw)
            return read_dir('fms')
        run('to_file_map() own map', r_fm_self)
        # second call site of the keywords: nib.save's implicit single <-> pair conversion forwards them too
        cross = {'Nifti1Image': ('Nifti1Pair', '.img'), 'Nifti2Image': ('Nifti2Pair', '.hdr'),
                 'Nifti1Pair': ('Nifti1Image', '.nii'), 'Nifti2Pair': ('Nifti2Image', '.nii')}.get(cls)
        if cross:
            ck, cext = class_by_name(cross[0]), sibling_case(d['ext_sp'])(cross[1])

            def r_cross(img, sub, conv):
                os.makedirs(os.path.join(tmp, sub), exist_ok=True)
                p = os.path.join(tmp, sub, 'f' + cext + d['sfx_sp'])
                if conv:
                    ck.from_image(img).to_filename(p, **kw)
                else:
                    nib.save(img, p, **kw)
                return read_dir(sub)
            run('x:nib.save(other member name)', lambda img: r_cross(img, 'xs', False))
            run('x:converted.to_filename', lambda img: r_cross(img, 'xc', True))
        # loading back what the keyworded routes wrote: bytes / stream / file give equivalent images
        back = {}
        if serial and res.get('to_bytes', '').startswith('ok:'):
            b = ex['bytes']['to_bytes'][ext0]
            for nm, fn in [('from_bytes', lambda: k.from_bytes(b)), ('from_stream', lambda: k.from_stream(io.BytesIO(b)))]:
                try:
                    back[nm] = data_digest(fn())
                except Exception as e:  # noqa: BLE001
                    back[nm] = 'ERR:' + type(e).__name__
        if res.get('to_filename(str)', '').startswith('ok:'):
            # (SPM's `.mat` side-car names a file set for save, but no class lists it in valid_exts: no generic load)
            # (an Analyze-family pair reloads as the FIRST family class of load()'s order, whose proxy scales in another
            #  float width: generic load is compared bit-exactly only when it returns the writing class)
            for nm, fn in ([] if d['ext'] == '.mat' else [('load', lambda: nib.load(named('tf')))]) + \
                    [('from_filename', lambda: k.from_filename(named('tf')))]:
                try:
                    got = fn()
                    if nm == 'load' and type(got) is not k and cls in ANALYZE_FAMILY and type(got).__name__ in ANALYZE_FAMILY:
                        continue
                    back[nm] = data_digest(got) if type(got) is k else 'class:' + type(got).__name__
                except Exception as e:  # noqa: BLE001
                    back[nm] = 'ERR:' + type(e).__name__
        ex['back'] = back
        return ';'.join(f'{r}={v}' for r, v in res.items()) + ' back=' + ','.join(f'{a}:{b}' for a, b in back.items())
    finally:
        shutil.rmtree(tmp, ignore_errors=True)


def oracle_kw(case, out):
    d = case.data
    tag = (f'{d["cls"]} ({d["var"]} data' + (f', header byte order {d["endian"]}' if d.get('endian') else '') +
           f') serialised with keywords {d["kw"]} under the name f{d["ext_sp"]}{d["sfx_sp"]}')
    routes = dict(kv.split('=', 1) for kv in out.split(' back=')[0].split(';'))
    for r, v in routes.items():
        first = next(q for q in routes if q.startswith('x:') == r.startswith('x:'))
        if v != routes[first]:
            ex = (case.extra or {}).get('bytes', {})
            detail = ''
            if r in ex and first in ex:
                a, b = ex[first], ex[r]
                detail = f' (members {sorted(a)} vs {sorted(b)}; sizes {[len(x) for x in a.values()]} vs {[len(x) for x in b.values()]})'
            return (f'{tag}: route {first} gives {routes[first]} but route {r} gives {v}{detail}: the routes must '
                    f'write the same bytes or raise the same exception class')
    back = (case.extra or {}).get('back', {})
    if len(set(back.values())) > 1:
        return f'{tag}: loading back what the routes wrote gives different data: {back}'
    return None


def kw_sets(cls, rng, full):
    """keyword sets for class `cls` (every keyword its to_file_map accepts, non-default values, an invalid value,
    and a keyword the class does NOT accept)"""
    if cls == 'GiftiImage':
        sets = [{}] + [{'mode': m} for m in KW_MODES] + [{'enc': e} for e in KW_ENCS] + [{'dtype': 'int16'}]
        pairs = [{'mode': m, 'enc': e} for m in KW_MODES[:3] for e in KW_ENCS[:5]]
        return sets + (pairs if full else rng.sample(pairs, 4))
    if cls == 'MGHImage':
        return [{}, {'dtype': 'int16'}, {'mode': 'compat'}]
    sets = [{}, {'dtype': None}] + [{'dtype': v} for v in KW_DTYPE_VALUES] + [{'mode': 'compat'}]
    return sets


def kw_cases(rng, tier):
    out = []
    full = tier != 'quick'
    for cls in WRITABLE:
        exts = member_exts(cls)
        vs = kw_vars(cls)
        if not full and cls != 'GiftiImage':
            vs = rng.sample(vs, min(3, len(vs)))
        for var in vs:
            sets = kw_sets(cls, rng, full)
            if not full and cls != 'GiftiImage':
                sets = sets[:2] + rng.sample(sets[2:], min(4, len(sets) - 2))
            for kw in sets:
                e = rng.choice(exts)
                es = _pick_spelling(rng, e)
                sfx = [''] if e == '.mgz' else [''] + class_suffixes(cls)
                ss = _pick_spelling(rng, rng.choice(sfx))
                out.append(mk_kw(cls, var, kw, e, es, ss, rng.choice(['<', '>'])))
    return out


# --------------------------------------------------------------------------- stream histories (stream `shist`)
#
# `from_stream` is called on a stream object that has a HISTORY: kind of stream x what was done with the very same
# object before (an earlier from_stream of the same / another class, a peek at the magic bytes, a full read, a seek
# somewhere).  Spec: what the same steps give on an `io.BytesIO` of the decompressed bytes — image (to_bytes of the
# loaded image, or the exception class) and stream position after every step.   Steps:
#   ['F', K]  img = K.from_stream(s); observe s.tell(), sha1(img.to_bytes()), s.tell()
#   ['P', n]  s.read(n); s.seek(0)        peek and rewind
#   ['R', n]  s.read(n)                   read without rewinding
#   ['A']     s.read(); s.seek(0)         full read + rewind
#   ['S', n]  s.seek(n)                   leave the stream somewhere
# Non-seekable kinds only get histories that leave the stream untouched before ONE from_stream (the API reads such
# a stream from where it is).

SKINDS_SEEKABLE = ['bytesio', 'plain', 'raw', 'gz', 'bz2', 'zst', 'opener', 'opener-gz', 'opener-bz2', 'opener-zst']
SKINDS_NONSEEK = ['nonseek', 'buffered-nonseek', 'nonseek-gz']
_SFILES = {}


class _NonSeekable(io.RawIOBase):
    """a pipe / socket / HTTP-response like reader"""

    def __init__(self, f):
        self._f = f

    def readable(self):
        return True

    def seekable(self):
        return False

    def readinto(self, buf):
        x = self._f.read(len(buf))
        buf[:len(x)] = x
        return len(x)


def _sfiles(cls, endian):
    """plain / gz / bz2 / zst files holding the serialisation of the standard image of `cls` (made once per run)"""
    key = (cls, endian)
    if key not in _SFILES:
        if not _SFILES:
            root = tempfile.mkdtemp(prefix='c12s_')
            _SFILES['root'] = root
            atexit.register(shutil.rmtree, root, True)
        root = os.path.join(_SFILES['root'], f'{cls}_{ {"<": "le", ">": "be", None: "x"}[endian] }')
        os.makedirs(root, exist_ok=True)
        b = make_image(cls, endian).to_bytes()
        ext = class_by_name(cls).files_types[0][1]
        paths = {'plain': os.path.join(root, 'img' + ext)}
        open(paths['plain'], 'wb').write(b)
        with gzip.open(os.path.join(root, 'img' + ext + '.gz'), 'wb') as f:
            f.write(b)
        with bz2.open(os.path.join(root, 'img' + ext + '.bz2'), 'wb') as f:
            f.write(b)
        paths['gz'], paths['bz2'] = os.path.join(root, 'img' + ext + '.gz'), os.path.join(root, 'img' + ext + '.bz2')
        if have_zstd():
            import pyzstd
            paths['zst'] = os.path.join(root, 'img' + ext + '.zst')
            with pyzstd.ZstdFile(paths['zst'], 'wb') as f:
                f.write(b)
        _SFILES[key] = (b, paths)
    return _SFILES[key]


def _open_stream(kind, b, paths):
    """-> (stream handed to from_stream, objects to close)"""
    from nibabel.openers import ImageOpener
    if kind == 'bytesio':
        s = io.BytesIO(b)
        return s, [s]
    if kind == 'plain':
        s = open(paths['plain'], 'rb')
        return s, [s]
    if kind == 'raw':
        s = open(paths['plain'], 'rb', buffering=0)
        return s, [s]
    if kind == 'gz':
        s = gzip.open(paths['gz'], 'rb')
        return s, [s]
    if kind == 'bz2':
        s = bz2.open(paths['bz2'], 'rb')
        return s, [s]
    if kind == 'zst':
        from nibabel._compression import pyzstd
        s = pyzstd.ZstdFile(paths['zst'], 'rb')
        return s, [s]
    if kind.startswith('opener'):
        # the stream object nibabel's own opener hands out for such a name
        o = ImageOpener(paths[kind.split('-')[1] if '-' in kind else 'plain'], 'rb')
        return o.fobj, [o]
    if kind == 'nonseek':
        s = _NonSeekable(io.BytesIO(b))
        return s, [s]
    if kind == 'buffered-nonseek':
        s = io.BufferedReader(_NonSeekable(io.BytesIO(b)))
        return s, [s]
    if kind == 'nonseek-gz':
        g = gzip.open(paths['gz'], 'rb')
        s = _NonSeekable(g)
        return s, [s, g]
    raise ValueError(kind)


def mk_shist(cls, endian, kind, steps, stream='shist'):
    if cls not in ENDIAN_CLASSES:
        endian = None
    d = {'op': 'shist', 'cls': cls, 'endian': endian, 'kind': kind, 'steps': [list(s) for s in steps], 'stream': stream}
    return Case(None, d, ('shist', cls, endian, kind, json.dumps(d['steps'])), stream)


def _run_stream_steps(kind, b, paths, steps, with_pos=True):
    """observable of every step.  A from_stream that FAILS (another class's bytes) is recorded as `ERR` only: which
    exception a header parser raises on foreign bytes, and where it leaves the stream, depends on what the garbage
    asks it to seek to (an absurd footer offset is an OSError on a real file, a HeaderDataError on a BytesIO); until
    the next absolute positioning the position is not compared (`tainted`).  The position after the DATA of a loaded
    image were read is not compared either (a plain file is memory-mapped, a BytesIO is read)."""
    s, closers = _open_stream(kind, b, paths)
    tainted = [False]

    def pos():
        if not with_pos or tainted[0]:
            return '-'
        try:
            return str(s.tell())
        except Exception as e:  # noqa: BLE001
            return 'ERR:' + type(e).__name__
    obs = []
    try:
        for st in steps:
            try:
                if st[0] == 'F':
                    try:
                        img = class_by_name(st[1]).from_stream(s)
                    except Exception:  # noqa: BLE001
                        tainted[0] = True
                        obs.append(f'F:{st[1]}:ERR@-')
                        continue
                    tainted[0] = False
                    p1 = pos()
                    try:
                        h = hashlib.sha1(img.to_bytes()).hexdigest()[:16]
                    except Exception as e:  # noqa: BLE001
                        h = 'ERR-data:' + type(e).__name__
                    obs.append(f'F:{st[1]}:{h}@{p1}')
                    tainted[0] = True           # (position after the data access: memory map vs read)
                elif st[0] == 'P':
                    n = len(s.read(st[1]))
                    s.seek(0)
                    obs.append(('P?' if tainted[0] else f'P{n}') + '@' + ('0' if with_pos and s.tell() == 0 else pos()))
                    tainted[0] = False
                elif st[0] == 'R':
                    n = len(s.read(st[1]))
                    obs.append('R?' if tainted[0] else f'R{n}@{pos()}')
                elif st[0] == 'A':
                    n = len(s.read())
                    s.seek(0)
                    obs.append(('A?' if tainted[0] else f'A{n}') + '@' + ('0' if with_pos and s.tell() == 0 else pos()))
                    tainted[0] = False
                elif st[0] == 'S':
                    s.seek(st[1] % (len(b) + 1))       # (seeking past the end: clamped by decompressors, allowed by files)
                    tainted[0] = False
                    obs.append(f'S@{pos()}')
                else:
                    raise ValueError(st)
            except ValueError:
                raise
            except Exception as e:  # noqa: BLE001
                obs.append(f'{st[0]}:ERR:{type(e).__name__}')
    finally:
        for c in closers:
            try:
                c.close()
            except Exception:  # noqa: BLE001
                pass
    return ';'.join(obs)


class _Quiet:
    """no log lines from header checks while foreign bytes are offered to a class"""

    def __enter__(self):
        import logging
        self.logger = logging.getLogger('nibabel.global')
        self.level = self.logger.level
        self.logger.setLevel(logging.CRITICAL)

    def __exit__(self, *a):
        self.logger.setLevel(self.level)


def impl_shist(case):
    with _Quiet():
        return _impl_shist(case)


def _impl_shist(case):
    d = case.data
    b, paths = _sfiles(d['cls'], d.get('endian'))
    with_pos = d['kind'] in SKINDS_SEEKABLE
    ex = case.extra = {}
    ex['ref'] = _run_stream_steps('bytesio', b, paths, d['steps'], with_pos)
    ex['plain_sha'] = hashlib.sha1(b).hexdigest()[:16]
    fresh = {}
    for st in d['steps']:
        if st[0] == 'F' and st[1] not in fresh:
            try:
                fresh[st[1]] = hashlib.sha1(class_by_name(st[1]).from_bytes(b).to_bytes()).hexdigest()[:16]
            except Exception:  # noqa: BLE001
                fresh[st[1]] = 'ERR'
    ex['fresh'] = fresh
    return _run_stream_steps(d['kind'], b, paths, d['steps'], with_pos)


def oracle_shist(case, out):
    d = case.data
    ex = case.extra or {}
    tag = (f'{d["cls"]}' + (f' (header byte order {d["endian"]})' if d.get('endian') else '') +
           f' serialised, then steps {d["steps"]} on ONE {d["kind"]} stream of those bytes')
    got, ref = out.split(';'), ex.get('ref', '').split(';')
    for i, (g, r) in enumerate(zip(got, ref)):
        if g != r:
            return (f'{tag}: step {i + 1} {d["steps"][i]} gives {g}, the same steps on a BytesIO of the (decompressed) '
                    f'bytes give {r}: loading from a stream differs from loading from bytes')
    if len(got) != len(ref):
        return f'{tag}: {len(got)} step results, reference has {len(ref)}'
    for st, g in zip(d['steps'], got):
        if st[0] != 'F':
            continue
        res = g.split('@')[0].split(':', 2)[2]
        fr = ex['fresh'].get(st[1])
        if res != fr:
            return f'{tag}: {st[1]}.from_stream gives {res}, {st[1]}.from_bytes of the same bytes gives {fr}'
        if st[1] == d['cls'] and res != ex['plain_sha']:
            return f'{tag}: the image loaded by the writing class re-serialises to {res}, not to the bytes written ({ex["plain_sha"]})'
    return None


SHIST_OTHER = {'Nifti1Image': ['Nifti2Image', 'MGHImage'], 'Nifti2Image': ['Nifti1Image', 'Cifti2Image'],
               'Cifti2Image': ['Nifti1Image', 'GiftiImage'], 'MGHImage': ['Nifti1Image', 'GiftiImage'],
               'GiftiImage': ['MGHImage', 'Nifti2Image']}


def shist_templates(cls, rng):
    o1, o2 = SHIST_OTHER[cls]
    return [[['F', cls]],
            [['F', cls], ['F', cls]],                          # a second from_stream on the same stream
            [['F', o1], ['F', cls]],                           # try class A, then class B
            [['F', o1], ['F', o2], ['F', cls]],
            [['P', 4], ['F', cls]],                            # peek at the magic, rewind
            [['P', 348], ['F', cls], ['P', 2], ['F', cls]],
            [['R', 4], ['F', cls]],                            # peek without rewinding
            [['A'], ['F', cls]],                               # full read + rewind
            [['S', rng.choice([1, 7, 100, 352, 400])], ['F', cls], ['F', cls]],
            [['F', cls], ['A'], ['F', o1], ['F', cls]],
            [['R', 100000], ['F', cls]]]                       # stream left at EOF


def shist_cases(rng, tier):
    out = []
    seek_kinds = [k for k in SKINDS_SEEKABLE if have_zstd() or 'zst' not in k]
    imgs = [(c, en) for c in SERIAL for en in (['<', '>'] if c in ENDIAN_CLASSES else [None])]
    for cls, en in imgs:
        tpl = shist_templates(cls, rng)
        for kind in seek_kinds:
            chosen = tpl if tier != 'quick' else tpl[:5] + rng.sample(tpl[5:], 2)
            for steps in chosen:
                out.append(mk_shist(cls, en, kind, steps))
        for kind in SKINDS_NONSEEK:
            out.append(mk_shist(cls, en, kind, [['F', cls]]))
            out.append(mk_shist(cls, en, kind, [['R', 0], ['F', cls]]))
            out.append(mk_shist(cls, en, kind, [['F', SHIST_OTHER[cls][0]]]))
    n = {'quick': 60, 'thorough': 1500, 'search': 60}[tier]
    for _ in range(n):
        cls, en = rng.choice(imgs)
        kind = rng.choice(seek_kinds)
        steps = []
        for _ in range(rng.randrange(1, 6)):
            r = rng.random()
            if r < 0.5:
                steps.append(['F', cls if rng.random() < 0.6 else rng.choice(SERIAL)])
            elif r < 0.65:
                steps.append(['P', rng.choice([1, 2, 4, 8, 348, 352, 540, 5000])])
            elif r < 0.8:
                steps.append(['R', rng.choice([0, 1, 4, 344, 348, 1000, 100000])])
            elif r < 0.9:
                steps.append(['A'])
            else:
                steps.append(['S', rng.choice([0, 1, 4, 100, 352, 544, 2000])])
        if not any(s[0] == 'F' for s in steps):
            steps.append(['F', cls])
        out.append(mk_shist(cls, en, kind, steps))
    return out


# --------------------------------------------------------------------------- stage T streams: `gen`, `pyop`
#
# `gen`: the functions of filename_parser.py TRANSLATED from the working tree (Generated/C12Funcs.lean, run by the
# native driver) against the real functions on the same arguments.  `pyop`: every string operator of
# Basic/PyStrC12.lean against CPython.  Values on the wire: see Driver/C12.lean (stage T).

def tv(v):
    if v is None:
        return 'N'
    if isinstance(v, bool):
        return 'b1' if v else 'b0'
    if isinstance(v, int):
        return f'i{v}'
    if isinstance(v, str):
        return 'u' + ','.join(str(ord(c)) for c in v)
    raise ValueError(v)


def tv_list(items):
    return 'L' + ';'.join(tv(x) for x in items)


def tv_pairs(pairs):
    return 'L' + ';'.join('P' + tv(a) + '&' + tv(b) for a, b in pairs)


def show_val(v):
    if v is None or isinstance(v, (bool, int, str)):
        return tv(v)
    if isinstance(v, (tuple, list)):
        return '(' + ';'.join(show_val(x) for x in v) + ')'
    if isinstance(v, dict):
        return '{(' + ';'.join(f'({show_val(k)};{show_val(x)})' for k, x in v.items()) + ')}'
    raise ValueError(v)


GEN_ARGKINDS = {'_endswith': 'ss', '_iendswith': 'ss', 'splitext_addext': 'slb', 'parse_filename': 'splb',
                'types_filenames': 'splbb'}


def _tv_kind(kind, v):
    return {'s': tv, 'b': lambda x: tv(bool(x)), 'l': tv_list, 'p': tv_pairs}[kind](v)


def mk_gen(fn, args):
    args = [list(map(list, a)) if k == 'p' else (list(a) if k == 'l' else a) for k, a in zip(GEN_ARGKINDS[fn], args)]
    toks = [_tv_kind(k, a) for k, a in zip(GEN_ARGKINDS[fn], args)]
    return Case(f'C12 gen {fn} ' + ' '.join(toks), {'op': 'gen', 'fn': fn, 'args': args}, ('gen', fn, tuple(toks)), 'gen')


def impl_gen(d):
    fp = _nib()[1]
    args = [tuple(tuple(x) for x in a) if k == 'p' else (tuple(a) if k == 'l' else (bool(a) if k == 'b' else a))
            for k, a in zip(GEN_ARGKINDS[d['fn']], d['args'])]
    try:
        return show_val(getattr(fp, d['fn'])(*args))
    except fp.TypesFilenamesError:
        return 'ERR:ValueError'
    except (TypeError, AttributeError):
        return 'ERR:TypeError'
    except IndexError:
        return 'ERR:IndexError'


PYOPS1 = {'lower': lambda s: s.lower(), 'upper': lambda s: s.upper(), 'len': len,
          'splitext': lambda s: __import__('posixpath').splitext(s), 'isstr': lambda s: isinstance(s, str),
          'truthy': bool}
PYOPS2 = {'endswith': lambda a, b: a.endswith(b), 'rfind': lambda a, b: a.rfind(b), 'strip': lambda a, b: a.strip(b),
          'removesuffix': lambda a, b: a.removesuffix(b), 'add': lambda a, b: a + b, 'slicefrom': lambda a, k: a[k:],
          'sliceto': lambda a, k: a[:k], 'eq': lambda a, b: a == b,
          'callstr1': lambda f, x: {'fn:identity': lambda s: s, 'fn:str.upper': str.upper, 'fn:str.lower': str.lower}[f](x)}


def mk_pyop(op, args):
    return Case(f'C12 pyop {op} ' + ' '.join(tv(a) for a in args), {'op': 'pyop', 'fn': op, 'args': list(args)},
                ('pyop', op, tuple(args)), 'pyop')


def _ascii_cased(*strs):
    return all(ord(c) < 128 or c.lower() == c.upper() for x in strs for c in x)


def _ref_iends(whole, end, match_case):
    """independent statement of the suffix test: the last len(end) characters, compared letter by letter"""
    if len(end) > len(whole):
        return False
    tail = whole[len(whole) - len(end):]
    if match_case:
        return tail == end
    return all(a == b or (a.isalpha() and b.isalpha() and a.swapcase() == b) for a, b in zip(tail, end))


def _ref_splitext_addext(name, addexts, match_case):
    """reference written from the docstring: strip the FIRST listed suffix the name ends with, then split the rest at
    its last dot (no split when there is no dot or the rest consists of dots only)"""
    addext = ''
    for a in addexts:
        if _ref_iends(name, a, match_case):
            cut = len(name) - len(a)
            name, addext = name[:cut], name[cut:]
            break
    dots = [i for i, c in enumerate(name) if c == '.']
    if not dots or all(c == '.' for c in name):
        return (name, '', addext)
    return (name[:dots[-1]], name[dots[-1]:], addext)


def oracle_gen(d, out):
    """the gen stream compares translated code with the real code (both move together when the source changes); this
    reference pins what `_endswith`, `_iendswith`, `splitext_addext` must compute (ASCII-cased arguments)"""
    fn, a = d['fn'], d['args']
    strs = [x for x in a if isinstance(x, str)] + [y for x in a if isinstance(x, list) for y in x if isinstance(y, str)]
    if not _ascii_cased(*strs):
        return None
    if fn in ('_endswith', '_iendswith'):
        want = show_val(_ref_iends(a[0], a[1], fn == '_endswith'))
    elif fn == 'splitext_addext':
        if '' in a[1]:
            return None      # (an EMPTY suffix: `filename[:-0]` is '' in the real code — modelled, not specified)
        want = show_val(_ref_splitext_addext(a[0], a[1], bool(a[2])))
    else:
        return None
    if out != want:
        return (f'filename_parser.{fn}{tuple(a)!r} returns {out}, the reference (suffix test letter by letter / split at '
                f'the last dot after removing the first matching suffix) gives {want}')
    return None


def impl_pyop(d):
    f = PYOPS1[d['fn']] if len(d['args']) == 1 else PYOPS2[d['fn']]
    try:
        return show_val(f(*d['args']))
    except (TypeError, AttributeError, KeyError):
        return 'ERR:TypeError'


PYOP_STRINGS = ['', '.', '..', 'f', 'f.nii', 'F.NII.GZ', 'f.Nii.gz', 'a/b.c', 'a.b/c', 'a.b/.c', 'a/.hidden', '.hidden', '..x',
                'x.', 'x..', '/', 'a/', 'a//b.c.d', 'AbC.xYz', 'Z@[`az{', 'データ.NII', '数.データ', ' f .n ii ', 'f.tar.gz',
                '.gz', 'GZ', '.', 'a.b.c.d', 'd.nii/f', './f', '...', 'a/...', 'a/..b']
GEN_TABLES = [(('t1', 'ext1'), ('t2', 'ext2')), (('t1', '.ext1'), ('t2', '.ext2')),
              (('image', '.img'), ('header', '.hdr'), ('mat', '.mat')), (('a', None), ('b', '.x')),
              (('a', ''), ('b', '.B')), (('a', '.x'), ('a', '.y')), (('only', '.GII'),), ()]
GEN_SUFFIXES = [(), ('.gz', '.bz2'), ('.GZ',), ('',), ('.gz', '.bz2', '.zst'), ('z', '.gz')]


def stage_t_cases(rng, tier):
    out = []
    # ---- pyop
    ss = PYOP_STRINGS
    for s in ss:
        for op in ('lower', 'upper', 'len', 'splitext', 'isstr', 'truthy'):
            out.append(mk_pyop(op, [s]))
        for c in ('.', '/', 'x'):
            out.append(mk_pyop('rfind', [s, c]))
            out.append(mk_pyop('strip', [s, c]))
        for k in range(-7, 8):
            out.append(mk_pyop('slicefrom', [s, k]))
            out.append(mk_pyop('sliceto', [s, k]))
        for f in ('fn:identity', 'fn:str.upper', 'fn:str.lower', 'fn:other'):
            out.append(mk_pyop('callstr1', [f, s]))
        for e in ['', '.', '.gz', '.GZ', 'nii', '.NII', 'x.', '..', s, s[1:], s[-2:]]:
            out.append(mk_pyop('endswith', [s, e]))
            out.append(mk_pyop('removesuffix', [s, e]))
            out.append(mk_pyop('add', [s, e]))
            out.append(mk_pyop('eq', [s, e]))
    for v in (None, True, False, 0, 3):
        out.append(mk_pyop('isstr', [v]))
        out.append(mk_pyop('truthy', [v]))
    # ---- gen
    table = table_facts()
    rows = [(tuple(map(tuple, r['files_types'])), tuple(r['suffixes'])) for r in table['rows']]
    rows = list(dict.fromkeys(rows))
    names = [n for n in MALFORMED + PYOP_STRINGS if stable(n)]
    names += [rand_name(rng) for _ in range({'quick': 80, 'thorough': 3000, 'search': 300}[tier])]
    for cls in [r['name'] for r in table['rows'] if r['kind'] != 2]:
        acc = list(accepted_names(cls, rng, 2))
        for e, es, ss_ in (acc if tier != 'quick' else rng.sample(acc, min(len(acc), 12))):
            dp, st = rng.choice(SHAPES)
            names.append((dp + '/' if dp else '') + st + es + ss_)
    for nm in names:
        nm = posix(nm)
        tabs = rng.sample(rows, 2 if tier != 'quick' else 1) + [(rng.choice(GEN_TABLES), rng.choice(GEN_SUFFIXES))]
        for T, S in tabs:
            for mc in (False, True):
                out.append(mk_gen('splitext_addext', [nm, S, mc]))
                out.append(mk_gen('parse_filename', [nm, T, S, mc]))
                for enforce in (False, True):
                    out.append(mk_gen('types_filenames', [nm, T, S, enforce, mc]))
            for e in list(S) + [x for _, x in T if x is not None]:
                out.append(mk_gen('_endswith', [nm, e]))
                out.append(mk_gen('_iendswith', [nm, e]))
    return out


# --------------------------------------------------------------------------- byte order of the file on disk (stream `bo`)
#
# For every class that `nib.load` picks by sniffing the header, a VALID file of that class in EITHER byte order of its
# binary container (as tools on other hosts write it) must come back from generic load as the same class, with the same
# data, as from the class's own loader and from from_bytes / from_stream.  Oracle-only stream.

BO_CLASSES = ['Nifti1Pair', 'Nifti1Image', 'Nifti2Pair', 'Nifti2Image', 'Cifti2Image', 'Spm2AnalyzeImage',
              'Spm99AnalyzeImage', 'AnalyzeImage', 'MGHImage']


def mk_bo(cls, endian, ext, ext_sp, sfx_sp, stem='f', stream='bo'):
    d = {'op': 'bo', 'cls': cls, 'endian': endian, 'ext': ext, 'ext_sp': ext_sp, 'sfx_sp': sfx_sp, 'stem': stem,
         'stream': stream}
    return Case(None, d, ('bo', cls, endian, ext_sp, sfx_sp, stem), stream)


def _bo_payload(cls, endian):
    """bytes of a single-file image of `cls` whose container is in byte order `endian`"""
    if cls == 'Cifti2Image':
        from nibabel.nifti2 import Nifti2Image
        b = make_image(cls).to_bytes()
        n2 = Nifti2Image.from_bytes(b)
        have = n2.header.endianness
        if endian in (None, have):
            return b
        # the same CIFTI-2 file with its NIfTI-2 container (header + extension record + data) in the other byte order
        return Nifti2Image(np.asarray(n2.dataobj), None, n2.header.as_byteswapped(endian)).to_bytes()
    return make_image(cls, endian).to_bytes()


def impl_bo(case):
    import nibabel as nib
    from nibabel.openers import ImageOpener
    fbi = _nib()[0]
    d = case.data
    cls, en = d['cls'], d['endian']
    k = class_by_name(cls)
    ex = case.extra = {}
    tmp = tempfile.mkdtemp(prefix='c12o_')
    try:
        fn = os.path.join(tmp, d['stem'] + d['ext_sp'] + d['sfx_sp'])
        single = len(k.files_types) == 1
        if single:
            payload = _bo_payload(cls, en)
            with ImageOpener(fn, 'wb') as f:
                f.write(payload)
            ex['order'] = {b'\x5c\x01\x00\x00': '<', b'\x00\x00\x01\x5c': '>', b'\x1c\x02\x00\x00': '<',
                           b'\x00\x00\x02\x1c': '>'}.get(payload[:4], 'n/a')
        else:
            make_image(cls, en).to_filename(fn)
            payload = None

        def obs(f):
            try:
                im = f()
                return type(im).__name__ + ':' + data_digest(im)
            except Exception as e:  # noqa: BLE001
                return 'ERR:' + type(e).__name__
        res = {'load': obs(lambda: nib.load(fn)), 'load(Path)': obs(lambda: nib.load(pathlib.Path(fn))),
               'from_filename': obs(lambda: k.from_filename(fn))}
        if single and issubclass(k, fbi.SerializableImage):
            res['from_bytes'] = obs(lambda: k.from_bytes(payload))
            res['from_stream'] = obs(lambda: k.from_stream(io.BytesIO(payload)))
            res['from_stream(file)'] = obs(lambda: k.from_stream(open(fn, 'rb')) if not d['sfx_sp'] and d['ext'] != '.mgz' else k.from_bytes(payload))
        return ';'.join(f'{a}={b}' for a, b in res.items())
    finally:
        shutil.rmtree(tmp, ignore_errors=True)


def oracle_bo(case, out):
    d = case.data
    cls = d['cls']
    tag = (f'a valid {cls} file whose binary container is in byte order {d["endian"] or "(class default)"} '
           f'stored as {d["stem"]}{d["ext_sp"]}{d["sfx_sp"]}')
    res = dict(kv.split('=', 1) for kv in out.split(';'))
    ref = res['from_filename']
    if ref.startswith('ERR') or ref.split(':')[0] != cls:
        return f'{tag}: {cls}.from_filename gives {ref}'
    for r, v in res.items():
        if v == ref:
            continue
        if r.startswith('load') and cls in ANALYZE_FAMILY and v.split(':')[0] in ANALYZE_FAMILY and \
                v.split(':')[1:] == ref.split(':')[1:]:
            continue     # (an Analyze-family pair reloads as the first family class of load()'s order)
        return (f'{tag}: {r} gives {v}, {cls}.from_filename gives {ref}: generic load / bytes / stream must return the '
                f'same class and data as the class loader')
    return None


def bo_cases(rng, tier):
    out = []
    for cls in BO_CLASSES:
        ends = ['<', '>'] if (cls in ENDIAN_CLASSES or cls == 'Cifti2Image') else [None]
        for en in ends:
            exts = [e for e in member_exts(cls) if e != '.mat']
            for e in exts:
                sp = spellings(e)
                sfx = [''] if e == '.mgz' else [''] + class_suffixes(cls)
                picks = [(sp[0], ''), (sp[1], rng.choice(sfx).upper()), (rng.choice(sp), _pick_spelling(rng, rng.choice(sfx)))]
                if tier != 'quick':
                    picks += [(x, _pick_spelling(rng, z)) for x in sp for z in sfx]
                for es, ss in dict.fromkeys(picks):
                    stem = rng.choice(['f', 'x y.dscalar' if cls == 'Cifti2Image' else 'sub-01.v2', 'X.GZ'])
                    out.append(mk_bo(cls, en, e, es, ss, stem))
    return out

# --------------------------------------------------------------------------- implementation side

def show_map(m):
    return '|'.join(f'{enc(k)}={enc(v)}' for k, v in m.items())


def _none(x):
    return '!none' if x is None else enc(x)


def impl(case):
    d = case.data
    fbi, fp, ic, ls, op = _nib()
    o = d['op']
    if o == 'fm':
        k = class_by_name(d['cls'])
        try:
            fm = k.filespec_to_file_map(d['name'])
        except fbi.ImageFileError:
            return 'ERR'
        return 'ok ' + show_map({key: fh.filename for key, fh in fm.items()})
    if o in ('tf', 'tforig'):
        k = class_by_name(d['cls'])
        enforce, mc = (d['flags'] + [1, 0])[:2] if d.get('flags') else (1, 0)
        try:
            m = fp.types_filenames(d['name'], k.files_types, trailing_suffixes=k._compressed_suffixes,
                                   enforce_extensions=bool(enforce), match_case=bool(mc))
        except fp.TypesFilenamesError:
            return 'ERR'
        return 'ok ' + show_map(m)
    if o == 'parse':
        k = class_by_name(d['cls'])
        r = fp.parse_filename(d['name'], k.files_types, k._compressed_suffixes, bool(d['flags'][0]))
        return f'{enc(r[0])}|{enc(r[1])}|{_none(r[2])}|{_none(r[3])}'
    if o == 'sae':
        if d['cls'] == '*':
            r = fp.splitext_addext(d['name'], match_case=bool(d['flags'][0]))
        else:
            r = fp.splitext_addext(d['name'], class_by_name(d['cls'])._compressed_suffixes, bool(d['flags'][0]))
        return '|'.join(enc(x) for x in r)
    if o == 'codec':
        opener = op.ImageOpener.__new__(op.ImageOpener)
        df = opener._get_opener_argnames(d['name'])
        for n, cid in CODEC_IDS.items():
            if getattr(op.Opener, n) is df:
                return str(cid)
        return '0' if df is op.Opener.compress_ext_map[None] else 'ERR:unknown-opener'
    if o == 'ext':
        acc = []
        for k in ic.all_image_classes:
            # the extension test of the real `path_maybe_image`, with header sniffing switched off
            probe = type('Probe' + k.__name__, (k,), {'header_class': object})
            if probe.path_maybe_image(d['name'])[0]:
                acc.append(k.__name__)
        return ','.join(acc)
    if o == 'save':
        return impl_save(case)
    if o == 'hist':
        return impl_hist(case)
    if o == 'wprog':
        return impl_wprog(case)
    if o == 'gen':
        return impl_gen(d)
    if o == 'pyop':
        return impl_pyop(d)
    if o == 'bo':
        return impl_bo(case)
    if o == 'kw':
        return impl_kw(case)
    if o == 'shist':
        return impl_shist(case)
    raise ValueError(o)


def rel_of(d):
    return (d['dir'] + '/' if d['dir'] else '') + d['stem'] + d['ext_sp'] + d['sfx_sp']


def load_obs(path):
    """(observable, digest): class name when generic load and reading the data work; NOFILE when the name or
    a member file the class needs does not exist; ERR for ImageFileError"""
    import nibabel as nib
    fbi = _nib()[0]
    if not os.path.exists(path):
        return 'NOFILE', None
    try:
        img = nib.load(path)
    except fbi.ImageFileError:
        return 'ERR', None
    try:
        return type(img).__name__, data_digest(img)
    except Exception as e:  # noqa: BLE001
        if isinstance(e, OSError) or 'DoesNotExist' in type(e).__name__:
            return 'NOFILE', None
        raise


def impl_save(case):
    import nibabel as nib
    d = case.data
    fbi = _nib()[0]
    rel = rel_of(d)
    ex = case.extra = {}
    tmp = tempfile.mkdtemp(prefix='c12_')
    try:
        full = os.path.join(tmp, rel)
        os.makedirs(os.path.dirname(full), exist_ok=True)
        given = pathlib.Path(full) if d['as_path'] else full
        en = d.get('endian')
        img = make_image(d['cls'], en)
        with _SpyToFilename() as spy:
            try:
                nib.save(img, given)
            except fbi.ImageFileError:
                ex['listing'] = listing(tmp)
                return 'ERR'
        files = listing(tmp)
        ex['listing'] = files
        ex['named_exists'] = os.path.isfile(posix(full))
        raw = {f: open(os.path.join(tmp, f), 'rb').read() for f in files}
        ex['raw'] = raw
        wrote = spy.seen[-1]
        fs = '|'.join(f'{enc(f)}:{codec_of_bytes(raw[f])}' for f in files)
        lo = {f: load_obs(os.path.join(tmp, f)) for f in files}
        loads = [lo[f][0] for f in files]
        ld, ex['load_digest'] = load_obs(posix(full))
        if d['as_path'] and ld not in ('ERR', 'NOFILE'):
            ld = type(nib.load(given)).__name__
        ex['load_same_data'] = ld not in ('ERR', 'NOFILE') and same_data(nib.load(given), make_image(d['cls']))
        # class-level load of the same name by the class that wrote it
        try:
            cimg = class_by_name(spy.seen[-1]).from_filename(given)
            ex['class_load'] = (type(cimg).__name__, data_digest(cimg))
        except Exception as e:  # noqa: BLE001
            ex['class_load'] = ('ERR:' + type(e).__name__, None)
        ex['sib'] = {f: lo[f] for f in files if lo[f][0] not in ('ERR', 'NOFILE')}
        wimg = spy_image_class = class_by_name(wrote)
        if issubclass(wimg, fbi.SerializableImage):
            try:
                img2 = make_image(d['cls'], en)
                if wrote != d['cls']:
                    img2 = wimg.from_image(img2)
                b = img2.to_bytes()
                ser = 'ok'
                ex['to_bytes'] = b
                bio = io.BytesIO()
                img2.to_stream(bio)
                ex['to_stream'] = bio.getvalue()
                if len(files) == 1:
                    ex['file_plain'] = decompress(raw[files[0]])
                    fb, fst = wimg.from_bytes(b), wimg.from_stream(io.BytesIO(b))
                    ex['routes_data'] = (data_digest(fb), data_digest(fst), ex.get('load_digest'))
                    ex['routes_hdr'] = (fb.to_bytes() == b, fst.to_bytes() == b,
                                        ld not in ('ERR', 'NOFILE') and wimg.from_filename(given).to_bytes() == b)
            except NotImplementedError:
                ser = 'ERR'
        else:
            ser = 'none'
        # a second save of an equal image must give byte-identical files
        tmp2 = tempfile.mkdtemp(prefix='c12b_')
        try:
            full2 = os.path.join(tmp2, rel)
            os.makedirs(os.path.dirname(full2), exist_ok=True)
            nib.save(make_image(d['cls'], en), full2)
            ex['second_equal'] = {f: open(os.path.join(tmp2, f), 'rb').read() for f in listing(tmp2)} == raw
        finally:
            shutil.rmtree(tmp2, ignore_errors=True)
        return f'ok cls={wrote} files={fs} load={ld} loads={",".join(loads)} ser={ser}'
    finally:
        shutil.rmtree(tmp, ignore_errors=True)


# --------------------------------------------------------------------------- oracle

# a plain/SPM99 Analyze pair reloads as the first Analyze-family class of load()'s order (fix author's
# observation; the header cannot tell them apart)
ANALYZE_FAMILY = ('AnalyzeImage', 'Spm99AnalyzeImage', 'Spm2AnalyzeImage')


def sibling_case(ext_sp):
    return str.upper if ext_sp == ext_sp.upper() else str.lower


def all_dots_basename(stem_path):
    base = stem_path.rsplit('/', 1)[-1]
    return base.strip('.') == ''


_REF = {}


def reference(cls, ext, sfx_lower):
    """class and data digest that generic load returns for the all-lower-case spelling"""
    import nibabel as nib
    key = (cls, ext, sfx_lower)
    if key not in _REF:
        with tempfile.TemporaryDirectory() as tmp:
            p = os.path.join(tmp, 'ref' + ext + sfx_lower)
            try:
                nib.save(make_image(cls), p)
                l = nib.load(p)
                _REF[key] = (type(l).__name__, data_digest(l))
            except Exception as e:  # noqa: BLE001  (same failure expected for every spelling)
                _REF[key] = ('ERR:' + type(e).__name__, None)
    return _REF[key]


def oracle_fm(d, out):
    meta = d.get('meta')
    if not meta:
        return None
    e, es, ss, stem = meta
    k = class_by_name(d['cls'])
    if all_dots_basename(posix(stem) if stem else ''):
        return None
    name = posix(d['name'])
    if not out.startswith('ok '):
        return f'{d["cls"]}.filespec_to_file_map rejects the accepted name {name!r}: {out}'
    got = dict(kv.split('=', 1) for kv in out[3:].split('|'))
    got = {urllib.parse.unquote(a): urllib.parse.unquote(b) for a, b in got.items()}
    stem_p = name[:len(name) - len(es) - len(ss)]
    if e == '.mgz':
        want = {'image': name}
    else:
        sc = sibling_case(es)
        want = {key: stem_p + (es if me == e else sc(me)) + ss for key, me in k.files_types}
    if got != want:
        return (f'{d["cls"]}.filespec_to_file_map({name!r}) = {got}; the named member must map to exactly the given '
                f'name and siblings differ only in the extension: expected {want}')
    return None


def generic_vs_class_load(tag, out, ex):
    """generic `load(name)` and `WritingClass.from_filename(name)` must agree (class up to the Analyze family, data)"""
    cl = ex.get('class_load')
    if not cl or not out.startswith('ok ') or cl[0].startswith('ERR'):
        return None
    got = out.split(' load=')[1].split(' ')[0]
    if got in ('ERR', 'NOFILE'):
        return f'{tag}: generic load fails ({got}) on a file that {cl[0]}.from_filename reads'
    if got != cl[0] and not (got in ANALYZE_FAMILY and cl[0] in ANALYZE_FAMILY):
        return f'{tag}: generic load gives {got}, class-level from_filename gives {cl[0]}'
    if ex.get('load_digest') != cl[1]:
        return f'{tag}: generic load and {cl[0]}.from_filename return different data'
    return None


def oracle_save(case, out):
    d = case.data
    ex = case.extra or {}
    cls, e, es, ss = d['cls'], d['ext'], d['ext_sp'], d['sfx_sp']
    k = class_by_name(cls)
    rel = posix(rel_of(d))
    tag = f'{cls} saved as {rel!r}' + (f' (header byte order {d["endian"]})' if d.get('endian') else '')
    if d['stream'] == 'save-edge' or all_dots_basename((d['dir'] + '/' if d['dir'] else '') + d['stem']):
        return None       # basename empty/all dots: a hidden-file name, not <stem><ext> (see RULE)
    # (SPM's `.mat` side-car names a file set for save, but no class lists it in valid_exts: not loadable by name)
    if e != '.mat':
        bad = generic_vs_class_load(tag, out, ex)
        if bad:
            return bad
    own = e in member_exts(cls) and (ss == '' or any(ss.lower() == s.lower() for s in k._compressed_suffixes))
    if d['stream'] == 'save-cross' or not own:
        # another class's name: whatever is written, the NAMED file must exist and load like the lower-case spelling
        ref_cls, ref_dig = reference(cls, e, ss.lower())
        if out == 'ERR':
            return None if ref_cls.startswith('ERR') else f'{tag}: refused, but the lower-case spelling is accepted'
        if ref_cls.startswith('ERR'):
            return f'{tag}: accepted, but the lower-case spelling is refused ({ref_cls})'
        if not out.startswith('ok '):
            return f'{tag}: save failed with {out}, the lower-case spelling works'
        if not ex.get('named_exists'):
            return f'{tag}: no file with the given name was written; directory has {ex.get("listing")}'
        got = out.split(' load=')[1].split(' ')[0]
        if got != ref_cls:
            return f'{tag}: generic load gives {got}, the lower-case spelling gives {ref_cls}'
        if ex.get('load_digest') != ref_dig:
            return f'{tag}: generic load gives different data than for the lower-case spelling'
        return None
    if not out.startswith('ok '):
        return f'{tag}: save of an accepted name failed: {out}'
    stem_p = rel[:len(rel) - len(es) - len(ss)]
    if e == '.mgz':
        want = [rel]
    else:
        sc = sibling_case(es)
        want = sorted(stem_p + (es if me == e else sc(me)) + ss for _, me in k.files_types)
    if ex.get('listing') != want:
        return f'{tag}: files written {ex.get("listing")}, expected exactly {want}'
    if not ex.get('named_exists'):
        return f'{tag}: the named file does not exist'
    # compression: suffix decides, for every member
    want_codec = {'': 0, '.gz': 1, '.bz2': 2, '.zst': 3}[ss.lower()] if e != '.mgz' else 1
    for f, b in ex['raw'].items():
        if codec_of_bytes(b) != want_codec:
            return f'{tag}: file {f!r} has codec {codec_of_bytes(b)}, the name asks for {want_codec}'
    # generic load on the name (and on every loadable sibling) = class and data of the lower-case spelling
    ref_cls, ref_dig = reference(cls, e, ss.lower())
    got = out.split(' load=')[1].split(' ')[0]
    if got not in ('ERR', 'NOFILE') and got != cls and not (cls in ANALYZE_FAMILY and got in ANALYZE_FAMILY):
        return f'{tag}: generic load returns a {got}'
    if ref_cls.startswith('ERR'):
        if got != 'ERR':
            return f'{tag}: loads as {got} but the lower-case spelling does not load ({ref_cls})'
    else:
        if got != ref_cls:
            return f'{tag}: generic load gives {got}, the lower-case spelling gives {ref_cls}'
        if ex.get('load_digest') != ref_dig:
            return f'{tag}: generic load returns different data than for the lower-case spelling'
        if not ex.get('load_same_data'):
            return f'{tag}: loaded data differ from the data saved'
    valid = set(k.valid_exts)
    # a sibling's name determines the named member's name only when the given extension is all-lower or
    # all-upper (the sibling case rule is not invertible for a mixed-case extension)
    for f in (ex['listing'] if es in (es.lower(), es.upper()) else []):
        base = f[:len(f) - len(ss)] if ss else f
        fext = '.' + base.rsplit('.', 1)[-1].lower()
        if fext in valid:
            if f not in ex['sib']:
                return f'{tag}: written file {f!r} has a loadable extension but generic load refuses it'
            c, dig = ex['sib'][f]
            r_cls, r_dig = reference(cls, fext if fext != '.mgz' else '.mgz', ss.lower())
            if (c, dig) != (r_cls, r_dig):
                return f'{tag}: loading the written file {f!r} gives {c}/{dig}, lower-case spelling gives {r_cls}/{r_dig}'
    if not ex.get('second_equal'):
        return f'{tag}: two saves of equal images are not byte-identical'
    # serialisation routes
    fbi = _nib()[0]
    if issubclass(k, fbi.SerializableImage):
        if 'to_bytes' not in ex:
            return f'{tag}: to_bytes() failed for a single-file serialisable class'
        b = ex['to_bytes']
        if ex['to_stream'] != b:
            return f'{tag}: to_stream bytes != to_bytes()'
        if ex.get('file_plain') != b:
            return f'{tag}: (decompressed) file content != to_bytes()'
        dg = ex['routes_data']
        if not (dg[0] == dg[1] == dg[2]):
            return f'{tag}: from_bytes / from_stream / load give different data {dg}'
        if not all(ex['routes_hdr']):
            return f'{tag}: from_bytes / from_stream / from_filename do not re-serialise to the same bytes {ex["routes_hdr"]}'
    return None


def oracle(case, out):
    d = case.data
    if d['op'] == 'fm':
        return oracle_fm(d, out)
    if d['op'] == 'save':
        return oracle_save(case, out)
    if d['op'] == 'hist':
        return oracle_hist(case, out)
    if d['op'] == 'wprog':
        return oracle_wprog(case, out)
    if d['op'] == 'gen':
        return oracle_gen(d, out)
    if d['op'] == 'bo':
        return oracle_bo(case, out)
    if d['op'] == 'kw':
        return oracle_kw(case, out)
    if d['op'] == 'shist':
        return oracle_shist(case, out)
    return None


def signature(case, what):
    d = case.data
    if d['op'] == 'fm':
        meta = d.get('meta') or ['?', '?', '?', '?']
        kind = 'lower' if meta[1] == meta[1].lower() else 'upper' if meta[1] == meta[1].upper() else 'mixed'
        return f'filemap:{meta[0]}:{kind}'
    if d['op'] == 'wprog':
        return f'wprog:{d["kind"]}:{d.get("cls") or "random"}'
    if d['op'] in ('gen', 'pyop'):
        return f'{d["op"]}:{d["fn"]}'
    if d['op'] == 'bo':
        return f'bo:{d["cls"]}:{d["endian"]}'
    if d['op'] == 'kw':
        return f'kw:{d["cls"]}:{",".join(sorted(d["kw"])) or "-"}'
    if d['op'] == 'shist':
        return f'shist:{d["kind"]}'
    if d['op'] == 'hist':
        import re
        m = re.search(r'step (\d+)/', what)
        st = d['steps'][int(m.group(1)) - 1] if m else {}
        src = st
        if st.get('k') == 'L':
            src = next((x for x in d['steps'] if x['k'] == 'S' and x['id'] == st.get('of')), {})
        es = src.get('ext_sp', '')
        kind = 'lower' if es == es.lower() else 'upper' if es == es.upper() else 'mixed'
        what_kind = ('files' if 'files written' in what or 'named file' in what else
                     'codec' if 'codec' in what else 'load' if 'load' in what else
                     'routes' if 'to_bytes' in what else 'opener' if 'Opener' in what else 'other')
        return f'hist:{st.get("k", "?")}:{src.get("ext", "-")}:{kind}:{what_kind}'
    if d['op'] == 'save':
        es = d['ext_sp']
        kind = 'lower' if es == es.lower() else 'upper' if es == es.upper() else 'mixed'
        what_kind = ('files' if 'files written' in what or 'named file' in what or 'no file' in what else
                     'load' if 'load' in what else 'codec' if 'codec' in what else
                     'routes' if ('to_bytes' in what or 'from_bytes' in what or 'to_stream' in what) else 'other')
        import sys
        native = '<' if sys.byteorder == 'little' else '>'
        order = ':swapped-header' if d.get('endian') not in (None, native) else ''
        return f'{d["stream"]}:{d["ext"]}:{kind}:{what_kind}{order}'
    return 'lowlevel:' + d['op']


def shrink_candidates(case):
    d = case.data
    if d['op'] == 'save':
        if d['as_path']:
            yield mk_save(d['cls'], d['dir'], d['stem'], d['ext'], d['ext_sp'], d['sfx_sp'], False, d['stream'], d.get('endian'))
        if d['dir']:
            yield mk_save(d['cls'], '', d['stem'], d['ext'], d['ext_sp'], d['sfx_sp'], d['as_path'], d['stream'], d.get('endian'))
        if d['stem'] != 'f':
            yield mk_save(d['cls'], d['dir'], 'f', d['ext'], d['ext_sp'], d['sfx_sp'], d['as_path'], d['stream'], d.get('endian'))
        if d['sfx_sp']:
            yield mk_save(d['cls'], d['dir'], d['stem'], d['ext'], d['ext_sp'], '', d['as_path'], d['stream'], d.get('endian'))
            if d['sfx_sp'] != d['sfx_sp'].lower():
                yield mk_save(d['cls'], d['dir'], d['stem'], d['ext'], d['ext_sp'], d['sfx_sp'].lower(), d['as_path'], d['stream'], d.get('endian'))
    if d['op'] == 'shist':
        steps = d['steps']
        for i in range(len(steps)):
            rest = steps[:i] + steps[i + 1:]
            if any(x[0] == 'F' for x in rest):
                yield mk_shist(d['cls'], d.get('endian'), d['kind'], rest, d['stream'])
    if d['op'] == 'kw':
        if d['sfx_sp']:
            yield mk_kw(d['cls'], d['var'], d['kw'], d['ext'], d['ext_sp'], '', d.get('endian'), d['stream'])
        if d['ext_sp'] != d['ext']:
            yield mk_kw(d['cls'], d['var'], d['kw'], d['ext'], d['ext'], d['sfx_sp'], d.get('endian'), d['stream'])
        for key in sorted(d['kw']):
            if len(d['kw']) > 1:
                yield mk_kw(d['cls'], d['var'], {a: b for a, b in d['kw'].items() if a != key}, d['ext'], d['ext_sp'],
                            d['sfx_sp'], d.get('endian'), d['stream'])
    if d['op'] == 'wprog' and not d.get('cls'):
        ops = d['ops']
        for i in range(len(ops)):
            if len(ops) > 1:
                yield mk_wprog(d['kind'], ops[:i] + ops[i + 1:], d['stream'])
    if d['op'] == 'hist':
        steps = d['steps']
        # drop one save step together with everything that depends on it; drop one other step
        for sid in sorted({st['id'] for st in steps if st['k'] == 'S'}, reverse=True):
            rest = [st for st in steps if st.get('id') != sid and st.get('sid') != sid]
            if rest and len(rest) < len(steps):
                yield mk_hist(rest, d['stream'])
        # (a rename is never dropped alone: the loads after it carry an expectation that depends on it)
        for sid in sorted({st['sid'] for st in steps if st['k'] == 'R'}):
            first = min(i for i, st in enumerate(steps) if st['k'] == 'R' and st['sid'] == sid)
            rest = [st for i, st in enumerate(steps) if not (i >= first and st.get('sid') == sid)]
            if rest:
                yield mk_hist(rest, d['stream'])
        for i in range(len(steps) - 1, -1, -1):
            if steps[i]['k'] in ('O', 'I', 'L'):
                yield mk_hist(steps[:i] + steps[i + 1:], d['stream'])
        for i, st in enumerate(steps):
            if st['k'] == 'S' and (st['dir'] or st['stem'] != 'f' or st['as_path']):
                stems = {'dir': '', 'stem': 'f', 'as_path': False}
                if not any(x.get('sid') == st['id'] for x in steps):
                    yield mk_hist(steps[:i] + [{**st, **stems}] + steps[i + 1:], d['stream'])
    if d['op'] == 'fm' and d.get('meta'):
        e, es, ss, stem = d['meta']
        if stem != 'f':
            yield mk_fm(d['cls'], 'f' + es + ss, d['stream'], (e, es, ss, 'f'))
        if ss:
            yield mk_fm(d['cls'], stem + es, d['stream'], (e, es, '', stem))
