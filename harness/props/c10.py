"""C10 — binary headers are faithful to their bytes, byte order and repairs
(wrapstruct.py, batteryrunners.py, analyze.py, spm99analyze.py, spm2analyze.py, nifti1.py, nifti2.py,
freesurfer/mghformat.py, ecat.py, volumeutils.py)."""
import importlib
import itertools
import logging
import os
import re
import struct
import sys
from fractions import Fraction

import numpy as np

from common import Case, errname, write_if_changed, LEAN

PID = 'C10'
LEAN_TARGETS = ['NibabelModel.Props.C10']
THEOREMS = [
    'Nb.C10.dec_enc', 'Nb.C10.enc_dec', 'Nb.C10.dec_swap_reverse',
    'Nb.C10.bytes_roundtrip', 'Nb.C10.fields_roundtrip', 'Nb.C10.parse_swapped',
    'Nb.C10.swapFields_involutive', 'Nb.C10.binaryblock_ofBytes',
    'Nb.C10.asByteswapped_vals', 'Nb.C10.asByteswappedTo_faithful', 'Nb.C10.endian_aliases_consistent', 'Nb.C10.asByteswapped_twice', 'Nb.C10.eq_swapped',
    'Nb.C10.hdrEq_iff_vals', 'Nb.C10.copy_eq', 'Nb.C10.copy_independent',
    'Nb.C10.endian_guess_correct', 'Nb.C10.endian_guess_correct_generated',
    'Nb.C10.ecat_guess_correct', 'Nb.C10.ecat_guess_correct_generated',
    'Nb.C10.check_fix_idempotent', 'Nb.C10.check_fix_noop', 'Nb.C10.check_fix_reports_eq_check_only',
    'Nb.C10.second_run_only_unfixable', 'Nb.C10.second_run_offset_bitpix', 'Nb.C10.fix_preserves_defined',
    'Nb.C10.checkFixBytes_parse', 'Nb.C10.checkFixBytes_idempotent', 'Nb.C10.checkFixBytes_noop',
    'Nb.C10.checkFixBytes_untouched', 'Nb.C10.checkFixBytes_generated',
    'Nb.C10.wrapCheckFix_idempotent', 'Nb.C10.history_stable', 'Nb.C10.wrapCheckFix_second_run',
    'Nb.C10.wrapCheckFix_clean', 'Nb.C10.wrapCheckFix_level_monotone', 'Nb.C10.ctorChecked_fixed_point',
    'Nb.C10.second_run_levels_le', 'Nb.C10.logRaise_spec', 'Nb.C10.check_fix_failfast_counterexample',
    'Nb.C10.from_header_preserves', 'Nb.C10.from_header_fields_castable',
    'Nb.C10.from_header_preserves_dtype_shape_zooms', 'Nb.C10.from_header_targets_ok',
    'Nb.C10.fromHeaderPixG_eq_fromHeaderPix',
    'Nb.C10.copy_fresh_buffer', 'Nb.C10.copy_alias_counterexample',
    'Nb.C10.mem_separation_invariant', 'Nb.C10.mem_hdr_independent', 'Nb.C10.mem_bufs_untouched',
    'Nb.C10.mem_bufs_untouched_of_no_poke', 'Nb.C10.mem_copy_independent', 'Nb.C10.mem_swapTo_same_is_copy',
    'Nb.C10.gen_ownership_skeleton_ok',
    'Nb.C10.mem_ctor_faithful', 'Nb.C10.mem_ctor_faithful_plain', 'Nb.C10.mem_fromFile_faithful',
    'Nb.C10.mem_copy_swap_independent', 'Nb.C10.mem_binaryblock', 'Nb.C10.mem_alias_counterexample',
    'Nb.C10.from_header_preserves_zooms', 'Nb.C10.from_header_pixdim_beyond_ndim_counterexample',
    'Nb.C10.layouts_wf', 'Nb.C10.layouts_declared_sizes', 'Nb.C10.layouts_names_distinct',
    'Nb.C10.dtcodes_consistent', 'Nb.C10.classes_consistent',
]
ASSUMPTIONS = [
    'hand-written Lean model (Model/C10.lean) of WrapStruct (bytes <-> field values over a Layout), of '
    'guessed_endian (Analyze family, ECAT, MGH) and of the _chk_* batteries; tied to the code by the '
    'differential correspondence run of this check (binaryblock, endianness, field values, byteswapped '
    'copy, ==, reports and binaryblock after check_fix / second check_fix / check_only) on every case',
    'Generated/C10Layouts.lean and Generated/C10Codes.lean are extracted by regen() from the working tree '
    '(np.dtype(header_dtd), class constants, _get_checks() order, make_dt_codes tables); the extractor is trusted',
    'NumPy structured-dtype semantics (ndarray(buffer=...), tobytes, byteswap, field get/set) are represented by '
    'parse/serialize/swapFields; the oracle re-decodes every field with int.from_bytes independently',
    'the check theorems are about the record CF of checked fields (runFix/fixOf/reportOf); the glue readCF/writeCF '
    'between CF and the header bytes is proved (checkFixBytes_parse/_idempotent/_noop/_untouched, generic over '
    'compat class/layout pairs, decided for every generated class) and checkFixBytes is additionally compared byte '
    'for byte with BatteryRunner.check_fix on every chk case',
    'the PUBLIC entry point WrapStruct.check_fix(logger, error_level) is modelled as wrapCheckFix = checkFixBytes '
    'followed by the log/raise loop logRaise (Report.log_raise: log, then raise HeaderDataError iff problem_level '
    'and problem_level >= error_level; error_level None = imageglobals.error_level), histories of calls as '
    'runHistory, Klass(bytes, check=True) as ctorChecked, diagnose_binaryblock as diagnose; compared on every pfix '
    'case (raised battery index, logged reports, bytes after EVERY call incl. the ones that raised, check_only '
    'afterwards, checking constructor, diagnose tokens); the logging module itself is not modelled (a recording '
    'logger object is passed / installed as imageglobals.logger)',
    'from_header setters: fromHeaderG? computes what set_data_dtype / set_data_shape / set_zooms write FROM THE SOURCE '
    '(code looked up in the target make_dt_codes table, dim = [ndim, shape, 1..], pixdim = zooms of the copied pixdim, '
    'entries after ndim = 1.0, magic of the target class; HeaderDataError for an unsupported dtype, a dimension that '
    'does not fit the target dim item, a negative zoom); the fromhdr stream now READS datatype/bitpix/dim/magic (and the '
    'exact pixdim bit patterns for same-width pairs) back from fromHeaderVals(.., g) and compares them with the real '
    'conversion; the NIfTI-1 freesurfer shape hacks (dim[1:4] = (-1,1,1) / (27307,1,6)) are NOT modelled and not generated; '
    "NumPy's float32<->float64 cast of pixdim stays a parameter (cross-width pairs compare provenance tags only)",
    'copy() aliasing: World = buffers + objects viewing a buffer by id (two objects MAY share one); copyObj models copy() as '
    'tobytes + ndarray(buffer).copy() = a NEW buffer; the world stream runs histories of copy / as_byteswapped / field '
    'writes on several real objects and compares the bytes of EVERY object after the history with the model; the oracle '
    'checks after every single step that only the written object changed',
    'who owns the bytes (Model/C10_Mem): memory cells + caller-side bytes-like containers (several may expose one cell, '
    'each writable or not) + header objects viewing a cell; Mem.step models Klass(block, e|None, check=False) as '
    'resolve/guess the order, size check (MGH: pad/truncate + goodRASFlag defaults), allocate a NEW cell (wstr.copy()), '
    'from_fileobj as the constructor on the bytes read at the position, binaryblock as a new immutable container, '
    'copy / same-class from_header / as_byteswapped(code) as the constructor on fresh bytes, hdr[f]=v and check_fix as '
    'in-place writes of the viewed cell; the mem-* streams run histories over REAL containers (bytes, bytearray, '
    'memoryview of either, uint8 / void / read-only ndarray, array.array, anonymous mmap, BytesIO file objects and '
    'memoryview / ndarray / read-only views of all of them) and compare after EVERY step which objects changed or '
    'appeared, with their bytes; CPython / NumPy buffer-protocol semantics (which container is writable, views share '
    'memory, BytesIO.read returns a copy) are what the stream validates, not proved; zero-copy file objects whose read() '
    'returns a view at an offset, MGHHeader.from_fileobj and Nifti1Header extensions (copy() shares the extension '
    'objects) are not modelled; the opposite direction — the caller viewing HEADER memory: hdr[name] / hdr.structarr '
    'return live writable NumPy views of _structarr by design — is outside the model (no operation hands out a view of a '
    'header cell)',
    'Generated/C10Own.lean: the ownership skeleton (every assignment to an attribute _structarr in the modules of the '
    'header classes and the kind of its right-hand side, binaryblock = tobytes(), each distinct copy() / as_byteswapped() '
    '/ from_fileobj() going through the constructor on fresh bytes) is read off the AST of the working tree by '
    'own_skeleton(); gen_ownership_skeleton_ok proves it is the skeleton Mem.step assumes and the driver runs '
    'Mem.stepBy on the generated item; the AST classifier (syntactic patterns, no data flow beyond direct names) is trusted',
    'floats are raw bit patterns; the checks use only sign/zero/NaN classes, abs (clears the sign bit, also of '
    'NaNs), the constant 1.0 and the exact dyadic value of vox_offset (FloatFmt.decode, validated against NumPy '
    'on the fdec stream); IEEE arithmetic itself is NumPy',
    'vox_offset = -inf with the single-file magic makes _chk_offset raise OverflowError while formatting its '
    'message; the model marks that input (raises) and the theorems about check_fix exclude it',
    'MGHHeader(binaryblock) replaces delta/Mdc/Pxyz_c by defaults when goodRASFlag == 0 (documented, tested '
    'upstream); bytes_roundtrip is claimed for MGH only for goodRASFlag != 0, the replacement is modelled',
    'from_header: modelled on ALL fields (fromHeaderVals: copy loop over the analyze map, then the setters) with '
    "NumPy's assignment cast between field types and the values the setters compute as parameters; "
    'from_header_preserves gives the provenance of every target field (copied / target default / overwritten = '
    'datatype, bitpix, dim, pixdim, magic for NIfTI targets); the fromhdr stream compares the provenance of EVERY '
    'field plus datatype/bitpix/dim/pixdim tags/magic with the real conversion for all cross-class pairs; NumPy '
    'casting itself is trusted (the oracle uses astype); from_header(check=True) raising '
    'HeaderDataError for a level>=40 problem carried over from the source (e.g. single-file vox_offset 352 into '
    'NIfTI-2) is allowed; OPEN finding fromhdr:pixdim-beyond-ndim-reset (cross-class conversion of a header with '
    'ndim<3 resets pixdim[ndim+1:] and hence its qform) is reported as KNOWN-FINDING',
]
RULE = ('every endianness argument handed to the API (Klass(endianness=), Klass(bytes, endianness), '
        'as_byteswapped(code)) is spelled with a random alias from nibabel.volumeutils.endian_codes (24 spellings, both '
        '"same as current" and "opposite" targets, plus unknown spellings); stream aliases = all spellings exhaustively '
        'per class x byte order. streams: setters = headers built through the public setters (shape, zooms, dtype, affines, slope/inter, '
        'intent, dim_info, offset) with arbitrary bytes in free fields x {<,>} x 9 header classes, parsed with '
        'explicit and with guessed endianness; raw = arbitrary byte strings; defects = every subset (size<=3 quick, '
        '<=4 thorough) of the seeded defects applicable to the class x {<,>}; chkrand = random bit patterns '
        '(NaN, +-inf, +-0, denormals, extremes) in the checked fields; pfix-* = the public hdr.check_fix called 2-3 times '
        'in sequence on one object with error levels from {-5,0,1,5,10,11,20,21,25,30,31,35,36,40,41,45,46,50,1000} or '
        'None (imageglobals.error_level set through imageglobals.ErrorLevel to a drawn value), logger passed or '
        'installed globally, on every defect subset / chkrand / setter-built header, plus pfix-levels = a header '
        'with ALL applicable defects swept over every level; the header is inspected after calls that RAISED; world = '
        'histories of 3-7 copy() / as_byteswapped() / field writes over up to 7 objects per class x byte order, bytes of '
        'EVERY object compared after every step; mem-<kind> = for every class x byte order x CONTAINER KIND of the '
        'binaryblock argument (bytes, bytearray, memoryview(bytearray), memoryview(bytes), writable / read-only / void '
        'uint8 ndarray, array.array, mmap, BytesIO through from_fileobj; MGH: bytes, bytearray, mmap) a populated header '
        'block (1 in 3 with seeded defects) is put in such a container, a header is built from it, then 3-10 operations: '
        'further containers / views (memoryview, ndarray, read-only) on the same memory, the caller overwriting the whole '
        'block with the next record / one field / one byte, more headers from the same or another block in either byte '
        'order (any spelling) or guessed, from_fileobj at an offset, field assignment, check_fix, copy, same-class '
        'from_header, as_byteswapped(None / same / other order), binaryblock kept and re-used; after every step every '
        'object is inspected; the binaryblock argument of the hdr / chk / pfix / aliases / defects / chkrand streams is '
        'handed over in a random container kind too (60 %) and must still hold its bytes afterwards; ext = NIfTI headers '
        'with 0-4 extensions: copy, as_byteswapped() / as_byteswapped(same order) / as_byteswapped(any spelling of the '
        'other order) and from_header to every Analyze-family class keep the extension list (independent list object); fromhdr = conversions between all '
        'Analyze-family classes; dt/codec/fdec = table and codec spec validation. A case is non-trivial when the '
        'header differs from the class default; distinct by (class, endianness, op, sha1 of bytes).')

PENDING_FINDINGS = [
    {'property': 'C10', 'signature': 'fromhdr:pixdim-beyond-ndim-reset', 'status': 'open',
     'what': 'from_header to another Analyze-family class resets pixdim[ndim+1:] to 1 (set_data_shape), '
             'changing the qform of 1-D/2-D headers; same-named field pixdim not preserved',
     'input': {'op': 'fromhdr', 'cls': 'nifti1', 'dst': 'nifti2', 'e': '<', 'check': False, 'stream': 'fromhdr',
               'hex': '5c0100000000000000000000000000000000000000000000000000000000000000000000000000000200040005000100010001000100010000000000000000000000000000001000200000000000803f000000400000c03f000050400000803f0000803f0000803f0000803f000000000000803f0000000000000000000000000000000000000000000000000000000000000000000000000000000000000000000000000000000000000000000000000000000000000000000000000000000000000000000000000000000000000000000000000000000000000000000000000000000000000000000000000000000000000000000000000000000001000000000000000000000000000000000000000000000000000000000000000000000000000000000000000000000000000000000000000000000000000000000000000000000000000000000000000000000000000000000000006e2b3100'}},

]

_quiet = logging.getLogger('c10.quiet')
_quiet.addHandler(logging.NullHandler())
_quiet.propagate = False
_quiet.setLevel(logging.CRITICAL + 10)

_NB = None


def nb():
    """Import nibabel modules lazily (so NIBABEL_REPO is honoured)."""
    global _NB
    if _NB is None:
        import nibabel  # noqa: F401
        from nibabel import analyze, spm99analyze, spm2analyze, nifti1, nifti2, ecat, volumeutils, batteryrunners
        from nibabel.freesurfer import mghformat
        from nibabel import imageglobals
        imageglobals.logger = _quiet          # check_fix logs every report; keep the run silent
        _NB = dict(analyze=analyze, spm99analyze=spm99analyze, spm2analyze=spm2analyze, nifti1=nifti1,
                   nifti2=nifti2, ecat=ecat, mghformat=mghformat, volumeutils=volumeutils,
                   batteryrunners=batteryrunners)
    return _NB


def classes():
    m = nb()
    return {
        'analyze': m['analyze'].AnalyzeHeader,
        'spm99': m['spm99analyze'].Spm99AnalyzeHeader,
        'spm2': m['spm2analyze'].Spm2AnalyzeHeader,
        'nifti1': m['nifti1'].Nifti1Header,
        'nifti1pair': m['nifti1'].Nifti1PairHeader,
        'nifti2': m['nifti2'].Nifti2Header,
        'nifti2pair': m['nifti2'].Nifti2PairHeader,
        'mgh': m['mghformat'].MGHHeader,
        'ecat': m['ecat'].EcatHeader,
    }


_ALIASES = None


def aliases():
    """{spelling: '<' | '>'} taken from the `_endian_codes` tuple of the working tree (independent of the
    Recoder lookups the API performs)."""
    global _ALIASES
    if _ALIASES is None:
        rows = nb()['volumeutils']._endian_codes
        _ALIASES = {}
        for row in rows:
            for a in row:
                _ALIASES.setdefault(a, row[0])
    return _ALIASES


BAD_SPELLINGS = ['x', 'Little', '<>', 'nativ']


def resolve(sp):
    """'<' / '>' for a known spelling, None for an unknown one."""
    return aliases().get(sp)


def spell(rng, code):
    """A random spelling of byte order `code` ('<' or '>'): any alias that means it on this machine."""
    return rng.choice(sorted(a for a, v in aliases().items() if v == code))


def any_spelling(rng):
    return rng.choice(sorted(aliases()))


ANALYZE_FAMILY = ['analyze', 'spm99', 'spm2', 'nifti1', 'nifti1pair', 'nifti2', 'nifti2pair']
NATIVE = '<' if sys.byteorder == 'little' else '>'
SWAPPED = '>' if NATIVE == '<' else '<'

# ------------------------------------------------------------------ regeneration (Leg T)

KIND = {'i': 'int', 'u': 'uint', 'f': 'float', 'S': 'bytes'}
CHECK_IDS = {
    '_chk_sizeof_hdr': 'sizeofHdr', '_chk_datatype': 'datatype', '_chk_bitpix': 'bitpix',
    '_chk_pixdims': 'pixdims', '_chk_qfac': 'qfac', '_chk_magic': 'magic', '_chk_offset': 'offset',
    '_chk_qform_code': 'qform', '_chk_sform_code': 'sform', '_chk_eol_check': 'eol',
    '_chk_origin': 'origin', 'chk_version': 'version',
}


def _lean_str(s):
    assert re.fullmatch(r'[A-Za-z0-9_+\- .<>=|!]*', s), s
    return '"' + s + '"'


def _layout_lean(name, dt):
    rows = []
    for n in dt.names:
        f, off = dt.fields[n][:2]
        base = f.base
        if base.kind not in KIND:
            raise ValueError(f'layout {name}: field {n} has unsupported kind {base.kind!r}')
        cnt = int(np.prod(f.shape, dtype=object)) if f.shape else 1
        rows.append(f'  ⟨{_lean_str(n)}, {off}, {base.itemsize}, {cnt}, .{KIND[base.kind]}⟩')
    return f'def {name} : Layout := ⟨{_lean_str(name)}, {dt.itemsize}, [\n' + ',\n'.join(rows) + ']⟩\n'


def _dt_rows(rec, dtcol, swcol):
    rows = []
    for code in sorted(rec.value_set()):
        d = np.dtype(getattr(rec, dtcol)[code])
        s = np.dtype(getattr(rec, swcol)[code]) if swcol else d
        opp = bool(d.isnative != s.isnative)
        rows.append(f'  ⟨{int(code)}, {d.kind!r}, {d.itemsize}, {s.kind!r}, {s.itemsize}, {"true" if opp else "false"}⟩')
    return '[\n' + ',\n'.join(rows) + ']'


def _fmt_of(dt):
    return {'f4': 'fmt32', 'f8': 'fmt64'}.get(dt.base.str[1:], 'fmt32')


def own_skeleton():
    """The ownership skeleton of the header classes, read off the AST of the working tree (see OwnSkel in
    Model/C10_Mem.lean).  Returns the dict of its items."""
    import ast, inspect, textwrap
    ws = importlib.import_module('nibabel.wrapstruct')
    tree = ast.parse(open(ws.__file__).read())
    wcls = next(n for n in tree.body if isinstance(n, ast.ClassDef) and n.name == 'WrapStruct')
    fn = {n.name: n for n in wcls.body if isinstance(n, ast.FunctionDef)}
    init = fn['__init__']
    block = init.args.args[1].arg                       # the parameter holding the caller's block

    def is_self(t, attr):
        return isinstance(t, ast.Attribute) and t.attr == attr and isinstance(t.value, ast.Name) and t.value.id == 'self'

    def is_wrap_call(v):
        return (isinstance(v, ast.Call) and isinstance(v.func, ast.Attribute) and v.func.attr == 'ndarray' and
                any(k.arg == 'buffer' and isinstance(k.value, ast.Name) and k.value.id == block for k in v.keywords))

    wraps = {n.targets[0].id for n in ast.walk(init)
             if isinstance(n, ast.Assign) and len(n.targets) == 1 and isinstance(n.targets[0], ast.Name) and is_wrap_call(n.value)}

    def classify(v):
        if isinstance(v, ast.IfExp):
            parts = {classify(v.body), classify(v.orelse)}
            return 'wrap' if 'wrap' in parts else (parts.pop() if len(parts) == 1 else 'other')
        if isinstance(v, ast.BoolOp):
            parts = {classify(x) for x in v.values}
            return 'wrap' if 'wrap' in parts else 'other'
        if (isinstance(v, ast.Name) and v.id in wraps) or is_wrap_call(v):
            return 'wrap'
        if isinstance(v, ast.Call) and isinstance(v.func, ast.Attribute) and not v.args and not v.keywords \
                and v.func.attr == 'copy' and isinstance(v.func.value, ast.Name) and v.func.value.id in wraps:
            return 'copyOfWrap'
        if isinstance(v, ast.Call) and isinstance(v.func, ast.Attribute) and v.func.attr == 'default_structarr':
            return 'fresh'
        return 'other'

    def stores(node):
        out = []
        for n in ast.walk(node):
            tg = n.targets if isinstance(n, ast.Assign) else [n.target] if isinstance(n, (ast.AugAssign, ast.AnnAssign)) else []
            for t in tg:
                for x in (t.elts if isinstance(t, (ast.Tuple, ast.List)) else [t]):
                    if isinstance(x, ast.Attribute) and x.attr == '_structarr':
                        out.append((n.lineno, n.value))
        return sorted(out, key=lambda p: p[0])

    ctor = [classify(v) for _, v in stores(init)]
    K = classes()
    mods = sorted({c.__module__ for k in K.values() for c in k.__mro__ if c.__module__.startswith('nibabel')})
    total = sum(len(stores(ast.parse(open(importlib.import_module(m).__file__).read()))) for m in mods)
    other = total - len(ctor)

    def ret_value(f):
        rets = [n.value for n in ast.walk(f) if isinstance(n, ast.Return)]
        return rets

    bbf = fn['binaryblock']
    rv = ret_value(bbf)
    bb_ok = (len(rv) == 1 and isinstance(rv[0], ast.Call) and isinstance(rv[0].func, ast.Attribute) and
             rv[0].func.attr == 'tobytes' and is_self(rv[0].func.value, '_structarr') and not rv[0].args)

    def distinct(name, skip=()):
        seen, out = set(), []
        for cname, k in K.items():
            if cname in skip:
                continue
            f = getattr(k, name)
            f = getattr(f, '__func__', f)
            if f not in seen:
                seen.add(f)
                out.append(ast.parse(textwrap.dedent(inspect.getsource(f))).body[0])
        return out

    def ctor_call_on(v, first_ok):
        return (isinstance(v, ast.Call) and (is_self(v.func, '__class__') or (isinstance(v.func, ast.Name) and v.func.id == 'klass'))
                and v.args and first_ok(v.args[0]))

    def delegates(f, v):
        """`v` is `super().<f>(…)`, or a name bound exactly once in `f`, to such a call (an override that decorates
        the object the base method built; an assignment to its `_structarr` would be counted in otherStores)"""
        def sup(c):
            return (isinstance(c, ast.Call) and isinstance(c.func, ast.Attribute) and c.func.attr == f.name and
                    isinstance(c.func.value, ast.Call) and isinstance(c.func.value.func, ast.Name) and
                    c.func.value.func.id == 'super')
        if sup(v):
            return True
        if isinstance(v, ast.Name):
            binds = [n.value for n in ast.walk(f) if isinstance(n, ast.Assign) and
                     any(isinstance(t, ast.Name) and t.id == v.id for t in n.targets)]
            return len(binds) == 1 and sup(binds[0])
        return False

    is_bb = lambda a: is_self(a, 'binaryblock')
    is_tobytes = lambda a: isinstance(a, ast.Call) and isinstance(a.func, ast.Attribute) and a.func.attr == 'tobytes' and not a.args
    is_self_copy = lambda v: isinstance(v, ast.Call) and is_self(v.func, 'copy') and not v.args and not v.keywords
    copies = [len(ret_value(f)) == 1 and (ctor_call_on(ret_value(f)[0], is_bb) or delegates(f, ret_value(f)[0]))
              for f in distinct('copy')]
    swaps = [bool(ret_value(f)) and all(is_self_copy(v) or ctor_call_on(v, lambda a: is_tobytes(a) or is_bb(a)) or
                                        delegates(f, v) for v in ret_value(f))
             for f in distinct('as_byteswapped')]

    def reads_ok(f):
        rd = {n.targets[0].id for n in ast.walk(f)
              if isinstance(n, ast.Assign) and len(n.targets) == 1 and isinstance(n.targets[0], ast.Name) and
              isinstance(n.value, ast.Call) and isinstance(n.value.func, ast.Attribute) and n.value.func.attr == 'read'}
        calls = [n for n in ast.walk(f) if isinstance(n, ast.Call) and isinstance(n.func, ast.Name) and n.func.id == 'klass']
        return bool(calls) and all(c.args and isinstance(c.args[0], ast.Name) and c.args[0].id in rd for c in calls)

    reads = [reads_ok(f) for f in distinct('from_fileobj', skip=('mgh',))]
    return {'ctor': ctor, 'other': other, 'bb': bool(bb_ok), 'copies': [bool(x) for x in copies],
            'swaps': [bool(x) for x in swaps], 'reads': [bool(x) for x in reads]}


def regen():
    m = nb()
    K = classes()
    mgh = m['mghformat']
    from nibabel.streamlines import trk
    lay = [('analyze', K['analyze'].template_dtype), ('spm99', K['spm99'].template_dtype),
           ('spm2', K['spm2'].template_dtype), ('nifti1', K['nifti1'].template_dtype),
           ('nifti2', K['nifti2'].template_dtype), ('mgh', K['mgh'].template_dtype),
           ('mghHeader', mgh.header_dtype), ('mghFooter', mgh.footer_dtype),
           ('ecat', K['ecat'].template_dtype)]
    try:
        lay.append(('trk', trk.header_2_dtype))
        trk_size = int(trk.TrkFile.HEADER_SIZE)
    except Exception:
        trk_size = None
    out = ['import NibabelModel.Model.C10',
           '/-! GENERATED by harness/props/c10.py regen() from the working tree (np.dtype(header_dtd), class',
           '    constants) — do not edit; rewritten on every run. -/',
           'namespace Nb.C10.Gen', '']
    for n, dt in lay:
        out.append(_layout_lean(n, np.dtype(dt)))
    out.append('def layouts : List Layout := [' + ', '.join(n for n, _ in lay) + ']\n')
    decl = [('analyze', K['analyze'].sizeof_hdr), ('spm99', K['spm99'].sizeof_hdr), ('spm2', K['spm2'].sizeof_hdr),
            ('nifti1', K['nifti1'].sizeof_hdr), ('nifti2', K['nifti2'].sizeof_hdr),
            ('ecat', m['ecat'].BLOCK_SIZE)]
    if trk_size is not None:
        decl.append(('trk', trk_size))
    out.append('/-- (layout, size the source declares for it: klass.sizeof_hdr, ecat BLOCK_SIZE, trk HEADER_SIZE) -/')
    out.append('def declared : List (Layout × Nat) := [' + ', '.join(f'({n}, {int(v)})' for n, v in decl) + ']\n')
    out.append(f'def mghDataOffset : Nat := {int(mgh.DATA_OFFSET)}\n')
    out.append('def layoutOf? (name : String) : Option Layout := layouts.find? (·.name == name)\n')
    out.append('end Nb.C10.Gen\n')
    write_if_changed(os.path.join(LEAN, 'NibabelModel', 'Generated', 'C10Layouts.lean'), '\n'.join(out))

    # ---- code tables and class constants
    out = ['import NibabelModel.Model.C10',
           '/-! GENERATED by harness/props/c10.py regen() from the working tree (make_dt_codes tables, class',
           '    constants, _get_checks() order) — do not edit; rewritten on every run. -/',
           'namespace Nb.C10.Gen', '']
    out.append('def analyzeCodes : List DtCode := ' + _dt_rows(m['analyze'].data_type_codes, 'dtype', 'sw_dtype') + '\n')
    out.append('def nifti1Codes : List DtCode := ' + _dt_rows(m['nifti1'].data_type_codes, 'dtype', 'sw_dtype') + '\n')
    rows = []
    for code in sorted(mgh.data_type_codes.value_set()):
        d = np.dtype(mgh.data_type_codes.numpy_dtype[code])
        bpv = int(mgh.data_type_codes.bytespervox[code])
        rows.append(f'  ({int(code)}, {d.kind!r}, {d.itemsize}, {bpv}, {"true" if d.byteorder in (">", "|") else "false"})')
    out.append('/-- MGH: (code, kind, itemsize of numpy_dtype, bytespervox column, big-endian-or-bytes) -/')
    out.append('def mghCodes : List (Int × Char × Nat × Nat × Bool) := [\n' + ',\n'.join(rows) + ']\n')
    out.append('def dtTables : List (String × List DtCode) := [("analyze", analyzeCodes), ("nifti1", nifti1Codes)]\n')
    specs = []
    for name, k in K.items():
        dt = k.template_dtype
        checks = []
        for f in k._get_checks():
            nm = getattr(f, '__name__', None)
            if nm not in CHECK_IDS:
                raise ValueError(f'class {name}: unknown check {nm!r} in _get_checks()')
            checks.append('.' + CHECK_IDS[nm])
        codes = getattr(k, '_data_type_codes', None)
        if codes is m['nifti1'].data_type_codes:
            table = 'nifti1Codes'
        elif codes is m['analyze'].data_type_codes:
            table = 'analyzeCodes'
        elif codes is None or codes is mgh.data_type_codes:
            table = '[]'
        else:
            raise ValueError(f'class {name}: unknown data type code table')
        if any(c in checks for c in ('.datatype', '.bitpix')) and table == '[]':
            raise ValueError(f'class {name}: datatype checks without a make_dt_codes table')
        pixfmt = _fmt_of(dt.fields['pixdim'][0]) if 'pixdim' in dt.names else 'fmt32'
        voxkind, voxpat, svo = '.f32', 0, 0
        if 'vox_offset' in dt.names:
            vdt = dt.fields['vox_offset'][0]
            voxkind = {'f4': '.f32', 'i8': '.i64'}.get(vdt.str[1:])
            if voxkind is None:
                raise ValueError(f'class {name}: vox_offset dtype {vdt} not modelled')
            svo = int(getattr(k, 'single_vox_offset', 0))
            voxpat = int.from_bytes(np.array(svo, dtype=vdt.newbyteorder('<')).tobytes(), 'little')
        sm = list(getattr(k, 'single_magic', b''))
        pm = list(getattr(k, 'pair_magic', b''))
        xf = sorted(int(v) for v in k._field_recoders['qform_code'].value_set()) if 'qform_code' in getattr(k, '_field_recoders', {}) else []
        ge = k.guessed_endian.__func__
        if ge is m['analyze'].AnalyzeHeader.guessed_endian.__func__:
            guess = f'.analyze {int(k.sizeof_hdr)}'
        elif ge is m['ecat'].EcatHeader.guessed_endian.__func__:
            guess = '.ecat'
        elif ge is mgh.MGHHeader.guessed_endian.__func__:
            guess = '.bigEndian'
        else:
            raise ValueError(f'class {name}: unknown guessed_endian')
        layout = {'nifti1pair': 'nifti1', 'nifti2pair': 'nifti2'}.get(name, name)
        if np.dtype(dt) != np.dtype(dict(lay)[layout]):
            raise ValueError(f'class {name}: template_dtype differs from layout {layout}')
        specs.append(f'def {name}Cls : ClsSpec := {{\n  name := {_lean_str(name)}, layout := {_lean_str(layout)}, '
                     f'sizeofHdr := {int(getattr(k, "sizeof_hdr", 0))},\n  checks := [{", ".join(checks)}], dtTable := {table}, '
                     f'pixFmt := {pixfmt}, voxKind := {voxkind},\n  singleMagic := {sm}, pairMagic := {pm}, '
                     f'singleVoxOffset := {svo}, singleVoxPattern := {voxpat},\n  xformCodes := {xf}, guess := {guess}, '
                     f'swappable := {"false" if name == "mgh" else "true"}, '
                     f'isSingle := {"true" if getattr(k, "is_single", False) else "false"} }}\n')
    ec = m['volumeutils'].endian_codes
    rows = []
    for k in ec.keys():
        if not isinstance(k, str) or ' ' in k:
            raise ValueError(f'endian_codes key {k!r} not representable in the line protocol')
        v = ec[k]
        if v not in ('<', '>'):
            raise ValueError(f'endian_codes[{k!r}] = {v!r}')
        rows.append(f'({_lean_str(k)}, {".le" if v == "<" else ".be"})')
    out.append('/-- `endian_codes`: every accepted spelling and the byte order it resolves to on this machine -/')
    out.append('def endianAliases : List (String × Endian) := [' + ', '.join(rows) + ']\n')
    out.append(f'def nativeCode : Endian := {".le" if m["volumeutils"].native_code == "<" else ".be"}\n')
    out.extend(specs)
    out.append('def classes : List ClsSpec := [' + ', '.join(n + 'Cls' for n in K) + ']\n')
    out.append('def classOf? (name : String) : Option ClsSpec := classes.find? (·.name == name)\n')
    out.append('end Nb.C10.Gen\n')
    write_if_changed(os.path.join(LEAN, 'NibabelModel', 'Generated', 'C10Codes.lean'), '\n'.join(out))
    sk = own_skeleton()
    lb = lambda xs: '[' + ', '.join('true' if x else 'false' for x in xs) + ']'
    out = ['import NibabelModel.Model.C10_Mem',
           '/-! GENERATED by harness/props/c10.py regen() from the AST of the working tree (nibabel/wrapstruct.py and the',
           '    modules of the header classes): who assigns `_structarr`, and from what — do not edit. -/',
           'namespace Nb.C10.Gen', '',
           'def ownSkel : OwnSkel := {',
           '  ctorStores := [' + ', '.join('.' + x for x in sk['ctor']) + '],',
           f'  otherStores := {int(sk["other"])},',
           f'  binaryblockTobytes := {"true" if sk["bb"] else "false"},',
           f'  copyViaCtor := {lb(sk["copies"])},',
           f'  swapViaCtor := {lb(sk["swaps"])},',
           f'  fromFileReads := {lb(sk["reads"])} }}', '',
           'end Nb.C10.Gen', '']
    write_if_changed(os.path.join(LEAN, 'NibabelModel', 'Generated', 'C10Own.lean'), '\n'.join(out))
    return ['Gen.ownSkel ok (ownership skeleton: _structarr stores, binaryblock, copy, as_byteswapped, from_fileobj)',
            'Gen.layouts wf (tiling, %d layouts)' % len(lay), 'Gen.declared sizes', 'Gen.layouts names distinct',
            'Gen dt code tables consistent', 'Gen.endianAliases consistent', 'Gen.classes consistent (guess spec, offsets constants)']


# ------------------------------------------------------------------ helpers shared by impl / oracle

def layout_of(K):
    """[(name, offset, base dtype str without byteorder, itemsize, count, kind)] from the class dtype."""
    dt = K.template_dtype
    out = []
    for n in dt.names:
        f, off = dt.fields[n][:2]
        cnt = int(np.prod(f.shape, dtype=object)) if f.shape else 1
        out.append((n, off, f.base.itemsize, cnt, f.base.kind))
    return out


def canon_field(arr):
    """Canonical text of one field value obtained through hdr[name]: signed ints, raw bit patterns of
    floats / unsigned, hex of byte strings (with their NUL padding)."""
    a = np.ascontiguousarray(arr).ravel()
    k = a.dtype.kind
    if k == 'S':
        return a.tobytes().hex() or '-'
    if k == 'f':
        a = a.view(a.dtype.str.replace('f', 'u'))
    return ','.join(str(int(x)) for x in a)


def canon_vals(h, K):
    return ';'.join(canon_field(h[n]) for n in K.template_dtype.names)


def own_decode(bs, K, e):
    """Independent decoder: int.from_bytes at the dtype's offsets."""
    order = 'little' if e == '<' else 'big'
    parts = []
    for n, off, isz, cnt, kind in layout_of(K):
        if kind == 'S':
            parts.append(bs[off:off + isz * cnt].hex() or '-')
        else:
            parts.append(','.join(str(int.from_bytes(bs[off + i * isz: off + (i + 1) * isz], order, signed=(kind == 'i')))
                                  for i in range(cnt)))
    return ';'.join(parts)


def own_swap(bs, K):
    out = bytearray(bs)
    for n, off, isz, cnt, kind in layout_of(K):
        if kind == 'S':
            continue
        for i in range(cnt):
            out[off + i * isz: off + (i + 1) * isz] = bs[off + i * isz: off + (i + 1) * isz][::-1]
    return bytes(out)


MSG_TOKENS = [
    (r'^$', '-'),
    (r'^sizeof_hdr should be \d+$', 'sizeof'),
    (r'^data code -?\d+ not recognized$', 'dt-unrec'),
    (r'^data code -?\d+ not supported$', 'dt-unsup'),
    (r'^no valid datatype to fix bitpix$', 'bp-nodt'),
    (r'^bitpix does not match datatype$', 'bp-mismatch'),
    (r'^pixdim\[1,2,3\] should be non-zero and pixdim\[1,2,3\] should be positive$', 'pd-zero+neg'),
    (r'^pixdim\[1,2,3\] should be non-zero$', 'pd-zero'),
    (r'^pixdim\[1,2,3\] should be positive$', 'pd-neg'),
    (r'^pixdim\[0\] \(qfac\) should be 1 \(default\) or -1$', 'qfac'),
    (r'^magic string .* is not valid$', 'magic'),
    (r'^vox offset -?\d+ too low for single file nifti1$', 'off-low'),
    (r'^vox offset \(=.*\) not divisible by 16, not SPM compatible$', 'off-16'),
    (r'^qform_code -?\d+ not valid$', 'qform'),
    (r'^sform_code -?\d+ not valid$', 'sform'),
    (r'^EOL check all 0$', 'eol-zero'),
    (r'^EOL check not 0 or 13, 10, 26, 10; data may be corrupted by EOL conversion$', 'eol-bad'),
    (r'^very large origin values relative to dims$', 'origin'),
    (r'^Unknown MGH format version$', 'version'),
]
UNFIXABLE_CHECKS = {'_chk_datatype', '_chk_bitpix', '_chk_magic', '_chk_offset', '_chk_origin'}


def msg_token(msg):
    for pat, tok in MSG_TOKENS:
        if re.match(pat, msg, flags=re.S):
            return tok
    return 'other(' + msg.replace(' ', '_')[:60] + ')'


def canon_reports(reps):
    return '[' + ','.join(f'{int(r.problem_level)}:{msg_token(r.problem_msg)}:{1 if r.fix_msg else 0}' for r in reps) + ']'


def wrap_block(ck, bs):
    """The binary block in the container kind `ck` the caller hands to the constructor."""
    return bs if (ck in (None, 'bytes') or not bs) else MEM_KINDS[ck][1](bs)


def block_kinds(cls):
    return MGH_KINDS if cls == 'mgh' else tuple(k for k in sorted(MEM_KINDS) if k != 'bytesio')


def make_hdr(cls, e, bs):
    K = classes()[cls]
    if cls == 'mgh':
        return K(bs, check=False)
    return K(bs, endianness=None if e == '?' else e, check=False)



# ------------------------------------------------------------------ cases

def mk_case(op, cls, e, bs, stream, valid=False, etrue=None, nontrivial=True, to=None, ck=None):
    """`e`: the endianness argument as SPELLED to the API (any endian_codes alias, or '?' = None);
    `to`: spelling passed to as_byteswapped (None = only the argument-less call)."""
    hx = bs.hex() or '-'
    if op == 'hdr':
        line = f'C10 hdr {cls} {NATIVE} {e} {to if to is not None else "_"} {hx}'
    elif op == 'chk':
        line = f'C10 chk {cls} {e} {hx}'
    else:
        raise ValueError(op)
    data = {'op': op, 'cls': cls, 'e': e, 'to': to, 'hex': hx, 'stream': stream, 'valid': valid, 'etrue': etrue}
    if ck not in (None, 'bytes'):
        data['ck'] = ck           # container kind of the binaryblock argument (the model does not depend on it)
    key = (op, cls, e, to, _sha(bs)) if nontrivial else None
    return Case(line, data, key, stream)


def mk_simple(op, args, stream):
    line = f'C10 {op} ' + ' '.join(str(a) for a in args)
    return Case(line, {'op': op, 'args': [str(a) for a in args], 'stream': stream}, (op,) + tuple(str(a) for a in args), stream)


def mk_fromhdr(src, dst, e, bs, check):
    data = {'op': 'fromhdr', 'cls': src, 'dst': dst, 'e': e, 'hex': bs.hex(), 'check': check, 'stream': 'fromhdr'}
    # cross-class conversions without the final check are compared field by field with the model
    line = f'C10 fromhdr {src} {dst} {e} {bs.hex()}' if (src != dst and not check) else None
    return Case(line, data, ("fromhdr", src, dst, e, check, _sha(bs)), 'fromhdr')


def _lv(l):
    return 'N' if l is None else str(int(l))


def mk_pfix(cls, e, glob, lvls, bs, stream, valid=False, lg='arg', nontrivial=True, ck=None):
    """The public `hdr.check_fix(logger, error_level=l)` for each l in `lvls` in sequence on ONE object
    (None = take imageglobals.error_level, which is set to `glob`); `lg`: 'arg' = a recording logger is
    passed, 'glob' = logger=None and the recorder is installed as imageglobals.logger."""
    hx = bs.hex() or '-'
    lvls = [None if l is None else int(l) for l in lvls]
    line = f'C10 pfix {cls} {e} {int(glob)} {",".join(_lv(l) for l in lvls)} {hx}'
    data = {'op': 'pfix', 'cls': cls, 'e': e, 'glob': int(glob), 'lvls': lvls, 'lg': lg, 'hex': hx,
            'stream': stream, 'valid': valid}
    if ck not in (None, 'bytes'):
        data['ck'] = ck
    key = ('pfix', cls, e, int(glob), tuple(lvls), _sha(bs)) if nontrivial else None
    return Case(line, data, key, stream)


def mk_world(cls, e, bs, script, stream='world'):
    """Objects and buffers: `script` = list of ('c', i) copy / ('y', i) as_byteswapped / ('s', i, field, [patterns])."""
    toks = []
    for st in script:
        if st[0] in 'cy':
            toks.append(f'{st[0]}{st[1]}')
        else:
            toks.append(f's{st[1]}:{st[2]}:' + '/'.join(str(int(x)) for x in st[3]))
    line = f'C10 world {cls} {e} {bs.hex()} {",".join(toks)}'
    data = {'op': 'world', 'cls': cls, 'e': e, 'hex': bs.hex(), 'script': [list(st) for st in script], 'stream': stream}
    return Case(line, data, ('world', cls, e, _sha(bs), ','.join(toks)), stream)


def case_from_data(d):
    op = d['op']
    if op == 'world':
        return mk_world(d['cls'], d['e'], bytes.fromhex(d['hex']), [tuple(st) for st in d['script']], d.get('stream', 'world'))
    if op == 'mem':
        return mk_mem(d['cls'], d['script'], d.get('stream', 'mem'))
    if op == 'ext':
        return mk_ext(d['cls'], d['e'], bytes.fromhex(d['hex']), d['exts'], d.get('stream', 'ext'), d.get('to'))
    if op == 'pfix':
        bs = b'' if d['hex'] == '-' else bytes.fromhex(d['hex'])
        return mk_pfix(d['cls'], d['e'], d['glob'], d['lvls'], bs, d.get('stream', 'corpus'), d.get('valid', False),
                       d.get('lg', 'arg'), ck=d.get('ck'))
    if op in ('hdr', 'chk'):
        bs = b'' if d['hex'] == '-' else bytes.fromhex(d['hex'])
        return mk_case(op, d['cls'], d['e'], bs, d.get('stream', 'corpus'), d.get('valid', False), d.get('etrue'),
                       to=d.get('to'), ck=d.get('ck'))
    if op == 'fromhdr':
        return mk_fromhdr(d['cls'], d['dst'], d['e'], bytes.fromhex(d['hex']), d.get('check', False))
    if op in ('dt', 'codec', 'fdec', 'fhpix'):
        return mk_simple(op, d['args'], d.get('stream', op))
    raise ValueError(d)


# ------------------------------------------------------------------ implementation side

def impl_hdr(case):
    d = case.data
    cls, e = d['cls'], d['e']
    K = classes()[cls]
    bs = b'' if d['hex'] == '-' else bytes.fromhex(d['hex'])
    from nibabel.wrapstruct import WrapStructError
    blk = wrap_block(d.get('ck'), bs)
    try:
        h = make_hdr(cls, e, blk)
    except WrapStructError:
        return 'ERR:WrapStructError'
    except KeyError:
        return 'ERR:KeyError'
    bb = h.binaryblock
    c = h.copy()
    out = f'e={h.endianness} bb={bb.hex()} vals={canon_vals(h, K)} copy={int(bool(h == c) and c.binaryblock == bb)}'
    ex = {'h': h, 'bb': bb, 'bs': bs, 'blk': blk}
    case.extra = ex
    tseg = ''
    if d.get('to') is not None:
        try:
            t = h.as_byteswapped(d['to'])
            ex['t'] = t
            tseg = (f' to={t.endianness}:{t.binaryblock.hex()}:{int(canon_vals(t, K) == canon_vals(h, K))}'
                    f'{int(bool(h == t))}{int(bool(t == h))}')
        except KeyError:
            tseg = ' to=ERR:KeyError'
        except ValueError:
            tseg = ' to=ERR:ValueError'
    if cls == 'mgh':
        return out + ' sw=NA' + tseg
    s = h.as_byteswapped()
    ex['s'] = s
    swvals = int(canon_vals(s, K) == canon_vals(h, K))
    back = int(s.as_byteswapped().binaryblock == bb)
    return (out + f' sw={s.endianness}:{s.binaryblock.hex()} swvals={swvals} eq={int(bool(h == s))}{int(bool(s == h))}'
            f' back={back}' + tseg)


def impl_chk(case):
    d = case.data
    cls, e = d['cls'], d['e']
    K = classes()[cls]
    bs = b'' if d['hex'] == '-' else bytes.fromhex(d['hex'])
    from nibabel.wrapstruct import WrapStructError
    BatteryRunner = nb()['batteryrunners'].BatteryRunner
    blk = wrap_block(d.get('ck'), bs)
    try:
        h = make_hdr(cls, e, blk)
    except WrapStructError:
        return 'ERR:WrapStructError'
    except KeyError:
        return 'ERR:KeyError'
    bb0 = h.binaryblock
    br = BatteryRunner(K._get_checks())
    ex = {'bb0': bb0, 'K': K, 'blk': blk}
    case.extra = ex
    try:
        ro = br.check_only(h)
        ex['only_changed'] = h.binaryblock != bb0
        _, r1 = br.check_fix(h)
    except OverflowError:
        return 'ERR:OverflowError'
    bb1 = h.binaryblock
    _, r2 = br.check_fix(h)
    bb2 = h.binaryblock
    _, r3 = br.check_fix(h)
    ex.update(r1=r1, r2=r2, r3=r3, ro=ro, bb1=bb1, bb2=bb2, bb3=h.binaryblock, ro2=br.check_only(h))
    return (f'r1={canon_reports(r1)} bb1={bb1.hex()} r2={canon_reports(r2)} same={int(bb2 == bb1)} '
            f'ro={canon_reports(ro)}')


def _set_items(h, K, name, patterns):
    """hdr[name] = the items given as raw bit patterns (in the header's own byte order)."""
    ft = K.template_dtype[name]
    base = ft.base
    ut = np.dtype('u%d' % base.itemsize)
    arr = np.array([int(p) for p in patterns], dtype=ut).view(base.newbyteorder('=')).reshape(ft.shape)
    h[name] = arr


def impl_world(case):
    d = case.data
    cls, e = d['cls'], d['e']
    K = classes()[cls]
    objs = [make_hdr(cls, e, bytes.fromhex(d['hex']))]
    trace = [[o.binaryblock for o in objs]]
    for st in d['script']:
        if st[0] == 'c':
            objs.append(objs[st[1]].copy())
        elif st[0] == 'y':
            objs.append(objs[st[1]].as_byteswapped())
        else:
            _set_items(objs[st[1]], K, st[2], st[3])
        trace.append([o.binaryblock for o in objs])
    case.extra = {'objs': objs, 'trace': trace}
    return ';'.join(f'{o.endianness}:{o.binaryblock.hex()}' for o in objs)


def oracle_world(case, out):
    """Copies (and byte-swapped copies) are independent objects: a write through one object changes that
    object's field and NOTHING else — no other field, no other object."""
    d = case.data
    K = classes()[d['cls']]
    if out.startswith('ERR'):
        return f'{d["cls"]}: object history raised {out}'
    ex = case.extra
    objs, trace = ex['objs'], ex['trace']
    ends = [o.endianness for o in objs]
    lay = {f[0]: f for f in layout_of(K)}
    for t, st in enumerate(d['script']):
        before, after = trace[t], trace[t + 1]
        if st[0] in 'cy':
            i = st[1]
            if after[:-1] != before:
                return f'{d["cls"]}: step {t} ({st[0]}{i}) changed an existing object'
            want = before[i] if st[0] == 'c' else own_swap(before[i], K)
            if after[-1] != want:
                return f'{d["cls"]}: step {t}: the {"copy" if st[0] == "c" else "byte-swapped copy"} of object {i} has different bytes'
            if objs[len(after) - 1] is objs[i]:
                return f'{d["cls"]}: step {t}: {st[0]}{i} returned the same object'
        else:
            i, name, pats = st[1], st[2], st[3]
            for k in range(len(before)):
                if k != i and after[k] != before[k]:
                    return (f'{d["cls"]}: writing field {name} of object {i} changed object {k} '
                            f'(objects are not independent; script {d["script"][:t + 1]})')
            n, off, isz, cnt, kind = lay[name]
            order = 'little' if ends[i] == '<' else 'big'
            want = before[i][:off] + b''.join(int(p).to_bytes(isz, order) for p in pats) + before[i][off + isz * cnt:]
            if after[i] != want:
                return f'{d["cls"]}: writing field {name} of object {i} did not produce the expected bytes'
    return None


# ------------------------------------------------------------------ memory: containers, headers, histories (Model/C10_Mem)

# caller-side bytes-like containers handed to the constructor: name -> (writable, builder)
def _mk_mmap(b):
    import mmap
    m = mmap.mmap(-1, max(len(b), 1))
    m[:len(b)] = b
    return m


def _mk_array(b):
    import array
    return array.array('B', b)


MEM_KINDS = {
    'bytes': (False, lambda b: bytes(b)),
    'bytearray': (True, lambda b: bytearray(b)),
    'mv': (True, lambda b: memoryview(bytearray(b))),
    'mvbytes': (False, lambda b: memoryview(bytes(b))),
    'npu8': (True, lambda b: np.frombuffer(bytearray(b), dtype=np.uint8)),
    'nparr': (True, lambda b: np.array(list(b), dtype=np.uint8)),
    'npvoid': (True, lambda b: np.frombuffer(bytearray(b), dtype='V1')),
    'npro': (False, lambda b: np.frombuffer(bytes(b), dtype=np.uint8)),
    'array': (True, _mk_array),
    'mmap': (True, _mk_mmap),
    'bytesio': (True, lambda b: __import__('io').BytesIO(bytes(b))),      # a file object: from_fileobj only
}
MGH_KINDS = ('bytes', 'bytearray', 'mmap')       # MGHHeader slices and concatenates its block: `bytes`-like API needed
MEM_VIEWS = {'mv': 0, 'np': 0, 'ro': 1, 'npro': 1}     # view kind -> read-only flag


def _is_file(x):
    import io
    return isinstance(x, io.BytesIO)


def _raw(x):
    return x.getbuffer() if _is_file(x) else x


def mem_view(x, vk):
    """A second container on the SAME memory as `x`."""
    if vk == 'mv':
        return memoryview(_raw(x)).cast('B')
    if vk == 'ro':
        return memoryview(_raw(x)).cast('B').toreadonly()
    a = np.frombuffer(_raw(x), dtype=np.uint8)
    if vk == 'npro':
        a = a.view()
        a.flags.writeable = False
    return a


def mem_bytes(x):
    if _is_file(x):
        return x.getvalue()
    if isinstance(x, np.ndarray):
        return x.tobytes()
    return bytes(x)


def mem_poke(x, off, bs):
    import array
    n = len(bs)
    if _is_file(x):
        x.getbuffer()[off:off + n] = bs
    elif isinstance(x, np.ndarray):
        x.view(np.uint8)[off:off + n] = np.frombuffer(bs, dtype=np.uint8)
    elif isinstance(x, array.array):
        x[off:off + n] = array.array('B', bs)
    else:
        x[off:off + n] = bs


def _tok_ok(sp):
    return sp is not None and not any(ch in sp for ch in ',: ')


def mem_tokens(script):
    toks = []
    for st in script:
        o = st[0]
        if o == 'A':
            toks.append(f'A{int(MEM_KINDS[st[1]][0])}:{st[2] or "-"}')
        elif o == 'V':
            toks.append(f'V{st[1]}:{MEM_VIEWS[st[2]]}')
        elif o == 'P':
            toks.append(f'P{st[1]}:{st[2]}:{st[3] or "-"}')
        elif o == 'C':
            toks.append(f'C{st[1]}:{st[2]}')
        elif o == 'F':
            toks.append(f'F{st[1]}:{st[2]}:{st[3]}')
        elif o in 'BKHX':
            toks.append(f'{o}{st[1]}')
        elif o == 'Y':
            toks.append(f'Y{st[1]}:{"_" if st[2] is None else st[2]}')
        elif o == 'S':
            toks.append(f'S{st[1]}:{st[2]}:' + '/'.join(str(int(x)) for x in st[3]))
        else:
            raise ValueError(st)
    return toks


def mk_mem(cls, script, stream='mem'):
    """A history over caller-side containers and headers of class `cls`:
    ['A', kind, hex] new container | ['V', b, viewkind] second container on the memory of b | ['P', b, off, hex] write
    through b | ['C', b, e] Klass(b, e, check=False) ('?' = guess) | ['F', b, off, e] b.seek(off); Klass.from_fileobj(b, e) |
    ['B', h] h.binaryblock kept as a container | ['S', h, field, patterns] h[field] = items | ['K', h] copy |
    ['H', h] Klass.from_header(h) | ['Y', h, to] as_byteswapped(to) | ['X', h] check_fix(error_level=1000)."""
    script = [list(st) for st in script]
    toks = mem_tokens(script)
    line = f'C10 mem {cls} {NATIVE} {",".join(toks)}'
    data = {'op': 'mem', 'cls': cls, 'script': script, 'stream': stream}
    return Case(line, data, ('mem', cls, _sha(line.encode())), stream)


def _mem_snapshot(bufs, hdrs):
    return ([('b%d' % i, mem_bytes(x).hex() or '-') for i, x in enumerate(bufs)] +
            [('h%d' % i, '%s:%s' % (h.endianness, h.binaryblock.hex() or '-')) for i, h in enumerate(hdrs)])


def impl_mem(case):
    d = case.data
    cls = d['cls']
    K = classes()[cls]
    bufs, hdrs = [], []
    snaps = [[]]
    out = []
    ex = {'bufs': bufs, 'hdrs': hdrs, 'snaps': snaps, 'exc': None}
    case.extra = ex
    earg = lambda e: None if e == '?' else e
    for st in d['script']:
        o = st[0]
        try:
            if o == 'A':
                bufs.append(MEM_KINDS[st[1]][1](b'' if not st[2] else bytes.fromhex(st[2])))
            elif o == 'V':
                bufs.append(mem_view(bufs[st[1]], st[2]))
            elif o == 'P':
                mem_poke(bufs[st[1]], st[2], bytes.fromhex(st[3]) if st[3] else b'')
            elif o == 'C':
                hdrs.append(K(bufs[st[1]], check=False) if cls == 'mgh' else K(bufs[st[1]], earg(st[2]), check=False))
            elif o == 'F':
                bufs[st[1]].seek(st[2])
                hdrs.append(K.from_fileobj(bufs[st[1]], endianness=earg(st[3]), check=False))
            elif o == 'B':
                bufs.append(hdrs[st[1]].binaryblock)
            elif o == 'S':
                _set_items(hdrs[st[1]], K, st[2], st[3])
            elif o == 'K':
                hdrs.append(hdrs[st[1]].copy())
            elif o == 'H':
                hdrs.append(K.from_header(hdrs[st[1]], check=False))
            elif o == 'Y':
                hdrs.append(hdrs[st[1]].as_byteswapped() if st[2] is None else hdrs[st[1]].as_byteswapped(st[2]))
            elif o == 'X':
                hdrs[st[1]].check_fix(logger=_quiet, error_level=1000)
            else:
                raise ValueError(st)
        except OverflowError:
            ex['exc'] = 'OverflowError'
            return 'ERR:OverflowError'
        except Exception as exn:      # noqa: BLE001 - any failure of a step is an observable
            ex['exc'] = f'{type(exn).__name__}: {exn}'
            out.append('ERR')
            break
        snap = _mem_snapshot(bufs, hdrs)
        old = set(snaps[-1])
        ch = [x for x in snap if x not in old]
        out.append(';'.join(f'{n}={v}' for n, v in ch) if ch else '-')
        snaps.append(snap)
    return '|'.join(out)


def expect_ctor_bytes(cls, K, bs):
    """What a header of class `cls` built from the block `bs` must serialise to (MGH: padded / truncated to the
    full size, orientation fields replaced by the documented defaults when goodRASFlag == 0)."""
    if cls != 'mgh':
        return bs
    size = K.template_dtype.itemsize
    expect = bs[:size] + b'\x00' * (size - len(bs))
    lay = {f[0]: f for f in layout_of(K)}
    o = lay['goodRASFlag'][1]
    if expect[o:o + 2] == b'\x00\x00':
        b = bytearray(expect)
        b[o:o + 2] = b'\x00\x01'
        for name, vals in (('delta', [1, 1, 1]), ('Mdc', [-1, 0, 0, 0, 0, 1, 0, -1, 0]), ('Pxyz_c', [0, 0, 0])):
            oo = lay[name][1]
            b[oo:oo + 4 * len(vals)] = b''.join(struct.pack('>f', v) for v in vals)
        expect = bytes(b)
    return expect


def oracle_mem(case, out):
    """Independence stated on the real objects, step by step: an operation changes the ONE object it is applied to
    (a write through a container: the containers the caller itself made on that memory) and creates at most one new
    object with the expected bytes; a header is built from the bytes its block holds at that moment and never follows
    the block afterwards, never shares state with another header and never writes into the caller's memory."""
    d = case.data
    cls = d['cls']
    K = classes()[cls]
    ex = case.extra
    if out.startswith('ERR:OverflowError'):
        return None           # stated exclusion (vox_offset = -inf in check_fix), see oracle_chk
    snaps = ex['snaps']
    lay = {f[0]: f for f in layout_of(K)}
    group = []                # memory group of every container, as the CALLER built them
    for t, st in enumerate(d['script']):
        o = st[0]
        what = mem_tokens([st])[0][:40]
        if t + 1 >= len(snaps):
            return f'{cls}: step {t} ({what}) of the history raised {ex["exc"]}'
        before, after = dict(snaps[t]), dict(snaps[t + 1])
        nb_, nh_ = len(group), sum(1 for k in before if k[0] == 'h')
        changed = sorted(k for k in before if after.get(k) != before[k])
        created = sorted(k for k in after if k not in before)
        hb = lambda k: bytes.fromhex(before[k].split(':')[1].replace('-', ''))
        bb = lambda k: bytes.fromhex(before[k].replace('-', ''))
        tag = f'{cls}: step {t} ({what})'
        allowed, want_new = set(), None
        if o == 'A':
            group.append(max(group, default=-1) + 1)
            want_new = ('b%d' % nb_, (st[2] or '-'))
        elif o == 'V':
            group.append(group[st[1]])
            want_new = ('b%d' % nb_, before['b%d' % st[1]])
        elif o == 'B':
            group.append(max(group, default=-1) + 1)
            want_new = ('b%d' % nb_, before['h%d' % st[1]].split(':')[1])
        elif o == 'P':
            bs = bytes.fromhex(st[3]) if st[3] else b''
            for k in range(nb_):
                if group[k] == group[st[1]]:
                    allowed.add('b%d' % k)
                    old = bb('b%d' % k)
                    want = old[:st[2]] + bs + old[st[2] + len(bs):]
                    if bytes.fromhex(after['b%d' % k].replace('-', '')) != want:
                        return f'{tag}: container b{k} on the written memory does not hold the written bytes'
            hs = [k for k in changed if k[0] == 'h']
            if hs:
                return (f'{tag}: the caller overwriting ITS buffer changed header {hs[0]} — the header is not independent '
                        f'of the block it was built from (history {mem_tokens(d["script"][:t + 1])[1:]}, container kinds '
                        f'{[s[1] for s in d["script"] if s[0] == "A"]})')
        elif o in 'CF':
            src = bb('b%d' % st[1])
            blk = src if o == 'C' else src[st[2]:st[2] + K.template_dtype.itemsize]
            e = st[2] if o == 'C' else st[3]
            want_e = '>' if cls == 'mgh' else (None if e == '?' else resolve(e))
            got_e, got = after.get('h%d' % nh_, ':').split(':')
            if created != ['h%d' % nh_]:
                return f'{tag}: expected exactly one new header, got {created}'
            if bytes.fromhex(got.replace('-', '')) != expect_ctor_bytes(cls, K, blk):
                return f'{tag}: the header built from the block serialises to different bytes'
            if want_e is not None and got_e != want_e:
                return f'{tag}: built with endianness {e!r} (= {want_e}) but reports {got_e}'
        elif o == 'S':
            h = 'h%d' % st[1]
            allowed.add(h)
            n, off, isz, cnt, kind = lay[st[2]]
            order = 'little' if before[h][0] == '<' else 'big'
            old = hb(h)
            want = old[:off] + b''.join(int(p).to_bytes(isz, order) for p in st[3]) + old[off + isz * cnt:]
            if after[h] != before[h][0] + ':' + want.hex():
                return f'{tag}: assigning field {st[2]} did not produce the expected bytes'
        elif o == 'X':
            allowed.add('h%d' % st[1])
        elif o in 'KHY':
            h = 'h%d' % st[1]
            e0 = before[h][0]
            tgt = e0 if o in 'KH' else (SWAPPED if e0 == NATIVE else NATIVE) if st[2] is None else resolve(st[2])
            wantb = hb(h) if tgt == e0 else own_swap(hb(h), K)
            if created != ['h%d' % nh_]:
                return f'{tag}: expected exactly one new header, got {created}'
            if after['h%d' % nh_] != tgt + ':' + wantb.hex():
                return f'{tag}: the new header does not hold the {"same" if tgt == e0 else "byte-swapped"} bytes in order {tgt}'
            if ex['hdrs'][nh_] is ex['hdrs'][st[1]]:
                return f'{tag}: returned the same object'
        if want_new is not None:
            if created != [want_new[0]] or after[want_new[0]] != want_new[1]:
                return f'{tag}: new container does not hold the expected bytes'
        bad = [k for k in changed if k not in allowed]
        if bad:
            k = bad[0]
            kindtxt = 'the caller\'s container' if k[0] == 'b' else 'header'
            return (f'{tag}: changed {kindtxt} {k}, an object the operation was not applied to — objects are not '
                    f'independent (history {mem_tokens(d["script"][:t + 1])[1:]}, container kinds '
                    f'{[s[1] for s in d["script"] if s[0] == "A"]})')
    return None


# ------------------------------------------------------------------ NIfTI headers carrying extensions (oracle only)

NIFTI_CLASSES = ['nifti1', 'nifti1pair', 'nifti2', 'nifti2pair']


def mk_ext(cls, e, bs, exts, stream='ext', to=None):
    """A NIfTI header with a list of extensions [(code, content hex)]: copy(), as_byteswapped (same order, other
    order, no argument), from_header to every Analyze-family class."""
    data = {'op': 'ext', 'cls': cls, 'e': e, 'hex': bs.hex(), 'exts': [[int(c), h] for c, h in exts], 'stream': stream,
            'to': to}           # spelling of the OTHER byte order handed to as_byteswapped
    return Case(None, data, ('ext', cls, e, _sha(bs), tuple((int(c), h) for c, h in exts)) if exts else None, stream)


def _ext_list(h):
    return [(int(x.get_code()), bytes(x.get_content())) for x in getattr(h, 'extensions', [])]


def impl_ext(case):
    d = case.data
    Ks = classes()
    K = Ks[d['cls']]
    X = nb()['nifti1'].Nifti1Extension
    src = K(bytes.fromhex(d['hex']), d['e'], check=False,
            extensions=[X(c, bytes.fromhex(h)) for c, h in d['exts']])
    other = SWAPPED if src.endianness == NATIVE else NATIVE
    res = {'copy': src.copy(), 'same': src.as_byteswapped(src.endianness), 'swap': src.as_byteswapped(),
           'swapto': src.as_byteswapped(d.get('to') or other)}
    from nibabel.spatialimages import HeaderDataError
    for dst in ANALYZE_FAMILY:
        try:
            res['to-' + dst] = Ks[dst].from_header(src, check=False)
        except HeaderDataError:       # dtype / dimension the target cannot hold: the fromhdr stream judges that
            pass
    case.extra = {'src': src, 'res': res}
    show = lambda h: '[' + ','.join(f'{c}:{b.hex() or "-"}' for c, b in _ext_list(h)) + ']'
    return f'src={show(src)} ' + ' '.join(f'{k}={show(v)}' for k, v in res.items())


def oracle_ext(case, out):
    d = case.data
    ex = case.extra
    src, res = ex['src'], ex['res']
    want = [(int(c), bytes.fromhex(h)) for c, h in d['exts']]
    if _ext_list(src) != want:
        return f'{d["cls"]}: header constructed with extensions {d["exts"]} reports {_ext_list(src)}'
    for k, h in res.items():
        nifti_target = k in ('copy', 'same', 'swap', 'swapto') or k[3:] in NIFTI_CLASSES
        if nifti_target and _ext_list(h) != want:
            return (f'{d["cls"]} endian {d["e"]}: {k}: the extensions of the source header '
                    f'({[c for c, _ in want]}) became {[c for c, _ in _ext_list(h)]}')
        if nifti_target and h.extensions is src.extensions:
            return f'{d["cls"]}: {k}: the new header shares the extension LIST object with the source'
    # the lists are independent: dropping the copy's extensions leaves the original's
    c = res['copy']
    del c.extensions[:]
    if _ext_list(src) != want:
        return f'{d["cls"]}: emptying the extension list of a copy changed the original (copies are not independent)'
    if src.binaryblock != bytes.fromhex(d['hex']):
        return f'{d["cls"]}: copying / converting a header with extensions changed its bytes'
    for k in ('swap', 'swapto'):
        if res[k].endianness == src.endianness or not (res[k] == src):
            return f'{d["cls"]}: {k}: byte-swapped copy of a header with extensions has the same order / does not compare equal'
        del res[k].extensions[:]
        if _ext_list(src) != want:
            return f'{d["cls"]}: emptying the extension list of the byte-swapped copy changed the original'
    return None


class _Rec:
    """Recording logger: what `Report.log_raise` hands to `logger.log`."""

    def __init__(self):
        self.recs = []

    def log(self, level, msg, *a, **k):
        self.recs.append((int(level), str(msg)))


def logged_token(msg):
    """(token, fix flag) of a logged `report.message` = problem_msg [+ '; ' + fix_msg]."""
    if msg == '':
        return '-', 0
    for pat, tok in MSG_TOKENS[1:]:
        core = pat[1:-1]
        if re.fullmatch(core, msg, flags=re.S):
            return tok, 0
        if re.fullmatch(core + '; .+', msg, flags=re.S):
            return tok, 1
    return 'other(' + msg.replace(' ', '_')[:60] + ')', 0


def canon_logged(recs):
    return '[' + ','.join('%d:%s:%d' % ((lvl,) + logged_token(msg)) for lvl, msg in recs) + ']'


def impl_pfix(case):
    d = case.data
    cls, e = d['cls'], d['e']
    K = classes()[cls]
    bs = b'' if d['hex'] == '-' else bytes.fromhex(d['hex'])
    from nibabel.wrapstruct import WrapStructError
    from nibabel.spatialimages import HeaderDataError
    from nibabel import imageglobals as ig
    BatteryRunner = nb()['batteryrunners'].BatteryRunner
    blk = wrap_block(d.get('ck'), bs)
    try:
        h = make_hdr(cls, e, blk)
    except WrapStructError:
        return 'ERR:WrapStructError'
    except KeyError:
        return 'ERR:KeyError'
    br = BatteryRunner(K._get_checks())
    bb0 = h.binaryblock
    steps = []
    ex = {'bb0': bb0, 'K': K, 'steps': steps, 'blk': blk}
    case.extra = ex
    old_logger = ig.logger
    ex['level_before'] = ig.error_level
    try:
        with ig.ErrorLevel(d['glob']):
            ex['level_inside'] = ig.error_level
            for lvl in d['lvls']:
                pre = [(int(r.problem_level), r.problem_msg) for r in br.check_only(h)]
                rec = _Rec()
                raised = None
                try:
                    if d.get('lg') == 'glob':
                        ig.logger = rec
                        h.check_fix(error_level=lvl)
                    else:
                        h.check_fix(logger=rec, error_level=lvl)
                except HeaderDataError as exn:
                    raised = exn
                finally:
                    ig.logger = old_logger
                steps.append({'pre': pre, 'recs': rec.recs, 'raised': raised, 'bb': h.binaryblock,
                              'eff': d['glob'] if lvl is None else lvl, 'lvl': lvl})
            ro = br.check_only(h)
            ex['ro'] = ro
            rec = _Rec()
            ig.logger = rec
            try:
                hc = K(bs, check=True) if cls == 'mgh' else K(bs, endianness=e, check=True)
                ex['ctor'] = hc.binaryblock
                ctor = 'ok:%d' % int(hc.binaryblock == steps[0]['bb'])
            except HeaderDataError:
                ex['ctor'] = None
                ctor = 'ERR:%d' % (len(rec.recs) - 1)
            finally:
                ig.logger = old_logger
            diag = K.diagnose_binaryblock(bs) if cls == 'mgh' else K.diagnose_binaryblock(bs, e)
    except OverflowError:
        ig.logger = old_logger
        return 'ERR:OverflowError'
    ex['diag'] = [ln for ln in diag.split('\n') if ln]
    ex['level_after'] = ig.error_level
    bb1 = steps[0]['bb']
    ss = ';'.join(('R%d' % (len(st['recs']) - 1) if st['raised'] is not None else 'ok') + '/' + canon_logged(st['recs']) +
                  '/%d' % int(st['bb'] == bb1) for st in steps)
    return (f'bb1={bb1.hex()} steps={ss} ro={canon_reports(ro)} ctor={ctor} '
            f'diag=[{",".join(logged_token(ln)[0] for ln in ex["diag"])}]')


def impl_simple(case):
    d = case.data
    op, a = d['op'], d['args']
    m = nb()
    if op == 'dt':
        rec = {'analyze': m['analyze'].data_type_codes, 'nifti1': m['nifti1'].data_type_codes}[a[0]]
        code = int(a[1])
        try:
            dt = np.dtype(rec.dtype[code])
        except KeyError:
            return 'none'
        s = np.dtype(rec.sw_dtype[code])
        rev = 'void' if dt.itemsize == 0 else str(int(rec.code[dt]))
        return f'{dt.kind} {dt.itemsize} {s.kind} {s.itemsize} {int(dt.isnative != s.isnative)} {rev}'
    if op == 'codec':
        e, w, v = a[0], int(a[1]), int(a[2])
        order, other = ('little', 'big') if e == '<' else ('big', 'little')
        bs = (v % 256 ** w).to_bytes(w, order)
        sg = int.from_bytes(bs, order, signed=True) if w else 0
        return f'{bs.hex() or "-"} {int.from_bytes(bs, order)} {int.from_bytes(bs, other)} {sg} {sg % 256 ** w}'
    if op == 'fhpix':
        fmt, nd, pix = a[0], int(a[1]), [int(x) for x in a[2].split(',')]
        Ks = classes()
        S, D, ut = (Ks['nifti1'], Ks['nifti1pair'], '<u4') if fmt == 'f32' else (Ks['nifti2'], Ks['nifti2pair'], '<u8')
        src = S(endianness='<')
        src.set_data_shape((2,) * nd)
        src['pixdim'] = np.array(pix, dtype=ut).view(ut.replace('u', 'f'))
        dst = D.from_header(src, check=False)
        return '[' + ','.join(str(int(x)) for x in np.asarray(dst['pixdim']).astype(ut.replace('u', 'f')).view(ut)) + ']'
    if op == 'fdec':
        fmt, p = a[0], int(a[1])
        if fmt == 'i64':
            v = int.from_bytes(p.to_bytes(8, 'little'), 'little', signed=True)
            return f'{int(v == 0)}{int(v < 352)}{int(v < 544)}{int(not v % 16)}0'
        ft, ut, n = ('<f4', '<u4', 4) if fmt == 'f32' else ('<f8', '<u8', 8)
        arr = np.frombuffer(p.to_bytes(n, 'little'), dtype=ft).copy()
        x = arr[0]
        with np.errstate(all='ignore'):
            flags = f'{int(np.isnan(x))}{int(x == 0)}{int(x < 0)}{int(x <= 0)} {int(np.abs(arr).view(ut)[0])} {int(x == 1)}{int(x == -1)}'
            v = x.item()
            return flags + f' {int(v == 0)}{int(v < 352)}{int(v < 544)}{int(not v % 16)}{int(v == float("-inf"))}'
    raise ValueError(op)


def impl(case):
    op = case.data['op']
    if op == 'hdr':
        return impl_hdr(case)
    if op == 'chk':
        return impl_chk(case)
    if op == 'pfix':
        return impl_pfix(case)
    if op == 'world':
        return impl_world(case)
    if op == 'mem':
        return impl_mem(case)
    if op == 'ext':
        return impl_ext(case)
    if op == 'fromhdr':
        return impl_fromhdr(case)
    return impl_simple(case)


def impl_fromhdr(case):
    d = case.data
    Ks = classes()
    S, D = Ks[d['cls']], Ks[d['dst']]
    from nibabel.spatialimages import HeaderDataError
    src = make_hdr(d['cls'], d['e'], bytes.fromhex(d['hex']))
    bb_src = src.binaryblock
    try:
        dst = D.from_header(src, check=d['check'])
    except HeaderDataError as ex:
        case.extra = {'src': src, 'exc': ex, 'bb_src': bb_src}
        return 'ERR:HeaderDataError'
    case.extra = {'src': src, 'dst': dst, 'bb_src': bb_src}
    if case.line is None:
        return f'ok {type(dst).__name__} {dst.endianness}'
    return fromhdr_observable(S, D, src, dst)


OVERWRITTEN = ('datatype', 'bitpix', 'dim', 'pixdim')


def _native(a):
    a = np.asarray(a)
    return a.astype(a.dtype.newbyteorder('=')) if a.dtype.kind != 'S' else a


def fromhdr_observable(S, D, src, dst):
    """Where every field of the converted header comes from: c = NumPy cast of the same-named source field,
    d = target default, o = written by the setters (then its value is printed), x = anything else."""
    sd, dd = S.template_dtype, D.template_dtype
    dflt = D()
    over = set(OVERWRITTEN) | ({'magic'} if 'magic' in dd.names else set())
    prov = []
    for n in dd.names:
        if n in over:
            prov.append('o')
            continue
        got = _native(dst[n]).tobytes()
        tag = 'x'
        if n in sd.names:
            try:
                with np.errstate(all='ignore'):
                    want = np.asarray(src[n]).astype(dd[n].base.newbyteorder('=') if dd[n].base.kind != 'S' else dd[n].base)
                if want.shape == np.asarray(dst[n]).shape and want.tobytes() == got:
                    tag = 'c'
            except (ValueError, TypeError):
                pass
        if tag == 'x' and got == _native(dflt[n]).tobytes():
            tag = 'd'
        prov.append(tag)
    ft = dd['pixdim'].base.newbyteorder('=')
    with np.errstate(all='ignore'):
        sp = np.asarray(src['pixdim']).astype(ft)
    dp = _native(dst['pixdim'])
    ut = ft.str.replace('f', 'u')
    pix = ''.join('c' if sp.view(ut)[i] == dp.view(ut)[i] else ('1' if dp[i] == 1 else 'x') for i in range(8))
    magic = (np.asarray(dst['magic']).tobytes().rstrip(b'\x00').hex() or '-') if 'magic' in dd.names else '-'
    dim = ','.join(str(int(x)) for x in np.asarray(dst['dim']))
    pixv = '-'
    if sd['pixdim'].base.itemsize == dd['pixdim'].base.itemsize:     # same float width: exact bit patterns
        pixv = '[' + ','.join(str(int(x)) for x in dp.view(ut)) + ']'
    return (f'dt={int(dst["datatype"])}/{int(dst["bitpix"])} dim=[{dim}] pix={pix} pixv={pixv} magic={magic} '
            f'prov={"".join(prov)}')


# ------------------------------------------------------------------ building headers through the public setters

STRUCTURAL = {'sizeof_hdr', 'dim', 'datatype', 'bitpix', 'pixdim', 'vox_offset', 'magic', 'qform_code', 'sform_code',
              'eol_check', 'origin', 'version', 'goodRASFlag', 'sw_version', 'dims', 'type', 'delta', 'scl_slope',
              'scl_inter', 'quatern_b', 'quatern_c', 'quatern_d', 'qoffset_x', 'qoffset_y', 'qoffset_z',
              'srow_x', 'srow_y', 'srow_z', 'dim_info', 'intent_code', 'intent_p1', 'intent_p2', 'intent_p3',
              'intent_name', 'xyzt_units', 'slice_duration', 'slice_start', 'slice_end', 'slice_code', 'Mdc', 'Pxyz_c'}


def rand_affine(rng):
    # signed permutation x positive dyadic zooms + integer translation: exactly representable
    perm = list(range(3))
    rng.shuffle(perm)
    aff = np.zeros((4, 4))
    for i, p in enumerate(perm):
        aff[i, p] = rng.choice([-1, 1]) * rng.choice([0.5, 1, 1.5, 2, 3.25])
    aff[:3, 3] = [rng.randrange(-100, 100) for _ in range(3)]
    aff[3, 3] = 1
    return aff


def supported_dtypes(K):
    codes = K._data_type_codes
    out = []
    for code in sorted(codes.value_set()):
        try:
            dt = np.dtype(codes.dtype[code]) if hasattr(codes, 'dtype') else None
        except Exception:
            dt = None
        if dt is None:
            dt = np.dtype(codes.numpy_dtype[code])
        if dt.itemsize > 0:
            out.append(dt)
    return out


def build_header(rng, cls, e):
    """A header of class `cls` in byte order `e`, populated through the public API."""
    K = classes()[cls]
    if cls == 'mgh':
        h = K()
        nd = rng.choice([3, 3, 4])
        h.set_data_shape(tuple(rng.randrange(1, 300) for _ in range(nd)))
        h.set_zooms(tuple(rng.choice([0.5, 1, 1.25, 2, 3]) for _ in range(3)))
        h.set_data_dtype(rng.choice(supported_dtypes(K)))
        if rng.random() < 0.7:
            aff = rand_affine(rng)
            h['Mdc'] = aff[:3, :3].T / np.sqrt((aff[:3, :3] ** 2).sum(0))[:, None]
            h['Pxyz_c'] = aff[:3, 3]
        h['dof'] = rng.randrange(-5, 1000)
        for n in ('tr', 'flip_angle', 'te', 'ti', 'fov'):
            if rng.random() < 0.5:
                h[n] = rng.choice([0, 1.5, 2000, 0.25])
        return h
    if cls == 'ecat':
        h = K(endianness=spell(rng, e))
        for n, val in (('num_frames', rng.randrange(0, 50)), ('file_type', rng.randrange(0, 15)),
                       ('num_planes', rng.randrange(0, 64)), ('ecat_calibration_factor', rng.choice([1, 0.5, 1234.5])),
                       ('patient_orientation', rng.randrange(0, 9)), ('scan_start_time', rng.randrange(0, 2 ** 31))):
            if rng.random() < 0.8:
                h[n] = val
        return h
    h = K(endianness=spell(rng, e))
    if h.endianness != e:
        raise AssertionError(f'{cls}(endianness=<spelling of {e}>) has endianness {h.endianness}')
    nd = rng.choice([0, 1, 2, 3, 3, 3, 4, 4, 5, 6, 7])
    h.set_data_shape(tuple(rng.choice([1, 2, 3, 17, 64, 256, 1000]) for _ in range(nd)))
    h.set_zooms(tuple(rng.choice([0.5, 1, 1.25, 2, 3, 0.1, 2.7]) for _ in range(nd)))
    h.set_data_dtype(rng.choice(supported_dtypes(K)))
    if rng.random() < 0.5:
        try:
            h.set_slope_inter(rng.choice([None, 1, 2, 0.5, -3]), rng.choice([None, 0, 10, -0.25]))
        except Exception:
            pass
    if cls.startswith('spm') and rng.random() < 0.6:
        h.set_origin_from_affine(rand_affine(rng))
    if cls.startswith('nifti'):
        if rng.random() < 0.7:
            h.set_qform(rand_affine(rng), code=rng.choice([1, 2, 3, 4, 'scanner', 'mni']))
        if rng.random() < 0.7:
            h.set_sform(rand_affine(rng), code=rng.choice([0, 1, 2, 3, 4, 5]))
        if rng.random() < 0.4 and nd >= 3:
            fps = [0, 1, 2]
            rng.shuffle(fps)
            h.set_dim_info(*[rng.choice([None, v]) for v in fps])
        if rng.random() < 0.4:
            if rng.random() < 0.5:
                h.set_intent(rng.choice(['none', 'correlation', 'vector']), (), name=rng.choice(['', 'abc', 'intent name']))
            else:
                h.set_intent('t test', (rng.choice([1.0, 7.5, 12]),), 'x')
        if rng.random() < 0.4:
            h.set_xyzt_units(rng.choice(['mm', 'meter', 'micron', None]), rng.choice(['sec', 'msec', None]))
        if rng.random() < 0.3:
            h.set_slice_duration(rng.choice([0.5, 2, 0.1])) if nd >= 3 and h.get_dim_info()[2] is not None else None
        if rng.random() < 0.5:
            sv = h.single_vox_offset
            h.set_data_offset(rng.choice([0, sv, sv + 16, sv + 160, 4096]) if h.is_single else rng.choice([0, 16, 160, 4096]))
    else:
        if rng.random() < 0.3:
            h.set_data_offset(rng.choice([0, 16, 512, 4096]))
    return h


def fill_free(rng, K, bb, p=0.6):
    """Arbitrary byte patterns in the fields no setter, check or guess uses."""
    out = bytearray(bb)
    for n, off, isz, cnt, kind in layout_of(K):
        if n in STRUCTURAL or rng.random() > p:
            continue
        ln = isz * cnt
        r = rng.random()
        if r < 0.5:
            out[off:off + ln] = bytes(rng.getrandbits(8) for _ in range(ln))
        elif r < 0.7:
            out[off:off + ln] = bytes([0xFF]) * ln
        elif r < 0.85:
            txt = bytes(rng.choice(b'abcXYZ 09\x00\n\xff') for _ in range(rng.randrange(0, ln + 1)))
            out[off:off + ln] = txt + b'\x00' * (ln - len(txt))
        else:
            out[off:off + ln] = bytes(ln)
    return bytes(out)


F32_POOL = [0, 0x80000000, 0x3F800000, 0xBF800000, 0x7F800000, 0xFF800000, 0x7FC00000, 0xFFC00001, 0x7F800001,
            1, 0x80000001, 0x007FFFFF, 0x00800000, 0x43B00000, 0x43B08000, 0x43AF8000, 0x41800000, 0x41880000,
            0x44080000, 0x40000000, 0xC0000000, 0x3FC00000, 0x4B800000, 0x7F7FFFFF, 0xFF7FFFFF, 0xC3B00000, 0x45800000]
F64_POOL = [0, 1 << 63, 0x3FF0000000000000, 0xBFF0000000000000, 0x7FF0000000000000, 0xFFF0000000000000,
            0x7FF8000000000000, 0xFFF8000000000001, 0x7FF0000000000001, 1, (1 << 63) + 1, 0x000FFFFFFFFFFFFF,
            0x0010000000000000, 0x4076000000000000, 0x4081000000000000, 0x4030000000000000, 0x4000000000000000,
            0xC000000000000000, 0x3FF8000000000000, 0x7FEFFFFFFFFFFFFF, 0xFFEFFFFFFFFFFFFF]
LEVEL_POOL = [-5, 0, 1, 5, 10, 11, 20, 21, 25, 30, 31, 35, 36, 40, 41, 45, 46, 50, 1000]
I64_POOL = [0, 1, 15, 16, 17, 352, 543, 544, 545, 560, 4096, 2 ** 63 - 1, 2 ** 64 - 1, 2 ** 64 - 16, 2 ** 63, 2 ** 64 - 544]


def rand_pattern(rng, isz, kind):
    if kind == 'f' and isz == 4:
        return rng.choice(F32_POOL) if rng.random() < 0.8 else rng.getrandbits(32)
    if kind == 'f' and isz == 8:
        return rng.choice(F64_POOL) if rng.random() < 0.8 else rng.getrandbits(64)
    if isz == 8:
        return rng.choice(I64_POOL) if rng.random() < 0.8 else rng.getrandbits(64)
    return rng.getrandbits(8 * isz)


def put_item(buf, fields, e, name, i, pattern):
    n, off, isz, cnt, kind = fields[name]
    order = 'little' if e == '<' else 'big'
    buf[off + i * isz: off + (i + 1) * isz] = int(pattern % 256 ** isz).to_bytes(isz, order)


def f32bits(x):
    return struct.unpack('<I', struct.pack('<f', x))[0]


def f64bits(x):
    return struct.unpack('<Q', struct.pack('<d', x))[0]


def defect_table(cls, K):
    """name -> function(rng, h) seeding one defect through hdr[field] = value."""
    D = {}
    names = K.template_dtype.names
    checks = [f.__name__ for f in K._get_checks()]
    if '_chk_sizeof_hdr' in checks:
        D['sizeof_hdr'] = lambda rng, h: h.__setitem__('sizeof_hdr', rng.choice([0, 347, 349, 540 if K.sizeof_hdr != 540 else 348, -1, 1543569408, 470941696]))
    if '_chk_datatype' in checks:
        D['datatype'] = lambda rng, h: h.__setitem__('datatype', rng.choice([0, 1, 255, 3, 5, -1, 1536, 2048, 3000, 257]))
    if '_chk_bitpix' in checks:
        D['bitpix'] = lambda rng, h: h.__setitem__('bitpix', rng.choice([0, 1, 7, 8, 16, 24, 32, 64, 128, -8]))
    if '_chk_pixdims' in checks:
        def pneg(rng, h):
            for k in rng.sample([1, 2, 3], rng.randrange(1, 4)):
                h['pixdim'][k] = -abs(float(h['pixdim'][k])) if rng.random() < 0.7 else rng.choice([-1, -2.5, -np.inf])
        def pzero(rng, h):
            for k in rng.sample([1, 2, 3], rng.randrange(1, 4)):
                h['pixdim'][k] = rng.choice([0.0, -0.0])
        D['pixdim-neg'] = pneg
        D['pixdim-zero'] = pzero
    if '_chk_qfac' in checks:
        D['qfac'] = lambda rng, h: h['pixdim'].__setitem__(0, rng.choice([0, 2, -2, 0.5, -0.0, np.nan, 1.0000001]))
    if '_chk_magic' in checks:
        D['magic'] = lambda rng, h: h.__setitem__('magic', rng.choice([b'', b'nx1', b'n+1x', b'ni3', b'N+1', b'n+\x001', b'\x00n+1', b'n+', K.single_magic[:2] + b'9']))
    if '_chk_offset' in checks:
        sv = K.single_vox_offset
        def off(rng, h):
            if rng.random() < 0.5:
                h['magic'] = K.single_magic
                h['vox_offset'] = rng.choice([1, 16, sv - 1, sv - 16, sv // 2, -16, -1])
            else:
                if rng.random() < 0.5:
                    h['magic'] = K.pair_magic
                h['vox_offset'] = rng.choice([sv + 1, sv + 8, sv + 17, 1000, 4097] + ([sv + 0.5, 360.25] if 'f' in h['vox_offset'].dtype.str else []))
        D['offset'] = off
    if '_chk_qform_code' in checks:
        D['qform_code'] = lambda rng, h: h.__setitem__('qform_code', rng.choice([6, 7, -1, 100, 32767]))
        D['sform_code'] = lambda rng, h: h.__setitem__('sform_code', rng.choice([6, 9, -2, 255]))
    if '_chk_eol_check' in checks:
        D['eol_check'] = lambda rng, h: h.__setitem__('eol_check', rng.choice([(0, 0, 0, 0), (13, 10, 26, 0), (10, 10, 26, 10), (13, 10, 10, 10), (0, 0, 0, 1), (-1, -1, -1, -1)]))
    if '_chk_origin' in checks:
        def org(rng, h):
            h['origin'][:3] = [rng.choice([-32768, -1000, -1, 0, 1, 5, 600, 3000, 32767]) for _ in range(3)]
            if rng.random() < 0.3:
                h['dim'][1:4] = [rng.choice([1, 2, 300, 16383, 16384, 20000, 32767, -32768, -1, 0]) for _ in range(3)]
        D['origin'] = org
    if 'chk_version' in checks:
        D['version'] = lambda rng, h: h.__setitem__('version', rng.choice([0, 2, -1, 16777216]))
    return D


def _sha(bs):
    import hashlib
    return hashlib.sha1(bs).hexdigest()[:12]


def gen_mem_history(rng, cls, e, kind, n_tail, defect=False):
    """One history for class `cls` / byte order `e` whose first container is of kind `kind` and holds a populated
    header block; a header is built from it at once, then `n_tail` operations drawn from everything a caller can do
    with the containers (view, overwrite — whole block with the NEXT record, one field, one byte —, build further
    headers from the same or another block in either order or guessed, read through a file object) and with the
    headers (assign a field, check_fix, copy, from_header, as_byteswapped to the same / other order, keep binaryblock)."""
    K = classes()[cls]
    size = K.template_dtype.itemsize
    ee = '>' if cls == 'mgh' else e

    def block():
        h = build_header(rng, cls, ee)
        if defect:
            D = defect_table(cls, K)
            for dn in rng.sample(sorted(D), min(len(D), rng.randrange(1, 3))):
                D[dn](rng, h)
            if 'vox_offset' in K.template_dtype.names and float(h['vox_offset']) == float('-inf'):
                h['vox_offset'] = 0
        return fill_free(rng, K, h.binaryblock, p=0.3)

    def sp(order=None):
        if cls == 'mgh':
            return '>'
        order = order or rng.choice([e, e, e, '<', '>'])
        for _ in range(20):
            a = spell(rng, order)
            if _tok_ok(a):
                return a
        return order

    numf = [f for f in layout_of(K) if f[4] != 'S']
    fields = layout_of(K)
    conts, script, nh = [], [], 0

    def add_A(k, first=False):
        blk = block()
        if k == 'bytesio':
            pre = bytes(rng.getrandbits(8) for _ in range(rng.randrange(0, 9)))
            content, hoff = pre + blk + bytes(16), len(pre)
        else:
            content, hoff = blk, 0
        script.append(['A', k, content.hex()])
        conts.append({'w': MEM_KINDS[k][0], 'file': k == 'bytesio', 'len': len(content), 'hoff': hoff,
                      'ctor': k != 'bytesio' and (cls != 'mgh' or k in MGH_KINDS)})

    def ctor_ok():
        return [i for i, c in enumerate(conts) if c['ctor'] and c['len'] == size]

    def files():
        return [i for i, c in enumerate(conts) if c['file']]

    def add_ctor(i):
        nonlocal nh
        script.append(['C', i, '?' if (cls != 'mgh' and rng.random() < 0.1) else sp()])
        nh += 1

    def add_F(i):
        nonlocal nh
        script.append(['F', i, conts[i]['hoff'], '?' if rng.random() < 0.1 else sp()])
        nh += 1

    def add_P(i):
        c = conts[i]
        r = rng.random()
        if r < 0.4:
            off, bs = c['hoff'], block()
        elif r < 0.8:
            n, foff, isz, cnt, kd = rng.choice(fields)
            off, bs = c['hoff'] + foff, bytes(rng.getrandbits(8) for _ in range(isz * cnt))
        else:
            off, bs = c['hoff'] + rng.randrange(size), bytes([rng.getrandbits(8)])
        script.append(['P', i, off, bs.hex()])

    def add_S():
        f = rng.choice(numf)
        script.append(['S', rng.randrange(nh), f[0], [rng.getrandbits(8 * f[2]) for _ in range(f[3])]])

    add_A(kind)
    if kind == 'bytesio':
        add_F(0)
    else:
        add_ctor(0)
    poked = False
    for _ in range(n_tail):
        ops = []
        wr = [i for i, c in enumerate(conts) if c['w']]
        if wr:
            ops += ['P'] * 4
        if ctor_ok():
            ops += ['C'] * 3
        if files() and cls != 'mgh':
            ops += ['F'] * 2
        ops += ['V'] * 2 + ['A']
        if nh:
            ops += ['S'] * 3 + ['X', 'K', 'Y', 'B']
            if cls != 'ecat':        # EcatHeader inherits SpatialHeader.from_header (generic field copy, no `check`)
                ops += ['H']
        o = rng.choice(ops)
        if o == 'P':
            add_P(rng.choice(wr))
            poked = True
        elif o == 'C':
            add_ctor(rng.choice(ctor_ok()))
        elif o == 'F':
            add_F(rng.choice(files()))
        elif o == 'V':
            i = rng.randrange(len(conts))
            vk = rng.choice(sorted(MEM_VIEWS))
            script.append(['V', i, vk])
            conts.append({'w': conts[i]['w'] and not MEM_VIEWS[vk], 'file': False, 'len': conts[i]['len'],
                          'hoff': conts[i]['hoff'], 'ctor': cls != 'mgh'})
        elif o == 'A':
            add_A(rng.choice(MGH_KINDS if cls == 'mgh' else sorted(MEM_KINDS)))
        elif o == 'S':
            add_S()
        elif o in 'XKHB':
            script.append([o, rng.randrange(nh)])
            nh += o in 'KH'
            if o == 'B':
                conts.append({'w': False, 'file': False, 'len': size, 'hoff': 0, 'ctor': True})
        elif o == 'Y':
            r = rng.random()
            to = sp('>') if cls == 'mgh' else (None if r < 0.3 else sp(rng.choice('<>')))
            script.append(['Y', rng.randrange(nh), to])
            nh += 1
    if conts[0]['w'] and (not poked or rng.random() < 0.5):
        add_P(0)                     # the caller re-uses the buffer the first header was built from
    if rng.random() < 0.5:
        add_S()
    return mk_mem(cls, script, 'mem-' + kind)


def cases(rng, tier):
    K = classes()
    out = []

    def C(op, cls, e, bs, stream, **kw):
        """Every endianness ARGUMENT handed to the API is drawn from all spellings `endian_codes` accepts:
        the constructor's `endianness=` as a random alias of the intended order, and (hdr) a target for
        as_byteswapped(<spelling>) over all aliases of both orders, sometimes an unknown spelling."""
        if e in ('<', '>') and cls != 'mgh':
            e = spell(rng, e)
        if op == 'hdr' and 'to' not in kw:
            r = rng.random()
            kw['to'] = any_spelling(rng) if r < 0.9 else (rng.choice(BAD_SPELLINGS) if r < 0.93 else None)
        if 'ck' not in kw and rng.random() < 0.6:
            kw['ck'] = rng.choice(block_kinds(cls))       # the block in any bytes-like container
        return mk_case(op, cls, e, bs, stream, **kw)

    # ---- every spelling of the byte order, as constructor argument and as as_byteswapped target
    sps = sorted(aliases())
    for cls in K:
        for e in (('>',) if cls == 'mgh' else ('<', '>')):
            h = build_header(rng, cls, e)
            bb = fill_free(rng, K[cls], h.binaryblock, p=0.3)
            mine = [a for a in sps if aliases()[a] == e]
            for j, to in enumerate(sps + BAD_SPELLINGS):
                ctor = '>' if cls == 'mgh' else mine[j % len(mine)]
                out.append(mk_case('hdr', cls, ctor, bb, 'aliases', valid=True, etrue=e, to=to))
            for ctor in mine:
                out.append(mk_case('chk', cls, '>' if cls == 'mgh' else ctor, bb, 'aliases-chk', valid=True, etrue=e))
            if cls != 'mgh':
                for bad in BAD_SPELLINGS:
                    out.append(mk_case('hdr', cls, bad, bb, 'aliases', to=None))
                    out.append(mk_case('chk', cls, bad, bb, 'aliases-chk'))
    def P(cls, e, bs, stream, valid=False, nontrivial=True, first=None):
        """A history of 2-3 public check_fix calls on one header at drawn error levels (None = the global level,
        itself drawn), the recording logger passed or installed globally."""
        if e in ('<', '>') and cls != 'mgh':
            e = spell(rng, e)
        glob = 40 if rng.random() < 0.4 else rng.choice(LEVEL_POOL)
        n = rng.choice([2, 2, 3])
        lvls = [None if rng.random() < 0.3 else rng.choice(LEVEL_POOL) for _ in range(n)]
        if first is not None:
            lvls[0] = first
        return mk_pfix(cls, e, glob, lvls, bs, stream, valid=valid, lg=rng.choice(['arg', 'glob']), nontrivial=nontrivial,
                       ck=rng.choice(block_kinds(cls)) if rng.random() < 0.6 else None)

    n_set = {'quick': 14, 'thorough': 300, 'search': 40}[tier]
    n_raw = {'quick': 6, 'thorough': 150, 'search': 20}[tier]
    n_rand = {'quick': 40, 'thorough': 2500, 'search': 120}[tier]
    max_sub = {'quick': 3, 'thorough': 4, 'search': 3}[tier]
    # ---- spec validation: codec, float classes, dt tables
    for e in '<>':
        for w in range(0, 9):
            for v in [0, 1, 74, 255, 256, 348, 540, 65535, 2 ** (8 * w) - 1 if w else 0, 2 ** (8 * w - 1) if w else 0] + \
                     [rng.getrandbits(8 * w + 3) for _ in range(4)]:
                out.append(mk_simple('codec', [e, w, v], 'codec'))
    for p in F32_POOL + [rng.getrandbits(32) for _ in range(n_rand * 3)] + [f32bits(x) for x in (352, 351.5, 544, 16, 1e6, 33554432.0, -352, 5e-324, 1e-40, 368, 3.5)]:
        out.append(mk_simple('fdec', ['f32', p], 'fdec'))
    for p in F64_POOL + [rng.getrandbits(64) for _ in range(n_rand * 3)] + [f64bits(x) for x in (352, 351.5, 544, 16, 1e300, 2.0 ** 60, -352, 5e-324, 1e-310, 368, 3.5)]:
        out.append(mk_simple('fdec', ['f64', p], 'fdec'))
    for p in I64_POOL + [rng.getrandbits(64) for _ in range(n_rand)]:
        out.append(mk_simple('fdec', ['i64', p], 'fdec'))
    for fmt, pool, bits in (('f32', F32_POOL, 32), ('f64', F64_POOL, 64)):
        pos = [p for p in pool if p < (1 << (bits - 1))]
        for nd in range(0, 8):
            for _ in range(max(2, n_rand // 20)):
                pix = [rng.choice(pos) if rng.random() < 0.7 else rng.getrandbits(bits - 1) for _ in range(8)]
                out.append(mk_simple('fhpix', [fmt, nd, ','.join(map(str, pix))], 'fhpix'))
    m = nb()
    for tname, rec in (('analyze', m['analyze'].data_type_codes), ('nifti1', m['nifti1'].data_type_codes)):
        for code in sorted(set(int(c) for c in rec.value_set()) | set(range(-2, 70)) | {127, 129, 254, 257, 511, 513, 1023, 1025, 2303, 2305, 4096}):
            out.append(mk_simple('dt', [tname, code], 'dt'))
    # ---- headers through the public setters, arbitrary bytes in free fields
    for cls in K:
        for e in ('<', '>'):
            if cls == 'mgh' and e == '<':
                continue
            for i in range(n_set):
                h = build_header(rng, cls, e)
                bb = h.binaryblock
                if i % 3:
                    bb = fill_free(rng, K[cls], bb)
                ee = '>' if cls == 'mgh' else e
                out.append(C('hdr', cls, ee, bb, 'setters', valid=True, etrue=ee, nontrivial=i > 0))
                out.append(C('hdr', cls, '?', bb, 'setters-guess', valid=True, etrue=ee, nontrivial=i > 0))
                out.append(C('chk', cls, ee, bb, 'setters-chk', valid=True, etrue=ee, nontrivial=i > 0))
                out.append(P(cls, ee, bb, 'pfix-valid', valid=True, nontrivial=i > 0))
                if i % 4 == 0 and cls in ANALYZE_FAMILY:
                    for dst in ANALYZE_FAMILY:
                        out.append(mk_fromhdr(cls, dst, e, bb, check=False))
                        out.append(mk_fromhdr(cls, dst, e, bb, check=True))
            # default header
            if cls != 'mgh':
                bb = K[cls](endianness=e).binaryblock
                out.append(C('hdr', cls, '?', bb, 'setters-guess', valid=True, etrue=e, nontrivial=False))
    # ---- guess sweep: dim[0] over its whole valid range and around it, sizeof_hdr tie breaker
    for cls in ANALYZE_FAMILY:
        fields = {f[0]: f for f in layout_of(K[cls])}
        for e in '<>':
            base = bytearray(K[cls](endianness=e).binaryblock)
            for d0 in list(range(-2, 10)) + [255, 256, 0x0100, 0x0700, 0x0800, 32767, -32768]:
                for sz in (K[cls].sizeof_hdr, 0, 1543569408, 470941696, 348, 540):
                    b = bytearray(base)
                    put_item(b, fields, e, 'dim', 0, d0)
                    put_item(b, fields, e, 'sizeof_hdr', 0, sz)
                    valid = 1 <= d0 <= 7 or (d0 == 0 and sz == K[cls].sizeof_hdr)
                    out.append(C('hdr', cls, '?', bytes(b), 'guess-sweep', valid=valid, etrue=e))
    for e in '<>':
        fields = {f[0]: f for f in layout_of(K['ecat'])}
        base = bytearray(K['ecat'](endianness=e).binaryblock)
        for sw in (74, 73, 0, 18944, 19018, 65535):
            b = bytearray(base)
            put_item(b, fields, e, 'sw_version', 0, sw)
            out.append(C('hdr', 'ecat', '?', bytes(b), 'guess-sweep', valid=(sw == 74), etrue=e))
    # ---- arbitrary byte strings (and wrong sizes)
    for cls in K:
        size = K[cls].template_dtype.itemsize
        for i in range(n_raw):
            bs = bytes(rng.getrandbits(8) for _ in range(size))
            for e in (('>',) if cls == 'mgh' else ('<', '>', '?')):
                out.append(C('hdr', cls, e, bs, 'raw'))
            out.append(C('chk', cls, '>' if cls == 'mgh' else rng.choice('<>'), bs, 'raw-chk'))
        for ln in (0, 1, size - 1, size + 1):
            out.append(C('hdr', cls, '>', bytes(ln), 'wrong-size'))
        if cls == 'mgh':
            for ln in (89, 90, 91, 109, 110, 111, 300):
                out.append(C('hdr', cls, '>', bytes(rng.getrandbits(8) | 1 for _ in range(ln)), 'mgh-size'))
            for i in range(n_raw):   # goodRASFlag == 0: documented replacement by defaults
                h = build_header(rng, 'mgh', '>')
                h['goodRASFlag'] = 0
                b = bytearray(h.binaryblock)
                out.append(C('hdr', 'mgh', '>', fill_free(rng, K[cls], bytes(b)), 'mgh-noras'))
                out.append(C('chk', 'mgh', '>', bytes(b), 'mgh-noras'))
    # ---- all subsets of seeded defects
    for cls in K:
        D = defect_table(cls, K[cls])
        names = sorted(D)
        for e in (('>',) if cls == 'mgh' else ('<', '>')):
            for r in range(0, min(max_sub, len(names)) + 1):
                for sub in itertools.combinations(names, r):
                    for rep in range(1 if tier != 'thorough' else 4):
                        h = build_header(rng, cls, e)
                        order = list(sub)
                        rng.shuffle(order)
                        for dn in order:
                            D[dn](rng, h)
                        out.append(C('chk', cls, e, h.binaryblock, 'defects', nontrivial=bool(sub)))
                        out.append(P(cls, e, h.binaryblock, 'pfix-defects', nontrivial=bool(sub)))
                        if rep == 0 and r <= 1:
                            out.append(C('hdr', cls, e, h.binaryblock, 'defects-hdr', nontrivial=bool(sub)))
    # ---- random bit patterns in the checked fields
    CHK_FIELDS = ['sizeof_hdr', 'datatype', 'bitpix', 'pixdim', 'magic', 'vox_offset', 'qform_code', 'sform_code',
                  'eol_check', 'origin', 'dim', 'version']
    for cls in K:
        if not K[cls]._get_checks():
            continue
        lay = {f[0]: f for f in layout_of(K[cls])}
        for i in range(n_rand):
            e = '>' if cls == 'mgh' else rng.choice('<>')
            b = bytearray(build_header(rng, cls, e).binaryblock)
            for fn in CHK_FIELDS:
                if fn not in lay or rng.random() < 0.55:
                    continue
                n, off, isz, cnt, kind = lay[fn]
                if kind == 'S':
                    pool = [b'n+1\x00', b'ni1\x00', b'n+2\x00', b'ni2\x00', b'n+1x', b'\x00\x00\x00\x00', b'n+\x001']
                    b[off:off + isz * cnt] = (rng.choice(pool) + bytes(isz * cnt))[:isz * cnt] if rng.random() < 0.8 else bytes(rng.getrandbits(8) for _ in range(isz * cnt))
                    continue
                for k in range(cnt):
                    if fn in ('pixdim', 'dim') and k > 3:
                        continue
                    if fn == 'dim' and k == 0:
                        continue
                    if rng.random() < 0.6:
                        put_item(b, lay, e, fn, k, rand_pattern(rng, isz, kind))
            out.append(C('chk', cls, e, bytes(b), 'chkrand'))
            out.append(P(cls, e, bytes(b), 'pfix-rand'))
    # ---- objects and buffers: histories of copy / as_byteswapped / field writes on several objects
    n_world = {'quick': 6, 'thorough': 60, 'search': 12}[tier]
    for cls in K:
        numf = [f for f in layout_of(K[cls]) if f[4] != 'S']
        for e in (('>',) if cls == 'mgh' else ('<', '>')):
            for _ in range(n_world):
                bb = fill_free(rng, K[cls], build_header(rng, cls, e).binaryblock, p=0.3)
                script, nobj = [], 1
                for _ in range(rng.randrange(3, 8)):
                    r = rng.random()
                    if r < 0.3 or nobj == 1:
                        script.append(('c', rng.randrange(nobj)))
                        nobj += 1
                    elif r < 0.45 and cls != 'mgh':
                        script.append(('y', rng.randrange(nobj)))
                        nobj += 1
                    else:
                        f = rng.choice(numf)
                        script.append(('s', rng.randrange(nobj), f[0], [rng.getrandbits(8 * f[2]) for _ in range(f[3])]))
                out.append(mk_world(cls, '>' if cls == 'mgh' else spell(rng, e), bb, script))
    # ---- who owns the bytes: binaryblock container kind x class x byte order, then histories on buffers and headers
    n_mem = {'quick': 2, 'thorough': 10, 'search': 3}[tier]
    for cls in K:
        for e in (('>',) if cls == 'mgh' else ('<', '>')):
            for kind in (MGH_KINDS if cls == 'mgh' else sorted(MEM_KINDS)):
                for j in range(n_mem):
                    out.append(gen_mem_history(rng, cls, e, kind, rng.randrange(3, 8 if tier == 'quick' else 11),
                                               defect=(j % 3 == 1)))
    # ---- NIfTI headers carrying extensions: copy / same-order as_byteswapped / from_header keep them
    for cls in NIFTI_CLASSES:
        for e in '<>':
            for j in range({'quick': 3, 'thorough': 20, 'search': 5}[tier]):
                bb = build_header(rng, cls, e).binaryblock
                exts = [(rng.choice([0, 4, 6, 6, 99, 1000, 40]), bytes(rng.getrandbits(8) for _ in range(rng.randrange(0, 20))).hex())
                        for _ in range(j if j < 3 else rng.randrange(0, 5))]
                out.append(mk_ext(cls, spell(rng, e), bb, exts, to=spell(rng, '>' if e == '<' else '<')))
    # ---- from_header: dimensions that do not fit the target's dim item, negative / odd pixdims
    for cls in ANALYZE_FAMILY:
        for e in '<>':
            for _ in range({'quick': 3, 'thorough': 30, 'search': 6}[tier]):
                h = build_header(rng, cls, e)
                nd = int(h['dim'][0])
                r = rng.random()
                if cls.startswith('nifti2') and nd >= 2 and r < 0.5:
                    shp = list(h.get_data_shape())
                    shp[rng.randrange(1, nd)] = rng.choice([32767, 32768, 40000, 70000, 2 ** 31])
                    h.set_data_shape(shp)
                elif nd >= 1:
                    k = rng.randrange(1, nd + 1)      # inside the zooms (entries after ndim: see the open finding)
                    h['pixdim'][k] = rng.choice([-1.0, -2.5, -0.0, 0.0, np.nan, np.inf])
                for dst in ANALYZE_FAMILY:
                    if dst != cls:
                        out.append(mk_fromhdr(cls, dst, e, h.binaryblock, check=False))
    # ---- every error level against headers carrying ALL (and all-but-one of) the applicable defects
    for cls in K:
        D = defect_table(cls, K[cls])
        names = sorted(D)
        if not names:
            continue
        for e in (('>',) if cls == 'mgh' else ('<', '>')):
            subsets = [names] + ([[n for n in names if n != drop] for drop in names] if tier != 'quick' and len(names) > 1 else [])
            for sub in subsets:
                for lvl in LEVEL_POOL + [None]:
                    h = build_header(rng, cls, e)
                    order = list(sub)
                    rng.shuffle(order)
                    for dn in order:
                        D[dn](rng, h)
                    out.append(P(cls, e, h.binaryblock, 'pfix-levels', first=lvl))
    return out


# ------------------------------------------------------------------ the property, stated on the real code

def _seg(out, key):
    m = re.search(r'(?:^| )' + re.escape(key) + r'=(\S*)', out)
    return m.group(1) if m else None


def oracle_hdr(case, out):
    d = case.data
    cls, e = d['cls'], d['e']
    K = classes()[cls]
    bs = b'' if d['hex'] == '-' else bytes.fromhex(d['hex'])
    size = K.template_dtype.itemsize
    if out.startswith('ERR:WrapStructError'):
        ok_len = (len(bs) >= nb()['mghformat'].header_dtype.itemsize) if cls == 'mgh' else len(bs) == size
        return f'{cls}: a binary block of the right size ({len(bs)}) was rejected' if ok_len else None
    want_e = None if e == '?' else resolve(e)
    if out.startswith('ERR:KeyError'):
        return None if (e != '?' and want_e is None) else f'{cls}: endianness spelling {e!r} rejected with KeyError'
    if out.startswith('ERR'):
        return f'{cls}: constructing a header from {len(bs)} bytes raised {out}'
    if e != '?' and want_e is None and cls != 'mgh':
        return f'{cls}: unknown endianness spelling {e!r} accepted'
    if cls != 'mgh' and len(bs) != size:
        return f'{cls}: binary block of wrong size {len(bs)} accepted'
    ex = case.extra
    h, bb = ex['h'], ex['bb']
    he = h.endianness
    expect = bs
    if cls == 'mgh':
        expect = bs[:size] + b'\x00' * (size - len(bs))
        lay = {f[0]: f for f in layout_of(K)}
        o = lay['goodRASFlag'][1]
        if expect[o:o + 2] == b'\x00\x00':
            # documented: goodRASFlag == 0 -> orientation fields are replaced by the defaults
            b = bytearray(expect)
            b[o:o + 2] = b'\x00\x01'
            for name, vals in (('delta', [1, 1, 1]), ('Mdc', [-1, 0, 0, 0, 0, 1, 0, -1, 0]), ('Pxyz_c', [0, 0, 0])):
                oo = lay[name][1]
                b[oo:oo + 4 * len(vals)] = b''.join(struct.pack('>f', v) for v in vals)
            expect = bytes(b)
    if getattr(K, 'sizeof_hdr', None) is not None and len(bb) != K.sizeof_hdr:
        return f'{cls}: header block has {len(bb)} bytes but the class declares sizeof_hdr {K.sizeof_hdr}'
    if bb != expect:
        i = next((i for i in range(min(len(bb), len(expect))) if bb[i] != expect[i]), min(len(bb), len(expect)))
        return f'{cls} endian {e}: header built from bytes serialises to different bytes (first difference at byte {i}, len {len(bb)} vs {len(expect)})'
    if e != '?' and cls != 'mgh' and he != want_e:
        return f'{cls}: built with endianness {e!r} (= {want_e}) but reports {he}'
    if e == '?' and d.get('valid') and he != d['etrue']:
        return f'{cls}: valid header written in {d["etrue"]} detected as {he}'
    vals = _seg(out, 'vals')
    want = own_decode(bb, K, he)
    if vals != want:
        a, b = vals.split(';'), want.split(';')
        j = next((j for j in range(min(len(a), len(b))) if a[j] != b[j]), -1)
        nm = K.template_dtype.names[j] if j >= 0 else '?'
        return f'{cls} endian {he}: field {nm} read through the header differs from the bytes: got {a[j] if j >= 0 else vals[:40]} want {b[j] if j >= 0 else want[:40]}'
    if _seg(out, 'copy') != '1':
        return f'{cls}: copy() does not compare equal / has different bytes'
    # copies are independent of the original
    c = h.copy()
    num = [f for f in layout_of(K) if f[4] != 'S']
    n0 = num[len(bb) % len(num)][0]
    old = np.array(c[n0]).copy()
    newv = np.where(np.asarray(old).astype(np.float64) == 3, 4, 3).astype(old.dtype)
    c[n0] = newv
    if h.binaryblock != bb:
        return f'{cls}: writing field {n0} of a copy changed the original'
    if (c == h) and not np.array_equal(old, newv):
        return f'{cls}: a modified copy still compares equal to the original'
    c2 = h.copy()
    h[n0] = newv
    if c2.binaryblock != bb:
        return f'{cls}: writing field {n0} of the original changed an earlier copy'
    h[n0] = old
    if h.binaryblock != bb:
        return f'{cls}: restoring field {n0} does not restore the bytes'
    to = d.get('to')
    if to is not None:
        tgt = resolve(to)
        tseg = _seg(out, 'to')
        if tgt is None:
            if tseg != 'ERR:KeyError':
                return f'{cls}: as_byteswapped({to!r}) with an unknown spelling gave {str(tseg)[:40]}'
        elif cls == 'mgh' and tgt != '>':
            if tseg != 'ERR:ValueError':
                return f'mgh: as_byteswapped({to!r}) (= {tgt}) should be refused, gave {str(tseg)[:40]}'
        else:
            if tseg is None or tseg.startswith('ERR'):
                return f'{cls} endian {he}: as_byteswapped({to!r}) raised {tseg}'
            t = ex['t']
            if t is h:
                return f'{cls}: as_byteswapped({to!r}) returned the same object'
            if t.endianness != tgt:
                return f'{cls} endian {he}: as_byteswapped({to!r}) has endianness {t.endianness}, {to!r} means {tgt}'
            if not tseg.endswith(':111'):
                return (f'{cls} endian {he}: as_byteswapped({to!r}) (= {tgt}) does not compare equal / exposes different '
                        f'field values (same values, h==t, t==h: {tseg[-3:]})')
            if t.binaryblock != (bb if tgt == he else own_swap(bb, K)):
                return f'{cls} endian {he}: as_byteswapped({to!r}) (= {tgt}) has the wrong bytes'
            if own_decode(t.binaryblock, K, t.endianness) != want:
                return f'{cls} endian {he}: as_byteswapped({to!r}) decodes to different values'
    if cls == 'mgh':
        return None
    s = ex['s']
    if s.endianness == he:
        return f'{cls}: as_byteswapped() kept endianness {he}'
    if _seg(out, 'eq') != '11':
        return f'{cls} endian {he}: byte-swapped copy does not compare equal (h==s, s==h: {_seg(out, "eq")})'
    if _seg(out, 'swvals') != '1':
        return f'{cls} endian {he}: byte-swapped copy exposes different field values'
    if s.binaryblock != own_swap(bb, K):
        return f'{cls} endian {he}: bytes of the byte-swapped copy are not the per-item reversal of the original'
    if own_decode(s.binaryblock, K, s.endianness) != want:
        return f'{cls}: byte-swapped copy decodes to different values'
    if _seg(out, 'back') != '1':
        return f'{cls}: as_byteswapped twice does not give back the original bytes'
    same = h.as_byteswapped(he)
    if same is h or same.endianness != he or same.binaryblock != bb:
        return f'{cls}: as_byteswapped(current endianness) is not an identical copy'
    return None


def oracle_chk(case, out):
    d = case.data
    cls, e = d['cls'], d['e']
    K = classes()[cls]
    bs = b'' if d['hex'] == '-' else bytes.fromhex(d['hex'])
    if out.startswith('ERR:WrapStructError'):
        return None if len(bs) != K.template_dtype.itemsize else f'{cls}: right-sized block rejected'
    if out.startswith('ERR:KeyError'):
        return None if resolve(e) is None else f'{cls}: endianness spelling {e!r} rejected'
    if out.startswith('ERR:OverflowError'):
        h = make_hdr(cls, e, bs)
        v = float(h['vox_offset']) if 'vox_offset' in K.template_dtype.names else 0
        if v == float('-inf'):
            return None     # stated exclusion: -inf offset makes the message formatting overflow
        return f'{cls}: check_fix raised OverflowError on vox_offset {v}'
    if out.startswith('ERR'):
        return f'{cls}: running the checks raised {out}'
    ex = case.extra
    names = [f.__name__ for f in K._get_checks()]
    lv = lambda reps: [int(r.problem_level) for r in reps]
    if ex['only_changed']:
        return f'{cls}: check_only modified the header'
    if ex['bb2'] != ex['bb1'] or ex['bb3'] != ex['bb1']:
        return f'{cls} endian {e}: check_fix is not idempotent: second run changed the header again (levels run1 {lv(ex["r1"])}, run2 {lv(ex["r2"])})'
    if not any(lv(ex['r1'])) and ex['bb1'] != ex['bb0']:
        return f'{cls} endian {e}: check_fix altered a header for which it reported no problem'
    if not any(lv(ex['ro'])) and ex['bb1'] != ex['bb0']:
        return f'{cls} endian {e}: check_fix altered a header that check_only finds clean'
    bad = [(n, r.problem_level, r.problem_msg) for n, r in zip(names, ex['r1'])
           if r.problem_level and n != '_chk_origin']      # origin: advisory only (depends on the affine given)
    if d.get('valid') and (bad or ex['bb1'] != ex['bb0']):
        return f'{cls} endian {e}: a header built only through the public setters is reported/changed by check_fix: {bad}'
    if lv(ex['ro']) != lv(ex['r1']):
        return f'{cls}: check_only levels {lv(ex["ro"])} differ from check_fix levels {lv(ex["r1"])}'
    for nm, r in zip(names, ex['r2']):
        if r.problem_level and nm not in UNFIXABLE_CHECKS:
            return f'{cls} endian {e}: {nm} still reports level {r.problem_level} ({r.problem_msg}) after check_fix'
    if lv(ex['r2']) != lv(ex['r3']) or lv(ex['r2']) != lv(ex['ro2']):
        return f'{cls}: reports after repair are unstable: {lv(ex["r2"])} / {lv(ex["r3"])} / check_only {lv(ex["ro2"])}'
    # the public entry point performs the same repair
    from nibabel.spatialimages import HeaderDataError
    hp = make_hdr(cls, e, bs)
    try:
        hp.check_fix(logger=_quiet, error_level=1000)
    except Exception as exn:
        return f'{cls}: hdr.check_fix(error_level=1000) raised {type(exn).__name__}'
    if hp.binaryblock != ex['bb1']:
        return f'{cls}: hdr.check_fix gives a different header than BatteryRunner.check_fix'
    hq = make_hdr(cls, e, bs)
    worst = max(lv(ex['r1']) or [0])
    try:
        hq.check_fix(logger=_quiet, error_level=40)
        raised = False
    except HeaderDataError:
        raised = True
    if raised != (worst >= 40):
        return f'{cls}: check_fix(error_level=40) raised={raised} with worst level {worst}'
    # same repair in the other byte order
    if cls != 'mgh':
        BatteryRunner = nb()['batteryrunners'].BatteryRunner
        hs = make_hdr(cls, e, bs).as_byteswapped()
        _, rs = BatteryRunner(K._get_checks()).check_fix(hs)
        if lv(rs) != lv(ex['r1']):
            return f'{cls}: byte-swapped header gives different report levels {lv(rs)} vs {lv(ex["r1"])}'
        hf = make_hdr(cls, e, ex['bb1'])
        if not (hs == hf):
            return f'{cls}: repair of the byte-swapped header differs from the repair of the original'
    return None


def _first_raising(pre, eff):
    return next((i for i, (lvl, _) in enumerate(pre) if lvl and lvl >= eff), None)


def oracle_pfix(case, out):
    """The repair clauses of the property on the PUBLIC entry point, whatever the error level and whether or not
    a call raised: every repair is in the header after the first call, later calls never change it, a clean
    header is never touched and never raises, the call raises exactly when a report reaches the level."""
    d = case.data
    cls, e = d['cls'], d['e']
    K = classes()[cls]
    bs = b'' if d['hex'] == '-' else bytes.fromhex(d['hex'])
    if out.startswith('ERR:WrapStructError'):
        return None if len(bs) != K.template_dtype.itemsize else f'{cls}: right-sized block rejected'
    if out.startswith('ERR:KeyError'):
        return None if resolve(e) is None else f'{cls}: endianness spelling {e!r} rejected'
    if out.startswith('ERR:OverflowError'):
        h = make_hdr(cls, e, bs)
        v = float(h['vox_offset']) if 'vox_offset' in K.template_dtype.names else 0
        return None if v == float('-inf') else f'{cls}: check_fix raised OverflowError on vox_offset {v}'
    if out.startswith('ERR'):
        return f'{cls}: running the checks raised {out}'
    ex = case.extra
    names = [f.__name__ for f in K._get_checks()]
    steps = ex['steps']
    if ex['level_inside'] != d['glob'] or ex['level_after'] != ex['level_before']:
        return (f'imageglobals.ErrorLevel({d["glob"]}): level inside {ex["level_inside"]}, before {ex["level_before"]}, '
                f'after {ex["level_after"]} (raised inside: {any(st["raised"] is not None for st in steps)})')
    bb1 = steps[0]['bb']
    how = lambda st: 'raised' if st['raised'] is not None else 'completed'
    for i, st in enumerate(steps):
        pre, eff, recs = st['pre'], st['eff'], st['recs']
        tag = f'{cls} endian {e}: check_fix #{i + 1}(error_level={st["lvl"]}' + (f' -> global {eff}' if st['lvl'] is None else '') + ')'
        first = _first_raising(pre, eff)
        if (st['raised'] is not None) != (first is not None):
            return (f'{tag} {how(st)} although the report levels of the header are {[l for l, _ in pre]} '
                    f'(raise expected: {first is not None})')
        want_n = len(names) if first is None else first + 1
        if len(recs) != want_n:
            return f'{tag} logged {len(recs)} reports, expected {want_n} (levels {[l for l, _ in pre]}, first to raise: {first})'
        if [l for l, _ in recs] != [l for l, _ in pre[:want_n]]:
            return f'{tag} logged levels {[l for l, _ in recs]}, check_only reports {[l for l, _ in pre[:want_n]]}'
        if first is not None and str(st['raised']) != pre[first][1]:
            return f'{tag} raised {str(st["raised"])!r}, the first report at the level says {pre[first][1]!r}'
        if i == 0:
            if not any(l for l, _ in pre) and st['bb'] != ex['bb0']:
                return f'{tag} altered a header that check_only finds clean'
            if d.get('valid'):
                bad = [(n, l) for n, (l, _) in zip(names, pre) if l and n != '_chk_origin']
                if bad or st['bb'] != ex['bb0']:
                    return f'{tag}: a header built only through the public setters is reported/changed: {bad}'
        elif st['bb'] != bb1:
            return (f'{tag} is not idempotent: it changed the header again after a first check_fix(error_level='
                    f'{steps[0]["lvl"]}) that {how(steps[0])}')
    for nm, r in zip(names, ex['ro']):
        if r.problem_level and nm not in UNFIXABLE_CHECKS:
            return (f'{cls} endian {e}: {nm} still reports level {r.problem_level} ({r.problem_msg}) after '
                    f'check_fix(error_level={steps[0]["lvl"]}) that {how(steps[0])}')
    # the error level decides when the call raises, never what is repaired
    hp = make_hdr(cls, e, bs)
    try:
        hp.check_fix(logger=_quiet, error_level=1000)
    except Exception as exn:
        return f'{cls}: hdr.check_fix(error_level=1000) raised {type(exn).__name__}'
    if hp.binaryblock != bb1:
        return (f'{cls} endian {e}: the header left by check_fix(error_level={steps[0]["lvl"]}, effective {steps[0]["eff"]}) that '
                f'{how(steps[0])} differs from the one left by check_fix(error_level=1000): the repair depends on the error level')
    # checking constructor
    first = _first_raising(steps[0]['pre'], d['glob'])
    if (ex['ctor'] is None) != (first is not None):
        return (f'{cls}: {K.__name__}(bytes, check=True) with imageglobals.error_level={d["glob"]} '
                f'{"raised" if ex["ctor"] is None else "succeeded"}; report levels {[l for l, _ in steps[0]["pre"]]}')
    if ex['ctor'] is not None and ex['ctor'] != bb1:
        return f'{cls}: {K.__name__}(bytes, check=True) gives a different header than check_fix on the unchecked header'
    want = [m for l, m in steps[0]['pre'] if m]
    if ex['diag'] != want:
        return f'{cls}: diagnose_binaryblock reports {ex["diag"]}, check_only {want}'
    return None


def _cast_equal(a, b_dtype, b):
    with np.errstate(all='ignore'):
        a2 = np.asarray(a).astype(b_dtype.base if hasattr(b_dtype, 'base') else b_dtype)
    b2 = np.asarray(b)
    if a2.shape != b2.shape:
        return False
    if a2.dtype.kind == 'f':
        return bool(np.all((a2 == b2) | (np.isnan(a2) & np.isnan(b2))))
    return bool(np.all(a2 == b2))


def oracle_fromhdr(case, out):
    d = case.data
    Ks = classes()
    S, D = Ks[d['cls']], Ks[d['dst']]
    ex = case.extra
    if ex is None:
        return f'from_header({d["cls"]}->{d["dst"]}, check={d["check"]}) raised {out}'
    src = ex['src']
    if src.binaryblock != ex['bb_src']:
        return f'from_header({d["cls"]}->{d["dst"]}) modified the source header'
    sdt = src.get_data_dtype().newbyteorder('=')
    supported = any(np.dtype(t) == sdt for t in supported_dtypes(D))
    if out.startswith('ERR:HeaderDataError'):
        if not supported:
            return None
        if d['check']:
            return None   # check=True may legitimately raise on a level>=40 problem carried over (e.g. single-file offset)
        if type(src) is not D:
            ddt = D.template_dtype['dim'].base
            shp = src.get_data_shape()
            if any(not (np.iinfo(ddt).min <= int(v) <= np.iinfo(ddt).max) for v in shp):
                return None   # documented: shape does not fit in the target's dim datatype
            if int(src['dim'][0]) and any(float(z) < 0 for z in src.get_zooms()):
                return None   # documented: set_zooms refuses negative zooms
        return f'from_header({d["cls"]}->{d["dst"]}, check=False) raised {ex["exc"]!r} for supported dtype {sdt}'
    if out.startswith('ERR'):
        return f'from_header({d["cls"]}->{d["dst"]}) raised {out}'
    dst = ex['dst']
    if type(dst) is not D:
        return f'from_header returned {type(dst).__name__}, not {D.__name__}'
    if not supported:
        return f'from_header({d["cls"]}->{d["dst"]}) accepted unsupported dtype {sdt}'
    if dst.get_data_dtype().newbyteorder('=') != sdt:
        return f'from_header({d["cls"]}->{d["dst"]}): dtype {sdt} became {dst.get_data_dtype()}'
    if tuple(dst.get_data_shape()) != tuple(src.get_data_shape()):
        return f'from_header({d["cls"]}->{d["dst"]}): shape {src.get_data_shape()} became {dst.get_data_shape()}'
    zs, zd = np.array(src.get_zooms(), dtype=np.float64), np.array(dst.get_zooms(), dtype=np.float64)
    f4 = 'f4' in (S.template_dtype['pixdim'].base.str[1:], D.template_dtype['pixdim'].base.str[1:])
    if zs.shape != zd.shape or not np.array_equal(zs.astype('f4') if f4 else zs, zd.astype('f4') if f4 else zd, equal_nan=True):
        return f'from_header({d["cls"]}->{d["dst"]}): zooms {tuple(zs)} became {tuple(zd)}'
    if 'magic' in D.template_dtype.names and type(src) is not D:
        wantm = D.single_magic if D.is_single else D.pair_magic
        if np.asarray(dst['magic']).item() != wantm:
            return f'from_header({d["cls"]}->{d["dst"]}): magic is {np.asarray(dst["magic"]).item()!r}, the target class uses {wantm!r}'
    skip = {'magic', 'dim'}      # dim is rewritten by set_data_shape (a 0-d header reads back as shape (0,))
    if d['check']:
        skip |= {'sizeof_hdr', 'bitpix', 'vox_offset', 'qform_code', 'sform_code', 'pixdim', 'eol_check'}
    for n in S.template_dtype.names:
        if n in D.template_dtype.names and n not in skip:
            ft = D.template_dtype[n]
            if S.template_dtype[n].shape != ft.shape:
                continue
            if S.template_dtype[n].base.kind == 'S':
                if np.asarray(src[n]).item() != np.asarray(dst[n]).item():
                    return f'from_header({d["cls"]}->{d["dst"]}): field {n} {src[n]!r} became {dst[n]!r}'
            elif not _cast_equal(src[n], ft, dst[n]):
                return f'from_header({d["cls"]}->{d["dst"]}, check={d["check"]}): field {n} {np.asarray(src[n])} became {np.asarray(dst[n])}'
    if type(src) is D and not d['check'] and dst.binaryblock != (src.binaryblock if dst.endianness == src.endianness else src.as_byteswapped().binaryblock):
        return f'from_header of the same class is not a copy'
    return None


def _block_untouched(case, res):
    """After everything the case did with the header (field writes on it and its copies, byte swaps, repairs at
    any error level), the container the caller passed as `binaryblock` still holds the bytes it held."""
    ex = case.extra
    if res is None and isinstance(ex, dict) and ex.get('blk') is not None:
        d = case.data
        bs = b'' if d['hex'] == '-' else bytes.fromhex(d['hex'])
        if mem_bytes(ex['blk']) != bs:
            return (f'{d["cls"]}: operations on a header built from a {d.get("ck", "bytes")} block wrote into the '
                    f"caller's block (the header is not independent of the buffer it was built from)")
    return res


def oracle(case, out):
    op = case.data['op']
    if op == 'hdr':
        return _block_untouched(case, oracle_hdr(case, out))
    if op == 'chk':
        return _block_untouched(case, oracle_chk(case, out))
    if op == 'pfix':
        return _block_untouched(case, oracle_pfix(case, out))
    if op == 'world':
        return oracle_world(case, out)
    if op == 'mem':
        return oracle_mem(case, out)
    if op == 'ext':
        return oracle_ext(case, out)
    if op == 'fromhdr':
        return oracle_fromhdr(case, out)
    if op == 'dt':
        a = case.data['args']
        m = nb()
        rec = {'analyze': m['analyze'].data_type_codes, 'nifti1': m['nifti1'].data_type_codes}[a[0]]
        code = int(a[1])
        if out == 'none':
            return None
        dt, s = np.dtype(rec.dtype[code]), np.dtype(rec.sw_dtype[code])
        if (s.kind, s.itemsize) != (dt.kind, dt.itemsize):
            return f'dt table {a[0]}: swapped dtype of code {code} is {s}, dtype {dt}'
        if dt.itemsize > 1 and dt.kind in 'iufc' and dt.isnative == s.isnative:
            return f'dt table {a[0]}: sw_dtype of code {code} has the same byte order'
        if dt.itemsize and (rec.code[dt] != code or rec.code[s] != code):
            return f'dt table {a[0]}: code {code} -> {dt} -> code {rec.code[dt]} / swapped -> {rec.code[s]}'
        return None
    return None


def signature(case, what):
    d = case.data
    op = d['op']
    w = what.lower()
    if op in ('hdr', 'chk', 'pfix') and "caller's block" in w:
        return f'{op}:{d["cls"]}:block-written'
    if op == 'hdr':
        for k, t in (('serialises to different', 'bytes-roundtrip'), ('detected as', 'endian-guess'), ('differs from the bytes', 'field-values'),
                     ('as_byteswapped(', 'byteswap-to'), ('spelling', 'endian-spelling'), ('built with endianness', 'endian-spelling'),
                     ('byte-swapped', 'byteswap'), ('as_byteswapped', 'byteswap'), ('copy', 'copy'), ('size', 'size')):
            if k in w:
                return f'hdr:{d["cls"]}:{t}'
        return f'hdr:{d["cls"]}:other'
    if op == 'chk':
        for k, t in (('idempotent', 'not-idempotent'), ('altered', 'noop'), ('still reports', 'not-repaired'),
                     ('public setters', 'valid-flagged'), ('check_only', 'check-only'), ('byte-swapped', 'endian-dependent'),
                     ('raised', 'raise')):
            if k in w:
                return f'chk:{d["cls"]}:{t}'
        return f'chk:{d["cls"]}:other'
    if op == 'world':
        return f'world:{d["cls"]}:' + ('not-independent' if 'changed' in w else 'other')
    if op == 'ext':
        return f'ext:{d["cls"]}:' + ('extensions-lost' if 'became' in w else 'not-independent' if 'independent' in w or 'shares' in w else 'other')
    if op == 'mem':
        for k, t in (('not independent', 'not-independent'), ('raised', 'raise'), ('serialises to different', 'bytes-roundtrip'),
                     ('endianness', 'endian-spelling'), ('same object', 'same-object')):
            if k in w:
                return f'mem:{d["cls"]}:{t}'
        return f'mem:{d["cls"]}:other'
    if op == 'pfix':
        for k, t in (('idempotent', 'not-idempotent'), ('depends on the error level', 'level-dependent-repair'),
                     ('altered', 'noop'), ('still reports', 'not-repaired'), ('public setters', 'valid-flagged'),
                     ('check=true', 'ctor-check'), ('diagnose_binaryblock', 'diagnose'), ('logged', 'log'),
                     ('although the report levels', 'raise-level'), ('raised', 'raise')):
            if k in w:
                return f'pfix:{d["cls"]}:{t}'
        return f'pfix:{d["cls"]}:other'
    if op == 'fromhdr':
        if 'field pixdim' in what:
            try:
                src = make_hdr(d['cls'], d['e'], bytes.fromhex(d['hex']))
                dst = classes()[d['dst']].from_header(src, check=False)
                nd = len(src.get_data_shape()) if int(src['dim'][0]) else 0
                a = np.asarray(src['pixdim']).astype(np.float64)
                b = np.asarray(dst['pixdim']).astype(np.float64)
                same = (a == b) | (np.isnan(a) & np.isnan(b))
                if nd < 3 and type(src) is not type(dst) and same[:nd + 1].all() and (b[nd + 1:] == 1).all():
                    return 'fromhdr:pixdim-beyond-ndim-reset'
            except Exception:
                pass
        return f'fromhdr:{d["cls"]}->{d["dst"]}'
    return op


def shrink_candidates(case):
    d = case.data
    if d['op'] == 'mem':
        sc = d['script']
        for k in range(2, len(sc)):             # shorter histories: prefixes
            yield mk_mem(d['cls'], sc[:k], d.get('stream', 'shrunk'))
        return
    if d['op'] not in ('hdr', 'chk', 'pfix') or d['hex'] == '-':
        return
    K = classes()[d['cls']]
    bs = bytes.fromhex(d['hex'])
    if len(bs) != K.template_dtype.itemsize:
        return
    e = resolve(d['e']) or d.get('etrue') or '<'
    try:
        base = K(endianness=e).binaryblock if d['cls'] != 'mgh' else K().binaryblock
    except Exception:
        return
    if d['op'] == 'pfix':
        mk = lambda b2, lvls=None: mk_pfix(d['cls'], d['e'], d['glob'], d['lvls'] if lvls is None else lvls, b2,
                                           d.get('stream', 'shrunk'), d.get('valid', False), d.get('lg', 'arg'), ck=d.get('ck'))
        if len(d['lvls']) > 2:
            yield mk(bs, d['lvls'][:2])
            yield mk(bs, d['lvls'][:1] + d['lvls'][2:])
        if d['glob'] != 40 and None not in d['lvls']:
            yield mk_pfix(d['cls'], d['e'], 40, d['lvls'], bs, d.get('stream', 'shrunk'), d.get('valid', False), 'arg', ck=d.get('ck'))
        for n, off, isz, cnt, kind in layout_of(K):
            ln = isz * cnt
            if bs[off:off + ln] != base[off:off + ln]:
                yield mk(bs[:off] + base[off:off + ln] + bs[off + ln:])
        return
    # reset one field at a time to the class default
    for n, off, isz, cnt, kind in layout_of(K):
        ln = isz * cnt
        if bs[off:off + ln] != base[off:off + ln]:
            b2 = bs[:off] + base[off:off + ln] + bs[off + ln:]
            yield mk_case(d['op'], d['cls'], d['e'], b2, d.get('stream', 'shrunk'), d.get('valid', False), d.get('etrue'),
                          to=d.get('to'), ck=d.get('ck'))
